"""Automatic silent twins (behaviour-preserving edits computed from the AST): used by tools/autotwins.py (all functions a property
puts obligations on) and, sampled, by the thorough tier.  how: pass | doc | tmpret | ifswap."""
import ast


def edit(src, qual, how):
    tree = ast.parse(src)
    parts = qual.split('.')
    def find(body, parts):
        for n in body:
            for x in ast.walk(n) if not isinstance(n, (ast.FunctionDef, ast.AsyncFunctionDef, ast.ClassDef)) else [n]:
                if isinstance(x, (ast.FunctionDef, ast.AsyncFunctionDef, ast.ClassDef)) and x.name == parts[0]:
                    if len(parts) == 1:
                        return x
                    r = find(x.body, parts[1:])
                    if r is not None:
                        return r
        return None
    node = find(tree.body, parts)
    if node is None or not isinstance(node, (ast.FunctionDef, ast.AsyncFunctionDef)):
        return None
    first = node.body[0]
    has_doc = isinstance(first, ast.Expr) and isinstance(first.value, ast.Constant) and isinstance(first.value.value, str)
    lines = src.split('\n')
    if how == 'pass':
        target = node.body[1] if has_doc and len(node.body) > 1 else (None if has_doc else first)
        if target is None:
            return None
        ln = target.lineno - 1
        if target.lineno == node.lineno:      # one-line def
            return None
        ind = lines[ln][:len(lines[ln]) - len(lines[ln].lstrip())]
        lines.insert(ln, ind + 'pass')
    elif how == 'ifswap':
        # `if C: A else: B` -> `if not (C): B else: A` for the first if/else (no elif) whose two branches are single-line statements lists
        cand = None
        for x in ast.walk(node):
            if isinstance(x, ast.If) and x.orelse and not (len(x.orelse) == 1 and isinstance(x.orelse[0], ast.If)) \
                    and x.test.lineno == x.test.end_lineno and x.lineno == x.test.lineno:
                inner = False
                for f2 in ast.walk(node):
                    if f2 is not node and isinstance(f2, (ast.FunctionDef, ast.AsyncFunctionDef, ast.Lambda)) and any(y is x for y in ast.walk(f2)):
                        inner = True
                if not inner:
                    cand = x
                    break
        if cand is None:
            return None
        b0, b1 = cand.body[0].lineno - 1, cand.body[-1].end_lineno
        e0, e1 = cand.orelse[0].lineno - 1, cand.orelse[-1].end_lineno
        # the `else:` line sits between b1 and e0 (comments allowed); require exactly one such line containing `else:`
        mid = lines[b1:e0]
        else_idx = [i for i, l in enumerate(mid) if l.strip().startswith('else:')]
        if len(else_idx) != 1 or mid[else_idx[0]].strip() != 'else:':
            return None
        head = lines[cand.lineno - 1]
        ind = head[:len(head) - len(head.lstrip())]
        test_src = head.strip()
        if not (test_src.startswith('if ') and test_src.endswith(':')) or b0 <= cand.lineno - 1 and cand.body[0].lineno == cand.lineno:
            return None
        cond = test_src[3:-1]
        new_head = ind + 'if not (%s):' % cond
        body = lines[b0:b1]
        orelse = lines[e0:e1]
        lines[cand.lineno - 1:e1] = [new_head] + orelse + [ind + 'else:'] + body
    elif how == 'alias':
        # a parameter attribute read at least twice (`p.attr`, p never re-bound, attr never stored): bind it once to a new local at the top
        params = [a.arg for a in node.args.args if a.arg not in ('self', 'cls')]
        stores = {x.id for x in ast.walk(node) if isinstance(x, ast.Name) and isinstance(x.ctx, (ast.Store, ast.Del))}
        nested = [f2 for f2 in ast.walk(node) if f2 is not node and isinstance(f2, (ast.FunctionDef, ast.AsyncFunctionDef, ast.Lambda, ast.ClassDef))]
        best = None
        for pn in params:
            if pn in stores:
                continue
            uses = {}
            for x in ast.walk(node):
                if isinstance(x, ast.Attribute) and isinstance(x.value, ast.Name) and x.value.id == pn:
                    if isinstance(x.ctx, ast.Load) and x.lineno == x.end_lineno:
                        uses.setdefault(x.attr, []).append(x)
                    else:
                        uses.setdefault(x.attr, []).append(None)
            for attr, xs in uses.items():
                if None in xs or len(xs) < 2:
                    continue
                if any(any(y is x for y in ast.walk(f2)) for f2 in nested for x in xs):
                    continue
                # method calls p.attr(...) are fine to alias only if attr is not called (keep it simple: skip called attributes)
                if any(isinstance(c, ast.Call) and c.func in xs for c in ast.walk(node)):
                    continue
                best = (pn, attr, xs)
                break
            if best:
                break
        if best is None:
            return None
        pn, attr, xs = best
        new_name = '_%s_%s' % (pn, attr)
        if new_name in stores or any(isinstance(x, ast.Name) and x.id == new_name for x in ast.walk(node)):
            return None
        for x in sorted(xs, key=lambda x: (x.lineno, x.col_offset), reverse=True):
            line = lines[x.lineno - 1].encode('utf-8')
            lines[x.lineno - 1] = (line[:x.col_offset] + new_name.encode() + line[x.end_col_offset:]).decode('utf-8')
        target = node.body[1] if has_doc and len(node.body) > 1 else (None if has_doc else first)
        if target is None or target.lineno == node.lineno or min(x.lineno for x in xs) < target.lineno:
            return None
        ln = target.lineno - 1
        ind = lines[ln][:len(lines[ln]) - len(lines[ln].lstrip())]
        lines.insert(ln, ind + '%s = %s.%s' % (new_name, pn, attr))
    elif how == 'guard':
        # in a loop: trailing `if C: BODY` (no else) -> `if not (C): continue` + BODY dedented
        cand = None
        for x in ast.walk(node):
            if isinstance(x, (ast.For, ast.While)) and x.body and isinstance(x.body[-1], ast.If) and not x.body[-1].orelse:
                iff = x.body[-1]
                if iff.test.lineno == iff.test.end_lineno == iff.lineno and iff.body[0].lineno > iff.lineno and not x.orelse:
                    inner = False
                    for f2 in ast.walk(node):
                        if f2 is not node and isinstance(f2, (ast.FunctionDef, ast.AsyncFunctionDef, ast.Lambda)) and any(y is x for y in ast.walk(f2)):
                            inner = True
                    if not inner:
                        cand = iff
                        break
        if cand is None:
            return None
        head = lines[cand.lineno - 1]
        ind = head[:len(head) - len(head.lstrip())]
        test_src = head.strip()
        if not (test_src.startswith('if ') and test_src.endswith(':')):
            return None
        b0, b1 = cand.body[0].lineno - 1, cand.body[-1].end_lineno
        body = lines[b0:b1]
        first = body[0]
        bind = first[:len(first) - len(first.lstrip())]
        if not bind.startswith(ind) or len(bind) <= len(ind):
            return None
        cut = len(bind) - len(ind)
        ded = []
        for l in body:
            if l.strip() == '':
                ded.append(l)
            elif l.startswith(' ' * cut) or l[:cut].strip() == '':
                ded.append(l[cut:])
            else:
                return None      # continuation line indented less: leave it
        lines[cand.lineno - 1:b1] = [ind + 'if not (%s):' % test_src[3:-1], ind + '    continue'] + ded
    elif how in ('yoda', 'notin'):
        # yoda: every single-line `X == CONST` / `X != CONST` of the function becomes `CONST == X`;
        # notin: every single-line `A not in B` / `A is not B` becomes `not A in B` / `not A is B`
        nested = [f2 for f2 in ast.walk(node) if f2 is not node and isinstance(f2, (ast.FunctionDef, ast.AsyncFunctionDef, ast.ClassDef))]
        inner = {id(y) for f2 in nested for y in ast.walk(f2)}
        cands = []
        for x in ast.walk(node):
            if id(x) in inner or not isinstance(x, ast.Compare) or len(x.ops) != 1 or x.lineno != x.end_lineno:
                continue
            l, r = x.left, x.comparators[0]
            if how == 'yoda' and isinstance(x.ops[0], (ast.Eq, ast.NotEq)) and isinstance(r, ast.Constant) and not isinstance(l, ast.Constant) \
                    and not isinstance(l, (ast.Compare, ast.BoolOp, ast.IfExp, ast.Lambda, ast.NamedExpr)):
                cands.append(x)
            if how == 'notin' and isinstance(x.ops[0], (ast.NotIn, ast.IsNot)):
                cands.append(x)
        # no nesting between candidates (edits would overlap)
        cands = [x for x in cands if not any(y is not x and any(z is x for z in ast.walk(y)) for y in cands)]
        if not cands:
            return None
        for x in sorted(cands, key=lambda x: (x.lineno, x.col_offset), reverse=True):
            line = lines[x.lineno - 1].encode('utf-8')
            l, r = x.left, x.comparators[0]
            ltxt = line[l.col_offset:l.end_col_offset].decode()
            rtxt = line[r.col_offset:r.end_col_offset].decode()
            seg = line[x.col_offset:x.end_col_offset].decode()
            if '(' in seg[:1] or seg.count('(') != seg.count(')'):      # parenthesised operands we cannot re-cut safely
                continue
            if how == 'yoda':
                op = '==' if isinstance(x.ops[0], ast.Eq) else '!='
                rep = '%s %s %s' % (rtxt, op, ltxt)
            else:
                op = 'in' if isinstance(x.ops[0], ast.NotIn) else 'is'
                rep = '(not %s %s %s)' % (ltxt, op, rtxt)
            lines[x.lineno - 1] = (line[:x.col_offset] + rep.encode() + line[x.end_col_offset:]).decode('utf-8')
        if '\n'.join(lines) == src:
            return None
    elif how == 'retelse':
        # `if C: ...; return A` followed (same block) by statements: wrap the rest of the block into `else:`
        cand = None
        nested = [f2 for f2 in ast.walk(node) if f2 is not node and isinstance(f2, (ast.FunctionDef, ast.AsyncFunctionDef, ast.ClassDef))]
        inner = {id(y) for f2 in nested for y in ast.walk(f2)}
        for blk_owner in ast.walk(node):
            if id(blk_owner) in inner and blk_owner is not node:
                continue
            for field in ('body', 'orelse', 'finalbody'):
                blk = getattr(blk_owner, field, None)
                if not isinstance(blk, list) or len(blk) < 2:
                    continue
                for i, st in enumerate(blk[:-1]):
                    if isinstance(st, ast.If) and not st.orelse and isinstance(st.body[-1], (ast.Return, ast.Raise)) \
                            and st.body[0].lineno > st.lineno:
                        rest = blk[i + 1:]
                        cand = (st, rest)
                        break
                if cand:
                    break
            if cand:
                break
        if cand is None:
            return None
        st, rest = cand
        head = lines[st.lineno - 1]
        ind = head[:len(head) - len(head.lstrip())]
        r0, r1 = st.body[-1].end_lineno, rest[-1].end_lineno
        seg = lines[r0:r1]
        if any(l.strip() and not l.startswith(ind) for l in seg):
            return None
        # multi-line strings inside the rest would be damaged by re-indenting
        for x in rest:
            for y in ast.walk(x):
                if isinstance(y, ast.Constant) and isinstance(y.value, (str, bytes)) and y.lineno != y.end_lineno:
                    return None
                if isinstance(y, ast.JoinedStr) and y.lineno != y.end_lineno:
                    return None
        lines[r0:r1] = [ind + 'else:'] + [('    ' + l if l.strip() else l) for l in seg]
    elif how == 'comprename':
        # the variables of the first single-line comprehension or lambda of the function get other names
        allnames = {x.id for x in ast.walk(node) if isinstance(x, ast.Name)} | {a.arg for x in ast.walk(node) if isinstance(x, ast.arguments)
                                                                                  for a in x.posonlyargs + x.args + x.kwonlyargs}
        cand = None
        for x in ast.walk(node):
            if isinstance(x, (ast.ListComp, ast.SetComp, ast.DictComp, ast.GeneratorExp, ast.Lambda)) and x.lineno == x.end_lineno:
                if isinstance(x, ast.Lambda):
                    tg = [a.arg for a in x.args.posonlyargs + x.args.args + x.args.kwonlyargs]
                    if x.args.vararg or x.args.kwarg or x.args.defaults or x.args.kw_defaults:
                        continue
                else:
                    tg = [y.id for g in x.generators for y in ast.walk(g.target) if isinstance(y, ast.Name)]
                inner_binders = [y for y in ast.walk(x) if y is not x and isinstance(y, (ast.ListComp, ast.SetComp, ast.DictComp, ast.GeneratorExp, ast.Lambda))]
                if tg and not inner_binders and not any((t + '_') in allnames for t in tg):
                    cand = (x, set(tg))
                    break
        if cand is None:
            return None
        x, tg = cand
        spots = [(y.lineno, y.col_offset, y.end_col_offset) for y in ast.walk(x) if isinstance(y, ast.Name) and y.id in tg]
        spots += [(y.lineno, y.col_offset, y.col_offset + len(y.arg.encode())) for y in ast.walk(x) if isinstance(y, ast.arg) and y.arg in tg]
        for ln, c0, c1 in sorted(set(spots), reverse=True):
            line = lines[ln - 1].encode('utf-8')
            lines[ln - 1] = (line[:c1] + b'_' + line[c1:]).decode('utf-8')
    elif how in ('splitif', 'mergeif'):
        # splitif: first `if A and B:` (no else, single-line test) -> `if A:` + nested `if B:`;  mergeif: first `if A:` whose whole body is
        # one `if B:` (neither has an else) -> `if (A) and (B):`
        nested = [f2 for f2 in ast.walk(node) if f2 is not node and isinstance(f2, (ast.FunctionDef, ast.AsyncFunctionDef, ast.ClassDef))]
        inner = {id(y) for f2 in nested for y in ast.walk(f2)}
        cand = None
        for x in ast.walk(node):
            if id(x) in inner or not isinstance(x, ast.If) or x.orelse or x.test.lineno != x.test.end_lineno or x.lineno != x.test.lineno:
                continue
            head = lines[x.lineno - 1]
            if not head.strip().startswith('if ') or not head.rstrip().endswith(':') or x.body[0].lineno == x.lineno:
                continue            # elif / one-liner
            if how == 'splitif' and isinstance(x.test, ast.BoolOp) and isinstance(x.test.op, ast.And) and len(x.test.values) == 2:
                cand = x
                break
            if how == 'mergeif' and len(x.body) == 1 and isinstance(x.body[0], ast.If) and not x.body[0].orelse \
                    and x.body[0].test.lineno == x.body[0].test.end_lineno == x.body[0].lineno and x.body[0].body[0].lineno > x.body[0].lineno \
                    and lines[x.body[0].lineno - 1].strip().startswith('if ') and x.body[0].lineno == x.lineno + 1:
                cand = x
                break
        if cand is None:
            return None
        head = lines[cand.lineno - 1]
        ind = head[:len(head) - len(head.lstrip())]
        if how == 'splitif':
            a, b = cand.test.values
            la = head.encode('utf-8')
            ta = la[a.col_offset:a.end_col_offset].decode()
            tb = la[b.col_offset:b.end_col_offset].decode()
            b0, b1 = cand.body[0].lineno - 1, cand.body[-1].end_lineno
            body = lines[b0:b1]
            for x in ast.walk(cand):
                if isinstance(x, (ast.Constant, ast.JoinedStr)) and getattr(x, 'lineno', 0) != getattr(x, 'end_lineno', 0):
                    return None
            lines[cand.lineno - 1:b1] = [ind + 'if %s:' % ta, ind + '    if %s:' % tb] + [('    ' + l if l.strip() else l) for l in body]
        else:
            inner_if = cand.body[0]
            ih = lines[inner_if.lineno - 1]
            ta = head.strip()[3:-1]
            tb = ih.strip()[3:-1]
            b0, b1 = inner_if.body[0].lineno - 1, inner_if.body[-1].end_lineno
            body = lines[b0:b1]
            for x in ast.walk(inner_if):
                if isinstance(x, (ast.Constant, ast.JoinedStr)) and getattr(x, 'lineno', 0) != getattr(x, 'end_lineno', 0):
                    return None
            ded = []
            for l in body:
                if l.strip() and not l.startswith(ind + '        '):
                    return None
                ded.append(l[4:] if l.strip() else l)
            lines[cand.lineno - 1:b1] = [ind + 'if (%s) and (%s):' % (ta, tb)] + ded
    elif how == 'demorgan':
        # first single-line test `not A or not B` / `not A and not B` ... we go the other way: `A and B` in an if-test with else -> swap to
        # `if not A or not B:` with the branches exchanged is covered by ifswap; here: `not (X)` around a 2-operand and/or is distributed
        nested = [f2 for f2 in ast.walk(node) if f2 is not node and isinstance(f2, (ast.FunctionDef, ast.AsyncFunctionDef, ast.ClassDef))]
        inner = {id(y) for f2 in nested for y in ast.walk(f2)}
        cand = None
        for x in ast.walk(node):
            if id(x) in inner:
                continue
            if isinstance(x, ast.UnaryOp) and isinstance(x.op, ast.Not) and isinstance(x.operand, ast.BoolOp) and len(x.operand.values) == 2 \
                    and x.lineno == x.end_lineno:
                cand = x
                break
        if cand is None:
            return None
        line = lines[cand.lineno - 1].encode('utf-8')
        a, b = cand.operand.values
        ta = line[a.col_offset:a.end_col_offset].decode()
        tb = line[b.col_offset:b.end_col_offset].decode()
        op = 'or' if isinstance(cand.operand.op, ast.And) else 'and'
        rep = '(not (%s) %s not (%s))' % (ta, op, tb)
        lines[cand.lineno - 1] = (line[:cand.col_offset] + rep.encode() + line[cand.end_col_offset:]).decode('utf-8')
    elif how == 'untemp':
        # the first local bound once to a plain attribute chain (`par = name.parent`) disappears: its uses read the chain again
        nested = [f2 for f2 in ast.walk(node) if f2 is not node and isinstance(f2, (ast.FunctionDef, ast.AsyncFunctionDef, ast.Lambda, ast.ClassDef))]
        inner = {id(y) for f2 in nested for y in ast.walk(f2)}
        stores, store_lines = {}, {}
        for x in ast.walk(node):
            if isinstance(x, ast.Name) and isinstance(x.ctx, (ast.Store, ast.Del)) and id(x) not in inner:
                stores[x.id] = stores.get(x.id, 0) + 1
                store_lines.setdefault(x.id, []).append(x.lineno)
        params = {a.arg for a in node.args.posonlyargs + node.args.args + node.args.kwonlyargs}
        cand = None
        for st in ast.walk(node):
            if id(st) in inner or not (isinstance(st, ast.Assign) and len(st.targets) == 1 and isinstance(st.targets[0], ast.Name)):
                continue
            nm, v = st.targets[0].id, st.value
            if stores.get(nm) != 1 or nm in params or st.lineno != st.end_lineno or not isinstance(v, ast.Attribute):
                continue
            if not all(isinstance(y, (ast.Name, ast.Attribute, ast.Load)) for y in ast.walk(v)):
                continue
            reads = {y.id for y in ast.walk(v) if isinstance(y, ast.Name)}
            uses = [y for y in ast.walk(node) if isinstance(y, ast.Name) and y.id == nm and isinstance(y.ctx, ast.Load)]
            if not uses or any(id(y) in inner for y in uses) or any(y.lineno <= st.lineno for y in uses):
                continue
            last = max(y.lineno for y in uses)
            if any(st.lineno < ln <= last for r in reads for ln in store_lines.get(r, [])):
                continue            # what it reads is re-bound before the last use
            # a loop around the binding whose header lies after... keep it simple: binding and uses inside the same innermost loop body
            loops = [l for l in ast.walk(node) if isinstance(l, (ast.For, ast.While)) and id(l) not in inner]
            def loop_of(n_):
                best = None
                for l in loops:
                    if l.lineno <= n_.lineno <= l.end_lineno and (best is None or l.lineno >= best.lineno):
                        best = l
                return best
            if any(loop_of(y) is not loop_of(st) for y in uses):
                continue
            # no attribute of the chain's root may be stored to in the function
            if any(isinstance(y, ast.Attribute) and isinstance(y.ctx, (ast.Store, ast.Del)) for y in ast.walk(node)):
                continue
            line = lines[st.lineno - 1]
            if line.strip() != '%s = %s' % (nm, line.encode('utf-8')[v.col_offset:v.end_col_offset].decode()):
                continue
            cand = (st, nm, line.encode('utf-8')[v.col_offset:v.end_col_offset].decode(), uses)
            break
        if cand is None:
            return None
        st, nm, vtxt, uses = cand
        for y in sorted(uses, key=lambda y: (y.lineno, y.col_offset), reverse=True):
            line = lines[y.lineno - 1].encode('utf-8')
            lines[y.lineno - 1] = (line[:y.col_offset] + vtxt.encode() + line[y.end_col_offset:]).decode('utf-8')
        del lines[st.lineno - 1]
    elif how == 'tmpret':
        # `return EXPR` -> `_res = EXPR; return _res` for the LAST return of the function (single-line, own line)
        rets = [x for x in ast.walk(node) if isinstance(x, ast.Return) and x.value is not None and x.lineno == x.end_lineno
                and not isinstance(x.value, (ast.Constant, ast.Name))]
        rets = [r for r in rets if lines[r.lineno - 1].strip().startswith('return ')]
        # only returns that belong to this very function
        own = []
        for r in rets:
            q = r
            ok = True
            for f2 in ast.walk(node):
                if f2 is not node and isinstance(f2, (ast.FunctionDef, ast.AsyncFunctionDef, ast.Lambda)) and any(y is r for y in ast.walk(f2)):
                    ok = False
            if ok:
                own.append(r)
        if not own:
            return None
        r = own[-1]
        ln = r.lineno - 1
        ind = lines[ln][:len(lines[ln]) - len(lines[ln].lstrip())]
        expr = lines[ln].strip()[len('return '):]
        lines[ln] = ind + '_res = ' + expr
        lines.insert(ln + 1, ind + 'return _res')
    else:
        if has_doc or first.lineno == node.lineno:
            return None
        ln = first.lineno - 1
        ind = lines[ln][:len(lines[ln]) - len(lines[ln].lstrip())]
        lines.insert(ln, ind + '"""Inserted docstring."""')
    return '\n'.join(lines)

