"""Reader for parso's pgen grammar files and a few constant tables of parso/python/tree.py.

parso is a pinned dependency; its data files are reference data for the TABLE rules (the
grammar jedi analyses).  They are located with importlib.util.find_spec (which does not
import parso) and read as text / through `ast`."""
import ast
import hashlib
import importlib.util
import os
import re

from .core import AnchorError

_TOKEN = re.compile(r"\s*(?:(#[^\n]*)|('(?:[^'\\]|\\.)*'|\"(?:[^\"\\]|\\.)*\")|([A-Za-z_][A-Za-z_0-9]*)|([:()\[\]|*+]))")


def parso_dir():
    spec = importlib.util.find_spec('parso')
    if spec is None or not spec.submodule_search_locations:
        raise AnchorError('parso not found (needed as reference data for grammar tables)')
    return list(spec.submodule_search_locations)[0]


class Grammar:
    def __init__(self, version):
        self.version = version
        self.path = os.path.join(parso_dir(), 'python', 'grammar%s.txt' % version.replace('.', ''))
        if not os.path.exists(self.path):
            raise AnchorError('no parso grammar file for %s' % version)
        with open(self.path) as f:
            self.text = f.read()
        self.digest = hashlib.sha256(self.text.encode()).hexdigest()
        self.rules = {}       # nonterminal -> list of tokens of its right-hand side
        self._parse()

    def _parse(self):
        # join continuation lines: a rule starts at column 0 with `name:`
        cur = None
        for line in self.text.splitlines():
            if not line.strip() or line.lstrip().startswith('#'):
                continue
            m = re.match(r'^([a-z_][a-z_0-9]*):(.*)$', line)
            if m and not line[0].isspace():
                cur = m.group(1)
                self.rules[cur] = []
                rest = m.group(2)
            else:
                rest = line
            if cur is None:
                continue
            pos = 0
            while pos < len(rest):
                mm = _TOKEN.match(rest, pos)
                if not mm:
                    if rest[pos:].strip() == '':
                        break
                    raise AnchorError('grammar %s: cannot tokenise %r' % (self.version, rest[pos:pos + 20]))
                pos = mm.end()
                if mm.group(1):
                    break
                tok = mm.group(2) or mm.group(3) or mm.group(4)
                self.rules[cur].append(tok)

    def nonterminals(self):
        return set(self.rules)

    def literals(self, rule):
        """string literals (operators/keywords) appearing in the rule's right-hand side"""
        return [t[1:-1] for t in self.rules.get(rule, []) if t[0] in '\'"']

    def symbols(self, rule):
        """nonterminal / token names referenced by the rule"""
        return [t for t in self.rules.get(rule, []) if re.match(r'^[A-Za-z_]', t)]

    def all_literals(self):
        out = set()
        for r in self.rules:
            out.update(self.literals(r))
        return out

    def alternatives(self, rule):
        """top-level alternatives of a rule as token lists (splits on `|` at depth 0)"""
        alts, cur, depth = [], [], 0
        for t in self.rules.get(rule, []):
            if t in '([':
                depth += 1
            elif t in ')]':
                depth -= 1
            if t == '|' and depth == 0:
                alts.append(cur)
                cur = []
            else:
                cur.append(t)
        alts.append(cur)
        return alts

    def produces(self, rule, seen=None):
        """all nonterminals reachable from `rule` (transitively)"""
        seen = set() if seen is None else seen
        for s in self.symbols(rule):
            if s in self.rules and s not in seen:
                seen.add(s)
                self.produces(s, seen)
        return seen


_tree_cache = {}


def parso_tree_constants():
    """{name: python value} of the set-literal constants at module level of parso/python/tree.py"""
    path = os.path.join(parso_dir(), 'python', 'tree.py')
    if path in _tree_cache:
        return _tree_cache[path]
    with open(path) as f:
        src = f.read()
    tree = ast.parse(src)
    consts = {}

    def ev(node):
        if isinstance(node, ast.Call) and isinstance(node.func, ast.Name) and node.func.id in ('set', 'frozenset') and node.args:
            return set(ast.literal_eval(node.args[0]))
        if isinstance(node, ast.BinOp) and isinstance(node.op, ast.BitOr):
            return ev(node.left) | ev(node.right)
        if isinstance(node, ast.Name) and node.id in consts:
            return consts[node.id]
        return set(ast.literal_eval(node))
    for s in tree.body:
        if isinstance(s, ast.Assign) and len(s.targets) == 1 and isinstance(s.targets[0], ast.Name) and s.targets[0].id.startswith('_'):
            try:
                consts[s.targets[0].id] = ev(s.value)
            except Exception:
                pass
    # does Name.get_definition hand out `node.parent` of an except_clause unchecked?  (then its type can also be error_node)
    parent_unchecked = False
    for cls in tree.body:
        if isinstance(cls, ast.ClassDef) and cls.name == 'Name':
            for fn in cls.body:
                if isinstance(fn, ast.FunctionDef) and fn.name == 'get_definition':
                    for n in ast.walk(fn):
                        if isinstance(n, ast.Return) and isinstance(n.value, ast.Attribute) and n.value.attr == 'parent':
                            parent_unchecked = True
    out = {'consts': consts, 'digest': hashlib.sha256(src.encode()).hexdigest(), 'path': path, 'tree': tree, 'src': src,
           'get_definition_returns_parent_of_except_clause': parent_unchecked}
    _tree_cache[path] = out
    return out


def parso_version():
    p = os.path.join(parso_dir(), '__init__.py')
    with open(p) as f:
        m = re.search(r"__version__\s*=\s*'([^']+)'", f.read())
    return m.group(1) if m else '?'


def nullable_navigators():
    """Method names of parso's tree classes that can return None: a def with both a value
    return and a bare `return`/`return None`/fall-through is derived from parso's own source."""
    out = {}
    for fn in ('tree.py', os.path.join('python', 'tree.py')):
        path = os.path.join(parso_dir(), fn)
        with open(path) as f:
            tree = ast.parse(f.read())
        for node in ast.walk(tree):
            if isinstance(node, (ast.FunctionDef,)):
                rets = [n for n in ast.walk(node) if isinstance(n, ast.Return)]
                none_ret = any(r.value is None or (isinstance(r.value, ast.Constant) and r.value.value is None) for r in rets)
                val_ret = any(r.value is not None and not (isinstance(r.value, ast.Constant) and r.value.value is None) for r in rets)
                if none_ret and val_ret:
                    out[node.name] = fn
    return out


def _set_parents(tree):
    for n in ast.walk(tree):
        for c in ast.iter_child_nodes(n):
            if not isinstance(c, (ast.expr_context, ast.operator, ast.boolop, ast.unaryop, ast.cmpop)):      # process-wide singletons
                c._parent = n
    tree._parent = None


def nonnull_when_kwarg_true(method, kw):
    """Does parso's own source show that `method(..., kw=True)` never returns None?  True iff
    every `return None` / bare return inside the method (nested helpers included) is dominated
    by a test of `kw` being false."""
    from .lib import gate
    found = False
    ok = True
    for fn in ('tree.py', os.path.join('python', 'tree.py')):
        path = os.path.join(parso_dir(), fn)
        with open(path) as f:
            tree = ast.parse(f.read())
        _set_parents(tree)
        for node in ast.walk(tree):
            if isinstance(node, ast.FunctionDef) and node.name == method:
                argnames = [a.arg for a in node.args.args + node.args.kwonlyargs]
                if kw not in argnames:
                    continue
                found = True
                funcs = [n for n in ast.walk(node) if isinstance(n, ast.FunctionDef)]
                for f_ in funcs:
                    for r in ast.walk(f_):
                        if isinstance(r, ast.Return) and (r.value is None or (isinstance(r.value, ast.Constant) and r.value.value is None)):
                            # which def does this return belong to?
                            owner = r
                            while not isinstance(owner, ast.FunctionDef):
                                owner = owner._parent
                            if owner is not f_:
                                continue
                            w = gate(f_, r, lambda e, pol: isinstance(e, ast.Name) and e.id == kw and pol is False)
                            if w is not None:
                                ok = False
                    # falling off the end of a helper returns None as well
                    from .cfg import cfg_of
                    c = cfg_of(f_)
                    last_fall = c.reach([c.entry], lambda n: n is c.exit,
                                        block_node=lambda n: isinstance(n.ast, (ast.Return, ast.Raise)))
                    if last_fall is not None and f_ is not node:
                        ok = False
    return found and ok
