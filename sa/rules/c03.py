"""C03 — name resolution follows Python's scoping rules (order of consultation only).

Decided: the filter chain walks outward and ends with builtins, the position limit is dropped
when leaving a function/module scope, the innermost non-empty answer wins, a per-scope filter
only answers with names of its own scope before the position, methods skip class bodies,
`global` bindings are merged at module level, and the two implementations of the
"header belongs to the outer scope" rule agree."""
import ast
import os
import itertools

from ..core import AnchorError, call_name, norm, short, own_nodes, kwarg, FUNC_TYPES
from ..cfg import cfg_of
from ..lib import calls_in, stmts_in, gate, must_pass, node_has, params, dominating_facts, xnorm, atom_key, decide, selection_of, key_function, fact_accept, emission_points, loop_escapes
from ..summaries import check_summary

CTX = 'jedi.inference.context'
FIL = 'jedi.inference.filters'


def _yields(f):
    return sorted([n for n in own_nodes(f) if isinstance(n, (ast.Yield, ast.YieldFrom))], key=lambda n: n.lineno)


def rule_a(repo, chk):
    chk.clause('C03.a', 'get_global_filters walks outward (context = context.parent_context is the only advance), yields each scope\'s filters '
                        'inside the loop and the builtins filter after it, and nothing after builtins')
    f = repo.find(CTX, 'get_global_filters')
    c = cfg_of(f)
    loops = [n for n in own_nodes(f) if isinstance(n, ast.While)]
    chk.ob('C03.a', len(loops) == 1 and norm(loops[0].test) == 'context is not None', f, 'one loop `while context is not None`')
    if not loops:
        return
    lp = loops[0]
    adv = [s for s in ast.walk(lp) if isinstance(s, ast.Assign) and any(isinstance(t, ast.Name) and t.id == 'context' for t in s.targets)]
    ok = len(adv) == 1 and norm(adv[0].value) == 'context.parent_context'
    chk.ob('C03.a', ok, adv[0] if adv else lp, 'the loop advances only by context = context.parent_context', str([short(a) for a in adv]))
    # no break/continue that skips a scope
    esc = loop_escapes(lp)
    chk.ob('C03.a', not esc, lp, 'no break/continue/return inside the walk (no scope is skipped)')
    ys = _yields(f)
    in_loop = [y for y in ys if any(a is lp for a in repo.ancestors(y))]
    after = [y for y in ys if y not in in_loop]
    ok = len(in_loop) == 1 and isinstance(in_loop[0], ast.YieldFrom) and call_name(in_loop[0].value) == 'get_filters' and norm(in_loop[0].value.func.value) == 'context'
    chk.ob('C03.a', ok, in_loop[0] if in_loop else lp, 'inside the loop exactly the current context\'s get_filters() is yielded')
    if in_loop:
        ok = norm(kwarg(in_loop[0].value, 'until_position')) == 'until_position' and norm(kwarg(in_loop[0].value, 'origin_scope')) == 'origin_scope'
        chk.ob('C03.a', ok, in_loop[0], 'the position limit and origin scope are handed to every scope\'s filters')
    ok = len(after) == 1 and after[0].lineno > lp.end_lineno
    chk.ob('C03.a', ok, after[0] if after else f, 'exactly one filter is yielded after the loop')
    if after:
        b = after[0].value
        src = None
        for s in stmts_in(f, ast.Assign):
            if isinstance(b, ast.Name) and any(isinstance(t, ast.Name) and t.id == b.id for t in s.targets):
                src = s
        ok = src is not None and 'builtins_module.get_filters()' in norm(src.value)
        chk.ob('C03.a', ok, after[0], 'that last filter is the builtins module\'s filter (B of LEGB comes last)', short(src) if src is not None else '')
        # nothing executes after it
        y_nodes = c.nodes_containing(after[0])
        p = c.reach(y_nodes, lambda n: n.ast is not None and n not in y_nodes and isinstance(n.ast, ast.Expr) and isinstance(n.ast.value, (ast.Yield, ast.YieldFrom)), kinds={'n', 'T', 'F'})
        chk.ob('C03.a', p is None, after[0], 'nothing is yielded after builtins')
    for x in ast.walk(lp):
        if isinstance(x, ast.Attribute) and x.attr == 'builtins_module':
            chk.ob('C03.a', False, x, 'builtins are consulted inside the scope walk (would shadow enclosing scopes)')


def rule_b(repo, chk):
    chk.clause('C03.b', 'the position limit applies to the scope the name is in and is dropped when leaving a function or module scope: '
                        'until_position = None is reached only after that context\'s filters were yielded and only under the '
                        'isinstance(context, (BaseFunctionExecutionContext, ModuleContext)) test')
    f = repo.find(CTX, 'get_global_filters')
    c = cfg_of(f)
    resets = [s for s in stmts_in(f, ast.Assign) if any(isinstance(t, ast.Name) and t.id == 'until_position' for t in s.targets)]
    chk.ob('C03.b', len(resets) == 1 and isinstance(resets[0].value, ast.Constant) and resets[0].value.value is None, f, 'one reset `until_position = None`')
    for r in resets:
        def acc(e, pol):
            return pol and isinstance(e, ast.Call) and call_name(e) == 'isinstance' and norm(e.args[0]) == 'context' and \
                {norm(x) for x in (e.args[1].elts if isinstance(e.args[1], ast.Tuple) else [e.args[1]])} == {'BaseFunctionExecutionContext', 'ModuleContext'}
        w = gate(f, r, acc)
        chk.ob('C03.b', w is None, r, 'the reset happens only for function-execution and module contexts (class and comprehension scopes keep the limit)', w or '')
        # ORDER: the yield of this context precedes the reset in the iteration
        ys = [y for y in _yields(f) if isinstance(y, ast.YieldFrom)]
        if ys:
            ids = {n.id for n in c.nodes_containing(r)}
            yn = c.nodes_containing(ys[0])
            heads = [n for n in c.nodes if n.kind == 'join' and isinstance(n.ast, ast.While)]
            p = c.reach(heads, lambda n: n.id in ids, block_node=lambda n: n in yn)
            chk.ob('C03.b', p is None, r, 'within one iteration the scope\'s own filters are yielded (with the limit) before the limit is dropped',
                   'path: %s' % c.describe(p) if p else '')
    # the default-argument special case: position moves to the def's start when the name is in the header
    g = repo.find(CTX, '_get_global_filters_for_name')
    ok = any(isinstance(s, ast.Assign) and norm(s.targets[0]) == 'position' and norm(s.value) == 'ancestor.start_pos' for s in stmts_in(g, ast.Assign))
    chk.ob('C03.b', ok, g, 'names in a def/class header (defaults, decorators) are looked up as of the definition\'s start')
    for s in [s for s in stmts_in(g, ast.Assign) if norm(s.targets[0]) == 'position']:
        w = gate(g, s, lambda e, pol: pol and isinstance(e, ast.Compare) and norm(e.left) == 'position' and isinstance(e.ops[0], ast.Lt) and 'colon.start_pos' in norm(e.comparators[0]))
        chk.ob('C03.b', w is None, s, '... only when the position lies before the header\'s colon', w or '')


def rule_c(repo, chk):
    chk.clause('C03.c', 'innermost wins: finder.filter_name leaves the iteration over the filters at the first non-empty answer and returns names from that iteration')
    f = repo.find('jedi.inference.finder', 'filter_name')
    c = cfg_of(f)
    loops = [n for n in own_nodes(f) if isinstance(n, ast.For) and norm(n.iter) == 'filters']
    chk.ob('C03.c', len(loops) == 1, f, 'one loop over the filters, in the given order')
    if not loops:
        return
    lp = loops[0]
    gets = [s for s in ast.walk(lp) if isinstance(s, ast.Assign) and isinstance(s.value, ast.Call) and call_name(s.value) == 'get']
    ok = len(gets) == 1 and norm(gets[0].value.func.value) == norm(lp.target)
    chk.ob('C03.c', ok, lp, 'each filter is asked once with get(name)')
    if gets:
        var = gets[0].targets[0].id
        head = [n for n in c.nodes if n.kind == 'for' and n.ast is lp]
        gn = c.nodes_of(gets[0])
        # after a non-empty answer the loop head is not reached again
        def nonempty_T(n, k, m):
            return False
        tests = [n for n in c.nodes if n.kind == 'test' and norm(n.ast) == var]
        ok2 = bool(tests)
        for t in tests:
            starts = [m for m, k in t.succ if k == 'T']
            p = c.reach(starts, lambda n: n in head, kinds={'n', 'T', 'F'})
            src_is_head = any(s in head for s in starts)
            ok2 = ok2 and p is None and not src_is_head
        chk.ob('C03.c', ok2, lp, 'after a non-empty answer no further (outer) filter is consulted', 'the loop continues after a hit' if not ok2 else '')
        rets = stmts_in(f, ast.Return)
        ok3 = bool(rets) and all(var in {x.id for x in ast.walk(r.value) if isinstance(x, ast.Name)} for r in rets if r.value is not None)
        chk.ob('C03.c', ok3, f, 'the result derives from the answer of the filter that hit')
    # the filters are consumed in the order given (no sorted()/reversed())
    chk.ob('C03.c', not [x for x in calls_in(f) if call_name(x) in ('sorted', 'reversed')], f, 'the filter order is not re-arranged')
    # callers hand over get_global_filters / get_filters results unchanged
    pg = repo.find(CTX, 'AbstractContext.goto')
    ok = any(call_name(x) == '_get_global_filters_for_name' for x in calls_in(pg)) and any(call_name(x) == 'filter_name' for x in calls_in(pg))
    chk.ob('C03.c', ok, pg, 'context.goto resolves through the global filter chain and filter_name')


def rule_d(repo, chk):
    chk.clause('C03.d', 'a per-scope filter only answers with names of its own scope, before the position, latest reachable first: '
                        'ParserTreeFilter._filter applies AbstractFilter._filter (start_pos < until_position), _is_name_reachable '
                        '(parent scope == this scope) and _check_flows (latest first, stop at the first REACHABLE)')
    f = repo.find(FIL, 'ParserTreeFilter._filter')
    check_summary(repo, chk, 'C03.d', FIL, 'ParserTreeFilter._filter')
    # MUST: no answer leaves _filter without having gone through each of the three steps
    for callee in ('_filter', '_is_name_reachable', '_check_flows'):
        w = must_pass(f, lambda n, callee=callee: node_has(n, lambda x: isinstance(x, ast.Call) and call_name(x) == callee))
        chk.ob('C03.d', w is None, f, 'every return of ParserTreeFilter._filter has passed %s()' % callee, w or '')
    check_summary(repo, chk, 'C03.d', FIL, 'AbstractFilter._filter')
    r = repo.find(FIL, 'ParserTreeFilter._is_name_reachable')
    rets = [x for x in stmts_in(r, ast.Return) if not (isinstance(x.value, ast.Constant))]
    ok = len(rets) == 1 and isinstance(rets[0].value, ast.Compare) and isinstance(rets[0].value.ops[0], ast.Eq) and \
        norm(rets[0].value.comparators[0]) == 'self._parser_scope' and call_name(rets[0].value.left) == 'get_cached_parent_scope'
    chk.ob('C03.d', ok, r, '_is_name_reachable compares the name\'s parent scope with the filter\'s own scope')
    bn = [s for s in stmts_in(r, ast.Assign) if norm(s.targets[0]) == 'base_node']
    ok = len(bn) == 1 and norm(bn[0].value) == "parent if parent.type in ('classdef', 'funcdef') else name"
    chk.ob('C03.d', ok, r, 'the name of a def/class belongs to the scope AROUND the definition')
    cf = repo.find(FIL, 'ParserTreeFilter._check_flows')
    srt = [x for x in calls_in(cf, 'sorted')]
    kf = key_function(repo, cf, kwarg(srt[0], 'key')) if len(srt) == 1 and kwarg(srt[0], 'key') is not None else None
    ok = len(srt) == 1 and isinstance(kwarg(srt[0], 'reverse'), ast.Constant) and kwarg(srt[0], 'reverse').value is True and \
        kf is not None and kf[0] == ['%s.start_pos' % kf[1]]
    chk.ob('C03.d', ok, cf, '_check_flows visits candidates latest-first')
    # the status of a candidate is what reachability_check answered for it; the facts below are about that value, whatever it is called
    st = [a.targets[0].id for a in stmts_in(cf, ast.Assign) if len(a.targets) == 1 and isinstance(a.targets[0], ast.Name)
          and call_name(a.value) == 'reachability_check']
    sv = st[0] if len(st) == 1 else 'check'
    brk = [x for x in ast.walk(cf) if isinstance(x, ast.Break)]
    ok = len(brk) == 1 and gate(cf, brk[0], fact_accept(cf, '%s is flow_analysis.REACHABLE' % sv)) is None
    chk.ob('C03.d', ok, cf, 'and stops at the first definitely reachable one (earlier bindings are shadowed)')
    em = emission_points(cf)
    ok = len(em) == 1 and gate(cf, em[0][0], fact_accept(cf, '%s is not flow_analysis.UNREACHABLE' % sv)) is None
    chk.ob('C03.d', ok, cf, 'unreachable bindings are not offered')


def rule_e(repo, chk):
    chk.clause('C03.e', 'class bodies are skipped for code in methods: the parent_context given to FunctionValue/MethodValue is climbed past '
                        'class and instance contexts; ClassContext.get_filters yields only the class\'s own filter')
    f = repo.find('jedi.inference.value.function', 'FunctionValue.from_context')
    loops = [n for n in own_nodes(f) if isinstance(n, ast.While)]
    ok = len(loops) == 1 and norm(loops[0].test) == 'parent_context.is_class() or parent_context.is_instance()' and \
        [norm(s) for s in loops[0].body] == ['parent_context = parent_context.parent_context']
    chk.ob('C03.e', ok, f, 'from_context climbs parent_context while it is a class or instance')
    cr = repo.find('jedi.inference.value.function', 'FunctionValue.from_context.create')
    ctors = [c for c in calls_in(cr) if call_name(c) in ('MethodValue', 'cls')]
    chk.floor('C03.e', len(ctors), 1, '(value constructions in from_context.create)')
    for c in ctors:
        chk.ob('C03.e', norm(kwarg(c, 'parent_context')) == 'parent_context', c, '`%s` receives the climbed parent_context (not the class context)' % short(c, 40),
               'parent_context=%s' % short(kwarg(c, 'parent_context')))
    # the climb happens before create() is called
    c = cfg_of(f)
    call_nodes = [n for n in c.nodes if node_has(n, lambda x: isinstance(x, ast.Call) and isinstance(x.func, ast.Name) and x.func.id == 'create')]
    loop_heads = [n for n in c.nodes if n.kind == 'test' and 'parent_context.is_class()' in norm(n.ast)]
    for cn in call_nodes:
        p = c.reach([c.entry], lambda n: n is cn, block_node=lambda n: n in loop_heads)
        chk.ob('C03.e', p is None, cn.ast, 'create() runs after the climb')
    cc = repo.find(CTX, 'ClassContext.get_filters')
    ys = _yields(cc)
    ok = len(ys) == 1 and isinstance(ys[0], ast.Yield) and 'get_global_filter(until_position, origin_scope)' in norm(ys[0].value)
    chk.ob('C03.e', ok, cc, 'ClassContext.get_filters yields exactly the class body\'s own filter (no MRO, no instance names)')
    comp = repo.find(CTX, 'CompForContext.get_filters')
    ys = _yields(comp)
    ok = len(ys) == 1 and norm(ys[0].value) == 'ParserTreeFilter(self)'
    chk.ob('C03.e', ok, comp, 'a comprehension scope yields only its own names')


def rule_f(repo, chk):
    chk.clause('C03.f', '`global` bindings count for the module: ModuleContext.get_filters and ModuleMixin.get_filters yield a MergedFilter of the '
                        'tree filter and GlobalNameFilter first; GlobalNameFilter selects exactly names whose parent is a global_stmt')
    for modname, q, glob in ((CTX, 'ModuleContext.get_filters', 'self.get_global_filter()'), ('jedi.inference.value.module', 'ModuleMixin.get_filters', 'GlobalNameFilter(self.as_context())')):
        f = repo.find(modname, q)
        ys = _yields(f)
        first = ys[0] if ys else None
        ok = first is not None and isinstance(first, ast.Yield) and call_name(first.value) == 'MergedFilter' and len(first.value.args) == 2 and \
            call_name(first.value.args[0]) == 'ParserTreeFilter' and norm(first.value.args[1]) == glob
        chk.ob('C03.f', ok, f, '%s yields MergedFilter(ParserTreeFilter(...), <global names>) first' % q)
    gg = repo.find(CTX, 'ModuleContext.get_global_filter')
    chk.ob('C03.f', any(call_name(c) == 'GlobalNameFilter' for c in calls_in(gg)), gg, 'get_global_filter is a GlobalNameFilter')
    g = repo.find(FIL, 'GlobalNameFilter._filter')
    sel = selection_of(g)
    ok = sel is not None and sel['iter'] == 'names' and sel['preds'] == ["_x.parent.type == 'global_stmt'"]
    chk.ob('C03.f', ok, g, 'GlobalNameFilter keeps exactly the names inside a global statement')
    mf = repo.cls(FIL, 'MergedFilter')
    get = mf.methods.get('get')
    ok = get is not None and any(isinstance(x, ast.comprehension) and 'self._filters' in norm(x.iter) for x in ast.walk(get))
    chk.ob('C03.f', ok, mf.node, 'MergedFilter.get asks every merged filter')


def rule_g(repo, chk):
    chk.clause('C03.g', 'siblings agree on "a definition\'s header belongs to the enclosing scope": create_context and get_parent_scope both compare '
                        'with the position of the scope\'s `:` and exempt exactly the parameter name itself')
    pc = repo.find(CTX, 'TreeContextMixin.create_context')
    gp = repo.find('jedi.parser_utils', 'get_parent_scope')
    def header_table(fn, subject, atoms, is_climb, want, what, key):
        """the header rule of fn as a decision table: from the test of the scope kind (taken true) the run ends at the statement that
        climbs to the enclosing scope exactly for the assignments of the atomic facts for which `want` says so"""
        c = cfg_of(fn)
        starts = [n for n in c.nodes if n.kind == 'test' and isinstance(n.ast, ast.Compare) and len(n.ast.ops) == 1
                  and isinstance(n.ast.ops[0], (ast.In, ast.NotIn)) and xnorm(n.ast.left, fn) == subject + '.type'
                  and isinstance(n.ast.comparators[0], (ast.Tuple, ast.List, ast.Set))
                  and any(isinstance(e, ast.Constant) and e.value == 'funcdef' for e in n.ast.comparators[0].elts)]
        if len(starts) != 1:
            chk.ob('C03.g', False, fn, what, 'no single test of %s.type against the kinds of scope that have a header' % subject, key=key)
            return
        keys = []
        for nm, text in atoms:
            k, pol = atom_key(ast.parse(text, mode='eval').body, None)
            keys.append((nm, k, pol))

        def label(n):
            if n.kind == 'stmt' and isinstance(n.ast, ast.Return):
                return 'stay'
            if n.kind == 'stmt' and is_climb(n.ast):
                return 'climb'
            return None
        bad = []
        # two atoms `X == c1`, `X == c2` with different constants cannot both hold: such assignments are no inputs
        eqs = {}
        for nm, text in atoms:
            e = ast.parse(text, mode='eval').body
            if isinstance(e, ast.Compare) and len(e.ops) == 1 and isinstance(e.ops[0], ast.Eq) and isinstance(e.comparators[0], ast.Constant):
                eqs.setdefault(norm(e.left), []).append(nm)
        exclusive = [g for g in eqs.values() if len(g) > 1]
        for bits in itertools.product((False, True), repeat=len(keys)):
            facts = dict(zip([k[0] for k in keys], bits))
            if any(sum(1 for nm in g if facts[nm]) > 1 for g in exclusive):
                continue
            env = {k: (v if pol else not v) for (nm, k, pol), v in zip(keys, bits)}
            got = decide(fn, starts[0], lambda key_, n, env=env: True if n is starts[0] else env.get(key_), label, pure_methods=('index',))
            if got != {want(facts)}:
                bad.append('%s -> %s, expected %s' % (', '.join('%s=%d' % (k_, v_) for k_, v_ in facts.items()), sorted(got), want(facts)))
        chk.ob('C03.g', not bad, starts[0].ast, what, '; '.join(bad[:3]), key=key)
    header_table(pc, 'scope_node',
                 [('before_colon', "node.start_pos < scope_node.children[scope_node.children.index(':')].start_pos"),
                  ('in_param', "node.parent.type == 'param'"), ('is_its_name', 'node.parent.name == node')],
                 lambda st: isinstance(st, ast.Assign) and norm(st.targets[0]) == 'scope_node' and call_name(st.value) == 'parent_scope',
                 lambda f: 'climb' if f['before_colon'] and not (f['in_param'] and f['is_its_name']) else 'stay',
                 'create_context: a node before the header\'s own `:` (first `:` child) belongs to the enclosing scope, except exactly the '
                 'parameter\'s own name (decision table over 3 facts)', 'header-table|create_context')
    header_table(gp, 'scope',
                 [('before_colon', "scope.children[scope.children.index(':')].start_pos >= node.start_pos"),
                  ('in_param', "node.parent.type == 'param'"), ('is_its_name', 'node.parent.name == node'),
                  ('in_tfpdef', "node.parent.type == 'tfpdef'"), ('is_first', 'node.parent.children[0] == node')],
                 lambda st: isinstance(st, ast.Assign) and norm(st) == 'scope = scope.parent',
                 lambda f: 'climb' if f['before_colon'] and not (f['in_param'] and f['is_its_name']) and not (f['in_tfpdef'] and f['is_first']) else 'stay',
                 'get_parent_scope: same comparison against the first `:` child; exempt are exactly the parameter\'s own name (param.name == node, '
                 'which also covers *args/**kwargs) and the name of an annotated parameter (tfpdef: NAME [":" test]) - the listed difference '
                 'to create_context (decision table over 5 facts)', 'header-table|get_parent_scope')
    def type_set(fn, subject):
        out = []
        for x in own_nodes(fn):
            if isinstance(x, ast.Compare) and len(x.ops) == 1 and isinstance(x.ops[0], ast.In) and norm(x.left) == subject + '.type' \
                    and isinstance(x.comparators[0], (ast.Tuple, ast.List, ast.Set)):
                out.append(frozenset(e.value for e in x.comparators[0].elts if isinstance(e, ast.Constant)))
        return out
    kinds_gp = [k for k in type_set(gp, 'scope') if 'funcdef' in k]
    ok = kinds_gp == [frozenset({'classdef', 'funcdef', 'lambdef'})]
    chk.ob('C03.g', ok, gp, 'the header rule applies to classdef, funcdef and lambdef', str([sorted(k) for k in kinds_gp]))
    # the sibling applies the header rule to the same kinds of scope (defaults of a lambda are evaluated outside it, like those of a def)
    hdr = [x for x in own_nodes(pc) if isinstance(x, ast.If) and any(isinstance(y, ast.Compare) and 'colon.start_pos' in norm(y) for y in ast.walk(x))]
    kinds_pc = []
    for h in hdr:
        for e, pol in []:
            pass
    # the membership test on scope_node.type in create_context itself (its nested helpers excluded) that names funcdef: either spelling
    # (`in` guarding the rule, `not in` leaving it early)
    for x in own_nodes(pc):
        if isinstance(x, ast.Compare) and len(x.ops) == 1 and isinstance(x.ops[0], (ast.In, ast.NotIn)) and norm(x.left) == 'scope_node.type' \
                and isinstance(x.comparators[0], (ast.Tuple, ast.List, ast.Set)):
            ks = frozenset(e.value for e in x.comparators[0].elts if isinstance(e, ast.Constant))
            if 'funcdef' in ks:
                kinds_pc.append(ks)
    ok = bool(kinds_gp) and kinds_pc == kinds_gp
    chk.ob('C03.g', ok, pc, 'siblings agree on WHICH scopes have a header: create_context applies the `:` rule to the same node types as get_parent_scope',
           'create_context: %s, get_parent_scope: %s' % ([sorted(k) for k in kinds_pc], [sorted(k) for k in kinds_gp]), key='header-kinds')
    # comprehension: the part evaluated in the enclosing scope (the iterable after `in`) is routed to the parent context
    fs = repo.find(CTX, 'TreeContextMixin.create_context.from_scope_node')
    rets = [r for r in stmts_in(fs, ast.Return) if norm(r.value) == 'parent_context']
    ok = len(rets) == 1 and gate(fs, rets[0], lambda e, pol: pol and isinstance(e, ast.Compare) and 'node.start_pos' in norm(e)) is None
    chk.ob('C03.g', ok, fs, 'in a comprehension scope a part selected by position is routed to the parent context')


def _optional_tail(g, rule):
    """does some alternative of the production end in an optional group `[...]` after at least two mandatory symbols?  Then the node
    exists with and without that tail and a negative child index denotes different things."""
    for alt in g.alternatives(rule):
        if len(alt) >= 4 and alt[-1] == ']':
            depth = 0
            for i in range(len(alt) - 1, -1, -1):
                if alt[i] == ']':
                    depth += 1
                elif alt[i] == '[':
                    depth -= 1
                    if depth == 0:
                        break
            mandatory = [t for t in alt[:i] if t not in '()[]*+|']
            if len(mandatory) >= 2:
                return ' '.join(alt)
    return None


def rule_i(repo, chk):
    chk.clause('C03.i', 'a negative child index (children[-1], [-2]) on a node whose type is known and whose grammar production ends in an optional '
                        'group (derived from parso\'s grammar file: sync_comp_for ends in [comp_iter], if_stmt in [else ...]) names different '
                        'things depending on the optional tail; such an index must not select a role (here: "the iterable of the '
                        'comprehension", which decides whether a name belongs to the comprehension scope); package-wide')
    from .. import grammar as G
    from .c01 import _positive_type_test
    g = G.Grammar('3.12')
    chk.trust('parso grammar file %s (productions)' % os.path.basename(g.path))
    n = 0
    for m in sorted(repo.modules.values(), key=lambda m: m.name):
        for q, f in sorted(m.defs.items()):
            if not isinstance(f, FUNC_TYPES):
                continue
            for x in own_nodes(f):
                if not (isinstance(x, ast.Subscript) and isinstance(x.value, ast.Attribute) and x.value.attr == 'children'
                        and isinstance(x.slice, ast.UnaryOp) and isinstance(x.slice.op, ast.USub) and isinstance(x.slice.operand, ast.Constant)):
                    continue
                subject = norm(x.value.value)
                # a local that was bound from another plain name (`sync_comp_for = scope_node`, possibly re-bound on some path) MAY be
                # the node that name denotes: the type knowledge about that name applies to it on the path without the re-binding
                subjects = {subject}
                if isinstance(x.value.value, ast.Name):
                    for a_ in stmts_in(f, ast.Assign):
                        if len(a_.targets) == 1 and norm(a_.targets[0]) == subject and isinstance(a_.value, ast.Name):
                            subjects.add(a_.value.id)
                types = set()
                for e, pol in dominating_facts(f, x):
                    if isinstance(e, ast.Compare) and len(e.ops) == 1 and isinstance(e.left, ast.Attribute) and e.left.attr == 'type' \
                            and norm(e.left.value) in subjects and ((isinstance(e.ops[0], (ast.Eq, ast.In)) and pol) or
                                                                   (isinstance(e.ops[0], (ast.NotEq, ast.NotIn)) and not pol)):
                        cmp_ = e.comparators[0]
                        types |= {v.value for v in cmp_.elts if isinstance(v, ast.Constant)} if isinstance(cmp_, (ast.Tuple, ast.List, ast.Set)) else \
                            ({cmp_.value} if isinstance(cmp_, ast.Constant) else set())
                if not types:
                    continue
                n += 1
                amb = {t: _optional_tail(g, t) for t in sorted(types) if t in g.rules and _optional_tail(g, t)}
                chk.ob('C03.i', not amb, x, '`%s` in %s (node type %s) denotes one role' % (short(x, 50), q, '/'.join(sorted(types))),
                       'production with an optional tail: %s' % '; '.join('%s: %s' % kv for kv in amb.items()), key='opt-tail|%s:%s|%s' % (m.name, q, norm(x)))
    chk.floor('C03.i', n, 5, '(negative child indices on nodes of known type)')


def rule_j(repo, chk):
    chk.clause('C03.j', 'branch identity in the flow analysis: reachability_check decides "same branch" by comparing what get_flow_branch_keyword '
                        'hands out; that must be the keyword LEAF (leaves compare by identity with one another), not its text - two `elif`/'
                        '`except` branches have equal texts, and a binding in a sibling branch would count as reaching the use')
    g = repo.find('jedi.parser_utils', 'get_flow_branch_keyword')
    kw = [a for a in stmts_in(g, ast.Assign) if norm(a.targets[0]) == 'keyword' and not (isinstance(a.value, ast.Constant) and a.value.value is None)]
    chk.floor('C03.j', len(kw), 1, '(assignments of the branch keyword)')
    for a in kw:
        ok = isinstance(a.value, ast.Name)
        chk.ob('C03.j', ok, a, 'the branch keyword handed out is the leaf object itself (`%s`)' % short(a), 'a derived value (text) loses the identity of the branch')
    rc = repo.find('jedi.inference.flow_analysis', '_break_check') if False else None
    fa = repo.module('jedi.inference.flow_analysis')
    cmp_ = [x for x in ast.walk(fa.tree) if isinstance(x, ast.Compare) and 'keyword' in norm(x) and isinstance(x.ops[0], (ast.Eq, ast.Is, ast.NotEq, ast.IsNot))]
    chk.ob('C03.j', bool(cmp_), fa.tree.body[0], 'flow_analysis compares the two branch keywords to tell sibling branches apart', str([norm(x) for x in cmp_]))


def rule_h(repo, chk):
    chk.clause('C03.h', 'a use on the right-hand side of a statement does not see that statement\'s own targets: the position limit chosen by '
                        'AbstractTreeName.goto is the start of the enclosing STATEMENT (only statement-level node types, plus the lambda special '
                        'case, are searched — an expression-level ancestor would move the limit past targets that precede it textually)')
    f = repo.find('jedi.inference.names', 'AbstractTreeName.goto')
    cg = [c for c in calls_in(f, 'goto') if norm(c.func) == 'context.goto' and kwarg(c, 'position') is not None]
    chk.floor('C03.h', len(cg), 1, '(context.goto with a position limit)')
    for c in cg:
        pos = kwarg(c, 'position')
        ok = isinstance(pos, ast.Attribute) and pos.attr == 'start_pos' and isinstance(pos.value, ast.Name)
        chk.ob('C03.h', ok, c, 'the lookup is limited to names before the start of a node (`%s`)' % short(pos))
        if not ok:
            continue
        var = pos.value.id
        defs = [s_ for s_ in stmts_in(f, ast.Assign) if norm(s_.targets[0]) == var]
        sa = [x for d in defs for x in ast.walk(d.value) if isinstance(x, ast.Call) and call_name(x) == 'search_ancestor']
        chk.ob('C03.h', len(sa) == 1, f, 'the limit node comes from one search_ancestor call (falling back to the name itself)')
        for x in sa:
            types = [a.value if isinstance(a, ast.Constant) else None for a in x.args]
            bad = [t for t in types if t is None or not (t.endswith('_stmt') or t == 'lambdef')]
            chk.ob('C03.h', not bad, x, 'only statement-level ancestors (…_stmt) and lambdef limit the lookup position', 'expression-level/unknown types: %s' % bad)
            chk.ob('C03.h', 'expr_stmt' in types, x, 'assignments (expr_stmt) limit the lookup to before the statement')
        lam = [s_ for s_ in stmts_in(f, ast.Assign) if norm(s_.targets[0]) == var and norm(s_.value) == 'name']
        ok = bool(lam) and all(gate(f, s_, lambda e, pol: pol and norm(e) == "%s.type == 'lambdef'" % var) is None for s_ in lam)
        chk.ob('C03.h', ok, f, 'inside a lambda the limit is the name itself (its parameters precede it)')


def describe(chk):
    chk.undecided('that goto lands on the binding Python used, over all scope shapes (run-time oracle); flow pruning decisions; nonlocal; '
                  'the position limit chosen by AbstractTreeName.goto for walrus/lambda bodies')


RULES = [('C03.a', rule_a), ('C03.b', rule_b), ('C03.c', rule_c), ('C03.d', rule_d), ('C03.e', rule_e), ('C03.f', rule_f), ('C03.g', rule_g), ('C03.h', rule_h), ('C03.i', rule_i), ('C03.j', rule_j)]
