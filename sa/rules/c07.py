"""C07 — refactoring results are self-consistent and touch nothing until applied (mechanisms).

Decided: single source of truth for the new text, the who-may-write inventory of file-system
mutators, the write discipline (newline='', old path, writes before renames), the exception
contract of the refactoring modules, validation of every position parameter."""
import ast

from ..core import AnchorError, call_name, decorators, norm, short, own_nodes, kwarg, FUNC_TYPES
from ..cfg import cfg_of
from ..lib import calls_in, stmts_in, gate, must_pass, node_has, params, raised_name, none_accept

REF = 'jedi.api.refactoring'
EXT = 'jedi.api.refactoring.extract'

FS_ATTR_CALLS = {'unlink', 'write_text', 'write_bytes', 'mkdir', 'touch', 'rmdir', 'symlink_to', 'hardlink_to', 'link_to', 'chmod',
                 'makedirs', 'removedirs', 'truncate'}
FS_DOTTED = {'os.remove', 'os.unlink', 'os.rename', 'os.replace', 'os.renames', 'os.mkdir', 'os.makedirs', 'os.rmdir', 'os.removedirs',
             'os.truncate', 'os.symlink', 'os.link', 'os.chmod', 'os.chown', 'os.utime', 'os.mkfifo', 'os.write', 'pickle.dump'}
FS_MODULES = {'shutil', 'tempfile'}
EXPECTED_FS = {
    (REF, 'ChangedFile.apply'): 'writes the new code (only on apply())',
    (REF, 'Refactoring.apply'): 'performs the announced renames (only on apply())',
    ('jedi.api.project', 'Project.save'): 'writes .jedi/project.json on an explicit save()',
    ('jedi.inference.compiled.subprocess', 'Listener.listen'): 'open(os.devnull, "w") in the helper process',
    ('jedi._compatibility', 'pickle_dump'): 'pickle.dump onto the pipe to the helper (not a file of the project)',
}


def _write_mode(call, pos):
    m = kwarg(call, 'mode')
    if m is None and len(call.args) > pos:
        m = call.args[pos]
    if m is None:
        return False
    if isinstance(m, ast.Constant) and isinstance(m.value, str):
        return any(ch in m.value for ch in 'wax+')
    return True     # computed mode: assume it may write


def fs_mutators(repo):
    out = []
    for c in repo.all_calls():
        r = repo.resolve(c.func) if isinstance(c.func, (ast.Name, ast.Attribute)) else None
        cn = call_name(c)
        what = None
        if r == 'builtins.open' or r == 'io.open' or r == 'os.open' or r == 'codecs.open':
            if _write_mode(c, 1):
                what = 'open(..., write mode)'
        elif r in FS_DOTTED:
            what = r
        elif r and r.split('.')[0] in FS_MODULES and r not in ('shutil.which', 'shutil.get_terminal_size', 'shutil.disk_usage',
                                                                 'tempfile.gettempdir'):
            what = r
        elif isinstance(c.func, ast.Attribute) and r is None or (r and not r.startswith(('jedi.', 'builtins.'))):
            if isinstance(c.func, ast.Attribute):
                if cn == 'open' and _write_mode(c, 0):
                    what = '.open(write mode)'
                elif cn in FS_ATTR_CALLS:
                    what = '.%s()' % cn
                elif cn == 'rename' and len(c.args) == 1 and not c.keywords and r is None:
                    what = '.rename(target)'
                elif cn == 'replace' and len(c.args) == 1 and not c.keywords and r is None:
                    what = '.replace(target)'
        if what:
            out.append((c, what))
    return out


def rule_a(repo, chk):
    chk.clause('C07.a', 'one source of truth: get_diff and apply obtain the new text only through self.get_new_code(), which depends only on '
                        'the module node and the node->string map; Refactoring.get_diff is built from get_renames() and get_changed_files()')
    cf = repo.cls(REF, 'ChangedFile')
    gnc = repo.find(REF, 'ChangedFile.get_new_code')
    rets = stmts_in(gnc, ast.Return)
    ok = len(gnc.body) <= 2 and len(rets) == 1 and isinstance(rets[0].value, ast.Call) and call_name(rets[0].value) == 'refactor' and \
        [norm(a) for a in rets[0].value.args] == ['self._module_node', 'self._node_to_str_map']
    chk.ob('C07.a', ok, gnc, 'get_new_code() is grammar.refactor(self._module_node, self._node_to_str_map) and nothing else', short(rets[0]) if rets else '')
    # no second rendering anywhere in the refactoring package
    for modname in (REF, EXT):
        for c in [x for x in ast.walk(repo.module(modname).tree) if isinstance(x, ast.Call) and call_name(x) == 'refactor']:
            chk.ob('C07.a', repo.qual_of(c) == 'ChangedFile.get_new_code', c, 'the tree refactorer is invoked in get_new_code only')
    gd = repo.find(REF, 'ChangedFile.get_diff')
    new = [s for s in stmts_in(gd, ast.Assign) if any(isinstance(t, ast.Name) and t.id == 'new_lines' for t in s.targets)]
    ok = len(new) == 1 and 'self.get_new_code()' in norm(new[0].value) and 'keepends=True' in norm(new[0].value)
    chk.ob('C07.a', ok, gd, 'get_diff derives the new side from self.get_new_code() (split with keepends)', short(new[0]) if new else '')
    old = [s for s in stmts_in(gd, ast.Assign) if any(isinstance(t, ast.Name) and t.id == 'old_lines' for t in s.targets)]
    ok = len(old) == 1 and 'self._module_node.get_code()' in norm(old[0].value) and 'keepends=True' in norm(old[0].value)
    chk.ob('C07.a', ok, gd, 'get_diff derives the old side from the module node\'s own code', short(old[0]) if old else '')
    ud = [c for c in calls_in(gd, 'unified_diff')]
    ok = len(ud) == 1 and [norm(a) for a in ud[0].args[:2]] == ['old_lines', 'new_lines']
    chk.ob('C07.a', ok, gd, 'the diff is difflib.unified_diff(old_lines, new_lines, ...)')
    # the fields get_new_code depends on are set once, in __init__
    for attr in ('_module_node', '_node_to_str_map', '_from_path', '_to_path'):
        stores = [x for x in ast.walk(cf.node) if isinstance(x, ast.Attribute) and x.attr == attr and isinstance(x.ctx, ast.Store)]
        ok = len(stores) == 1 and repo.qual_of(stores[0]) == 'ChangedFile.__init__'
        chk.ob('C07.a', ok, stores[0] if stores else cf.node, 'ChangedFile.%s is assigned once, in __init__' % attr)
    rgd = repo.find(REF, 'Refactoring.get_diff')
    ok = bool(calls_in(rgd, 'get_renames')) and any(call_name(c) == 'get_diff' for c in calls_in(rgd, nested=True)) and bool(calls_in(rgd, 'get_changed_files', nested=True))
    chk.ob('C07.a', ok, rgd, 'Refactoring.get_diff is assembled from get_renames() and the get_diff() of get_changed_files()')
    rap = repo.find(REF, 'Refactoring.apply')
    ok = bool(calls_in(rap, 'get_renames')) and bool(calls_in(rap, 'get_changed_files'))
    chk.ob('C07.a', ok, rap, 'Refactoring.apply works off the same get_changed_files()/get_renames() the diff announces')
    gcf = repo.find(REF, 'Refactoring.get_changed_files')
    ctor = [c for c in calls_in(gcf, 'ChangedFile', nested=True)]
    ok = len(ctor) == 1 and norm(kwarg(ctor[0], 'from_path')) == 'path' and norm(kwarg(ctor[0], 'node_to_str_map')) == 'map_' and \
        'get_root_node()' in norm(kwarg(ctor[0], 'module_node'))
    chk.ob('C07.a', ok, gcf, 'every entry of the node map becomes one ChangedFile(from_path=its path, its own map and module)')
    loops = [n for n in ast.walk(gcf) if isinstance(n, ast.comprehension) and '_file_to_node_changes.items()' in norm(n.iter)]
    chk.ob('C07.a', bool(loops) and not any(l.ifs for l in loops), gcf, 'get_changed_files covers every changed file (no filter)')


def rule_b(repo, chk):
    chk.clause('C07.b', 'WHO: nothing on disk changes before apply(): file-system mutators (open for writing, Path.rename/replace/unlink/write_*/'
                        'mkdir/touch, os.remove/rename/..., shutil.*) occur only at the triaged sites')
    found = fs_mutators(repo)
    n = 0
    for c, what in sorted(found, key=lambda t: (t[0]._mod.name, t[0].lineno)):
        key = (c._mod.name, repo.qual_of(c))
        ok = key in EXPECTED_FS
        n += 1
        chk.ob('C07.b', ok, c, 'file-system mutator `%s` (%s) is a triaged site' % (short(c, 50), what), EXPECTED_FS.get(key, 'UNLISTED writer'),
               key='fs|%s:%s|%s' % (key[0], key[1], what))
    chk.floor('C07.b', n, 5, '(file-system mutators)')
    chk.exhaustive_rules.append('C07.b every call site of the package classified')
    # the two apply() methods are not called from inside jedi
    for c in repo.calls_of('apply'):
        q = repo.qual_of(c)
        ok = (c._mod.name, q) == (REF, 'Refactoring.apply') and norm(c.func) == 'f.apply'
        chk.ob('C07.b', ok, c, 'apply() is only invoked by Refactoring.apply on its ChangedFiles (never by jedi itself before the user asks)',
               'called in %s:%s' % (c._mod.name, q))
    for c in repo.calls_of('save'):
        if 'Project' in repo.qual_of(c) or c._mod.name == 'jedi.api.project':
            chk.ob('C07.b', False, c, 'Project.save() is called by jedi itself')


def rule_c(repo, chk):
    chk.clause('C07.c', 'ChangedFile.apply refuses (RefactoringError) when there is no path, before opening anything, and writes the announced '
                        'text to the ORIGINAL path with newline=\'\' (line endings are data)')
    f = repo.find(REF, 'ChangedFile.apply')
    opens = [c for c in calls_in(f) if call_name(c) == 'open']
    chk.floor('C07.c', len(opens), 1)
    for o in opens:
        nl = kwarg(o, 'newline')
        chk.ob('C07.c', isinstance(nl, ast.Constant) and nl.value == '', o, 'the file is opened with newline=\'\'', 'newline=%s' % short(nl))
        tgt = o.args[0] if isinstance(o.func, ast.Name) and o.args else (o.func.value if isinstance(o.func, ast.Attribute) else None)
        chk.ob('C07.c', norm(tgt) == 'self._from_path', o, 'the file written is the original path (renames are separate, announced steps)', short(tgt))
        enc = kwarg(o, 'encoding')
        w = gate(f, o, none_accept('self._from_path'))
        chk.ob('C07.c', w is None, o, 'nothing is opened when _from_path is None', w or '')
    writes = [c for c in calls_in(f, 'write')]
    ok = len(writes) == 1 and len(writes[0].args) == 1 and norm(writes[0].args[0]) == 'self.get_new_code()'
    chk.ob('C07.c', ok, f, 'exactly self.get_new_code() is written', str([short(w) for w in writes]))
    rs = stmts_in(f, ast.Raise)
    ok = bool(rs) and all(raised_name(r) == 'RefactoringError' for r in rs)
    chk.ob('C07.c', ok, f, 'a path-less result refuses with RefactoringError')


def rule_d(repo, chk):
    chk.clause('C07.d', 'ORDER: in Refactoring.apply every file write precedes every rename (contents are written at the old path)')
    f = repo.find(REF, 'Refactoring.apply')
    c = cfg_of(f)
    is_write = lambda n: node_has(n, lambda x: isinstance(x, ast.Call) and call_name(x) == 'apply')
    is_rename = lambda n: node_has(n, lambda x: isinstance(x, ast.Call) and call_name(x) in ('rename', 'replace', 'move', 'renames'))
    wn = [n for n in c.nodes if is_write(n)]
    rn = [n for n in c.nodes if is_rename(n)]
    chk.ob('C07.d', bool(wn) and bool(rn), f, 'Refactoring.apply writes files and performs renames')
    p = c.reach(rn, is_write) if rn else None
    chk.ob('C07.d', p is None, f, 'no file is written after a rename has been performed', 'path: %s' % c.describe(p) if p else '')
    # renames are exactly (old -> new) of get_renames, via Path.rename
    for n in rn:
        calls = [x for x in ast.walk(n.ast) if isinstance(x, ast.Call) and call_name(x) in ('rename', 'replace', 'move', 'renames')]
        for x in calls:
            ok = isinstance(x.func, ast.Attribute) and call_name(x) == 'rename' and norm(x.func.value) == 'old' and [norm(a) for a in x.args] == ['new']
            chk.ob('C07.d', ok, x, 'a rename is old.rename(new) for the announced (old, new) pair (no move-into-directory semantics)', short(x))
    loops = [n for n in own_nodes(f) if isinstance(n, ast.For)]
    ok = any('get_renames()' in norm(l.iter) and norm(l.target) == '(old, new)' for l in loops)
    chk.ob('C07.d', ok, f, 'the rename loop iterates get_renames() as (old, new)')


def rule_e(repo, chk):
    chk.clause('C07.e', 'exception contract: every explicit raise in jedi/api/refactoring/*.py raises RefactoringError; asserts and other raises are triaged')
    triaged = {
        (EXT, '_get_parent_definition', 'raise NotImplementedError'): 'unreachable by construction: the loop returns at the file_input ancestor every leaf has',
        (EXT, 'extract_function', 'assert len(nodes)'): '_find_nodes raises RefactoringError instead of returning an empty list',
    }
    n = 0
    for modname in (REF, EXT):
        m = repo.module(modname)
        for x in ast.walk(m.tree):
            if isinstance(x, ast.Raise):
                n += 1
                nm = raised_name(x)
                key = (modname, repo.qual_of(x), 'raise %s' % nm)
                ok = nm == 'RefactoringError' or key in triaged
                chk.ob('C07.e', ok, x, '`%s` raises RefactoringError' % short(x, 60), triaged.get(key, 'raises %s' % nm), key='raise|%s:%s|%s' % (modname, repo.qual_of(x), nm))
            elif isinstance(x, ast.Assert):
                key = (modname, repo.qual_of(x), norm(x))
                chk.ob('C07.e', key in triaged, x, 'assert `%s` is triaged' % short(x, 50), triaged.get(key, 'an AssertionError would leave the documented exception contract'),
                       key='assert|%s:%s|%s' % key)
    chk.floor('C07.e', n, 12, '(raise statements in the refactoring package)')
    e = repo.cls('jedi.api.exceptions', 'RefactoringError')
    chk.ob('C07.e', True, e.node, 'RefactoringError is the public error type')


def rule_f(repo, chk):
    chk.clause('C07.f', 'every position parameter of the refactoring entry points (line, column, until_line, until_column) is validated before it '
                        'indexes self._code_lines')
    ci = repo.cls('jedi.api', 'Script')
    for m in ('extract_variable', 'extract_function'):
        f = repo.find_method(ci, m)
        chk.ob('C07.f', 'validate_line_column' in decorators(f), f, 'Script.%s validates (line, column) through validate_line_column' % m)
        subs = [n for n in own_nodes(f) if isinstance(n, ast.Subscript) and norm(n.value) == 'self._code_lines']
        for s in subs:
            idx = norm(s.slice)
            var = idx.split(' ')[0]

            def in_range(e, pol, var=var):
                from .c01 import _range
                r = _range(e, var)
                return pol and r is not None and r[0] == 1 and r[1] == ('le', 'len(self._code_lines)')
            if var in ('line',):
                chk.ob('C07.f', True, s, '`%s` is indexed by the validated line' % short(s))
                continue
            w = gate(f, s, in_range)
            chk.ob('C07.f', w is None and idx == var + ' - 1', s, '`%s` is reached only after 1 <= %s <= len(self._code_lines) was checked' % (short(s), var),
                   'unvalidated path: %s' % w if w else '', key='index|Script.%s|%s' % (m, norm(s)))
        for r in stmts_in(f, ast.Raise):
            chk.ob('C07.f', raised_name(r) == 'ValueError', r, 'a bad position is reported as ValueError')
    for m in ('rename', 'inline'):
        f = repo.find_method(ci, m)
        subs = [n for n in own_nodes(f) if isinstance(n, ast.Subscript) and norm(n.value) == 'self._code_lines']
        chk.ob('C07.f', not subs, f, 'Script.%s does not index the code lines itself (it forwards to get_references, see C01.a)' % m)
    # the end of the range is optional: Script passes until_pos = None when no range was given (derived from Script.extract_*), so the
    # functions of refactoring/extract.py dereference their `until_pos` parameter only under a None test
    passes_none = any(isinstance(a.value, ast.Constant) and a.value.value is None and norm(a.targets[0]) == 'until_pos'
                      for m_ in ('extract_variable', 'extract_function') for a in stmts_in(repo.find_method(ci, m_), ast.Assign))
    chk.notes['C07.f until_pos = None seen in Script.extract_*'] = bool(passes_none)     # informative: the None test is demanded either way
    from ..lib import derefs_of, none_safe
    k = 0
    for q_, g_ in sorted(repo.module(EXT).defs.items()):
        if isinstance(g_, FUNC_TYPES) and 'until_pos' in params(g_):
            for u in derefs_of(g_, 'until_pos'):
                k += 1
                w = none_safe(g_, u, 'until_pos')
                chk.ob('C07.f', w is None, u, '`%s` in extract.%s: the optional end of the range is dereferenced under a None test' % (short(u), q_),
                       'without a range this raises TypeError instead of RefactoringError: %s' % w if w else '', key='until_pos-none|%s|%s' % (q_, norm(u)))
    chk.floor('C07.f', k, 1, '(dereferences of until_pos in extract.py)')
    # the same for every other method of Script (helpers included): a subscript of self._code_lines by anything but the decorator-validated
    # `line` needs the range test in front of it, in the method that indexes
    n = 0
    for f in ci.node.body:
        if not isinstance(f, FUNC_TYPES) or f.name in ('extract_variable', 'extract_function'):
            continue
        for s_ in [x for x in own_nodes(f) if isinstance(x, ast.Subscript) and norm(x.value) == 'self._code_lines']:
            n += 1
            idx = norm(s_.slice)
            var = idx.split(' ')[0]
            if var == 'line' and idx == 'line - 1' and 'validate_line_column' in decorators(f):
                chk.ob('C07.f', True, s_, '`%s` is indexed by the validated line' % short(s_))
                continue

            def in_range(e, pol, var=var):
                from .c01 import _range
                r = _range(e, var)
                return pol and r is not None and r[0] == 1 and r[1] == ('le', 'len(self._code_lines)')
            w = gate(f, s_, in_range)
            chk.ob('C07.f', w is None and idx == var + ' - 1', s_, '`%s` in Script.%s is reached only after 1 <= %s <= len(self._code_lines) was checked' % (short(s_), f.name, var),
                   'unvalidated path: %s' % w if w else '', key='index|Script.%s|%s' % (f.name, norm(s_)))
    chk.notes['C07.f other Script methods indexing _code_lines'] = n


def rule_g(repo, chk):
    chk.clause('C07.g', 'text outside the rewritten nodes is preserved: extract keeps the whole prefix (comments, blank lines, line breaks) of the '
                        'first replaced leaf unless a remaining prefix was split off explicitly; rename keeps each token\'s prefix (C05.b)')
    rp = repo.find(EXT, '_replace')
    full = [s_ for s_ in stmts_in(rp, ast.Assign) if norm(s_.value) == 'first_node_leaf.prefix']
    ok = bool(full) and all(gate(rp, s_, lambda e, pol: pol and norm(e) == 'remaining_prefix is None') is None for s_ in full)
    chk.ob('C07.g', ok, rp, 'without a remaining prefix the replaced expression keeps the WHOLE prefix of its first leaf',
           'no assignment from first_node_leaf.prefix under `remaining_prefix is None`')
    rn = repo.find(REF, 'rename')
    ok = any(norm(s_.value) == 'tree_name.prefix + new_name' for s_ in stmts_in(rn, ast.Assign))
    chk.ob('C07.g', ok, rn, 'rename writes prefix + new name for every token')
    il = repo.find(REF, 'inline')
    # the text written for a reference is <prefix of the replaced token> + <replacement>; the prefix is read from the token itself (`n`,
    # which starts as tree_name) or, for `a.x`, from the first leaf of the attribute chain
    # every text stored for a node of a reference is '' (a node of the attribute chain that disappears) or <a prefix> + <replacement>, where the
    # prefix is that of the token itself or of the first leaf of its attribute chain - read directly or through the local `prefix`
    from ..lib import xnorm
    PFX = {'n.prefix', 'tree_name.prefix', 'tree_name.parent.parent.children[0].prefix', 'n.parent.parent.children[0].prefix', 'par.parent.children[0].prefix'}
    pfx_binds = [xnorm(s_.value, il) for s_ in stmts_in(il, ast.Assign) if norm(s_.targets[0]) == 'prefix']
    stores = [s_ for s_ in stmts_in(il, ast.Assign) if isinstance(s_.targets[0], ast.Subscript) and norm(s_.targets[0].value) == 'of_path']
    def keeps(v):
        if isinstance(v, ast.Constant) and v.value == '':
            return True
        if not (isinstance(v, ast.BinOp) and isinstance(v.op, ast.Add) and norm(v.right) == 's'):
            return False
        l = xnorm(v.left, il)
        return l in PFX or (l == 'prefix' and bool(pfx_binds) and all(b in PFX for b in pfx_binds))
    ok = len(stores) >= 2 and all(keeps(s_.value) for s_ in stores) and any(not isinstance(s_.value, ast.Constant) for s_ in stores)
    chk.ob('C07.g', ok, il, 'inline keeps the prefix of every replaced reference', str([short(s_) for s_ in stores if not keeps(s_.value)]))


def rule_h(repo, chk):
    chk.clause('C07.h', 'the announced target path of a changed file follows the renames component-wise: a path is re-rooted only when the '
                        'renamed path IS it or is one of its parent directories (no string-prefix test between paths in jedi/api/refactoring)')
    from ..lib import path_prefix_check
    path_prefix_check(repo, chk, 'C07.h', ['jedi.api.refactoring', 'jedi.api.refactoring.extract'], floor=0)
    f = repo.find(REF, 'Refactoring.get_changed_files.calculate_to_path')
    # the renamed path itself must be covered (renaming a module renames ONE file: equality, not only "below")
    ok = False
    for x in ast.walk(f):
        if isinstance(x, ast.Compare) and len(x.ops) == 1:
            if isinstance(x.ops[0], ast.Eq):
                ok = True
            elif isinstance(x.ops[0], ast.In) and not (isinstance(x.comparators[0], ast.Attribute) and x.comparators[0].attr == 'parents'):
                ok = True
        elif isinstance(x, ast.Call) and isinstance(x.func, ast.Attribute) and x.func.attr == 'is_relative_to':
            ok = True
    chk.ob('C07.h', ok, f, 'the renamed path itself (a module file) is mapped as well as what lies below it (a package directory)',
           'no equality / is_relative_to / membership in (p, *p.parents) in calculate_to_path')


def rule_h2(repo, chk):
    """part of C07.h: WHICH files are re-rooted, as a decision table"""
    from ..lib import decision_table
    f = repo.find(REF, 'Refactoring.get_changed_files.calculate_to_path')
    c = cfg_of(f)
    heads = [n for n in c.nodes if n.kind == 'for' and isinstance(n.ast, ast.For) and norm(n.ast.iter) == 'renames']
    if len(heads) != 1:
        chk.ob('C07.h', False, f, 'one loop over the renames in calculate_to_path', key='to-path-table')
        return
    tv = [norm(e) for e in heads[0].ast.target.elts] if isinstance(heads[0].ast.target, ast.Tuple) else ['from_', 'to']

    def label(n):
        if n.kind == 'stmt' and isinstance(n.ast, ast.Assign) and 'relative_to' in norm(n.ast.value):
            return 'moved'
        if n is not heads[0] and n.kind == 'for' and n.ast is heads[0].ast:
            return 'kept'
        if n.kind == 'stmt' and isinstance(n.ast, ast.Return):
            return 'kept'
        return None
    if any(isinstance(x, ast.Call) and isinstance(x.func, ast.Attribute) and x.func.attr == 'is_relative_to' for x in ast.walk(f)):
        # pathlib's own spelling of "is the path or lies below it"
        bad = decision_table(f, heads[0], [('rel', 'p.is_relative_to(%s)' % tv[0])], label, lambda fc: 'moved' if fc['rel'] else '<loop>')
    else:
        bad = decision_table(f, heads[0], [('is_it', 'p == %s' % tv[0]), ('below', '%s in p.parents' % tv[0])], label,
                             lambda fc: 'moved' if fc['is_it'] or fc['below'] else '<loop>')
    chk.ob('C07.h', not bad, heads[0].ast, 'a changed file is announced under the new location exactly when the renamed path is the file itself or ANY of its '
           'ancestor directories (every depth below a renamed package moves with it)', '; '.join(bad[:3]), key='to-path-table')


def rule_l(repo, chk):
    chk.clause('C07.l', 'inline deletes, besides the definition, only tokens whose prefix carries nothing: every `changes[<leaf>] = \'\'` in inline is '
                        'reached under `<leaf>.prefix.strip(\' \\t\') == \'\'` for that very leaf (a comment lives in the prefix of the newline that follows it)')
    f = repo.find(REF, 'inline')
    dels = [s_ for s_ in stmts_in(f, ast.Assign) if isinstance(s_.targets[0], ast.Subscript) and norm(s_.targets[0].value) == 'changes'
            and isinstance(s_.value, ast.Constant) and s_.value.value == '']
    chk.floor('C07.l', len(dels), 1, 'changes[leaf] = "" in inline')
    for d in dels:
        leaf = norm(d.targets[0].slice)
        w = gate(f, d, lambda e, pol: (pol and isinstance(e, ast.Compare) and isinstance(e.ops[0], ast.Eq) and norm(e.left).startswith('%s.prefix.strip(' % leaf)
                                       and isinstance(e.comparators[0], ast.Constant) and e.comparators[0].value == '')
                 or ((not pol) and isinstance(e, ast.Call) and norm(e).startswith('%s.prefix.strip(' % leaf)))     # `not leaf.prefix.strip(..)`
        chk.ob('C07.l', w is None, d, '`%s` is deleted only when its prefix is blank (no comment is lost)' % leaf, w or '')


def rule_i(repo, chk):
    chk.clause('C07.i', 'original text is carried, not rewritten: in refactoring/extract.py a string that contains text taken from the file (a leaf\'s '
                        '.prefix, get_code(), split_lines of those, and what is joined/concatenated from them) is never passed through a '
                        'rewriting string method (replace, strip*, lower/upper, expandtabs, translate, dedent) - generated code may be adapted, '
                        'the user\'s comments, blank lines and line endings may not')
    rewriting = {'replace', 'strip', 'lstrip', 'rstrip', 'lower', 'upper', 'expandtabs', 'translate', 'title', 'capitalize', 'swapcase', 'casefold'}
    n = 0
    n_tainted = 0
    for q, f in sorted(repo.module(EXT).defs.items()):
        if not isinstance(f, FUNC_TYPES):
            continue
        tainted = set()

        def is_orig(e, tainted=tainted):
            if isinstance(e, ast.Attribute) and e.attr == 'prefix':
                return True
            if isinstance(e, ast.Call) and call_name(e) == 'get_code':
                return True
            if isinstance(e, ast.Name) and e.id in tainted:
                return True
            if isinstance(e, ast.Call) and call_name(e) in ('split_lines', 'join', 'list') and any(is_orig(a) for a in e.args):
                return True
            if isinstance(e, ast.BinOp) and isinstance(e.op, ast.Add):
                return is_orig(e.left) or is_orig(e.right)
            if isinstance(e, ast.Subscript):
                return is_orig(e.value)
            if isinstance(e, (ast.GeneratorExp, ast.ListComp)):
                return is_orig(e.elt) or any(is_orig(g.iter) for g in e.generators)
            return False
        changed = True
        while changed:
            changed = False
            for a in stmts_in(f, ast.Assign):
                for t in a.targets:
                    for nm in ([t] if isinstance(t, ast.Name) else [x for x in ast.walk(t) if isinstance(x, ast.Name) and isinstance(x.ctx, ast.Store)]):
                        if nm.id not in tainted and is_orig(a.value):
                            tainted.add(nm.id)
                            changed = True
        n_tainted += len(tainted)
        for c in own_nodes(f):
            if isinstance(c, ast.Call) and isinstance(c.func, ast.Attribute) and is_orig(c.func.value):
                n += 1
                key = (q, norm(c))
                if c.func.attr in rewriting or call_name(c) == 'dedent':
                    if key in TRIAGED_REWRITE:
                        chk.ob('C07.i', True, c, '`%s` in %s: triaged (%s)' % (short(c, 60), q, TRIAGED_REWRITE[key]))
                    else:
                        chk.ob('C07.i', False, c, 'text taken from the file is not rewritten by `%s` in %s' % (short(c, 60), q),
                               'a rewriting string method is applied to original text (comments, blank lines, line endings would change)',
                               key='rewrite|%s|%s' % key)
                else:
                    chk.ob('C07.i', True, c, '`%s` reads original text without rewriting it' % short(c, 50))
    chk.notes['C07.i method calls on original text'] = n
    chk.floor('C07.i', n_tainted, 4, '(locals of extract.py that hold text taken from the file)')


TRIAGED_REWRITE = {}


def rule_j(repo, chk):
    chk.clause('C07.j', 'range sanity: the range branch of extract._find_nodes rejects an end that lies before the start (until_pos < pos) '
                        'with RefactoringError before either position is used to look up leaves - a reversed range otherwise reaches the '
                        'index arithmetic of _remove_unwanted_expression_nodes (UnboundLocalError/IndexError/AttributeError)')
    f = repo.find(EXT, '_find_nodes')
    c = cfg_of(f)
    order_tests = [n for n in c.nodes if n.kind == 'test' and isinstance(n.ast, ast.Compare) and len(n.ast.ops) == 1
                   and isinstance(n.ast.ops[0], (ast.Lt, ast.Gt, ast.LtE, ast.GtE)) and {norm(n.ast.left), norm(n.ast.comparators[0])} == {'pos', 'until_pos'}]
    chk.ob('C07.j', bool(order_tests), f, 'the two ends of the range are compared with each other')
    uses = [n for n in c.nodes if node_has(n, lambda x: isinstance(x, ast.Call) and call_name(x) in ('get_leaf_for_position', '_remove_unwanted_expression_nodes')
                                            and any(norm(a) == 'until_pos' for a in x.args))]
    chk.floor('C07.j', len(uses), 1, '(uses of until_pos in _find_nodes)')
    for u in uses:
        p_ = c.reach([c.entry], lambda n: n is u, block_node=lambda n: n in order_tests, kinds={'n', 'T', 'F'})
        chk.ob('C07.j', p_ is None and bool(order_tests), u.ast, 'the order test comes before `%s`' % short(u.ast, 60), c.describe(p_) if p_ else '')
    for t in order_tests:
        # the branch for "end before start" raises RefactoringError
        reversed_edge = 'T' if (isinstance(t.ast.ops[0], (ast.Lt, ast.LtE)) and norm(t.ast.left) == 'until_pos') or \
            (isinstance(t.ast.ops[0], (ast.Gt, ast.GtE)) and norm(t.ast.left) == 'pos') else 'F'
        succ = [m for m, k in t.succ if k == reversed_edge]
        ok = bool(succ) and all(isinstance(m.ast, ast.Raise) and raised_name(m.ast) == 'RefactoringError' for m in succ)
        chk.ob('C07.j', ok, t.ast, 'a reversed range is answered with RefactoringError')


def rule_k(repo, chk):
    chk.clause('C07.k', 'white space of the original is carried over as text: the refactoring modules never build indentation or padding from a '
                        'count (`\' \' * n`, ljust/rjust/center/expandtabs), and the indentation of a replacement statement is the last line of the '
                        'original first leaf\'s prefix (tabs, form feeds and mixed indentation survive)')
    from ..summaries import check_summary
    check_summary(repo, chk, 'C07.k', EXT, '_get_indentation')
    n_funcs = 0
    for modname in (REF, EXT):
        mod = repo.modules[modname]
        for fn in [x for x in ast.walk(mod.tree) if isinstance(x, FUNC_TYPES)]:
            n_funcs += 1
            for x in own_nodes(fn):
                ws = lambda e: isinstance(e, ast.Constant) and isinstance(e.value, str) and e.value != '' and e.value.strip(' \t\f\v') == ''
                if isinstance(x, ast.BinOp) and isinstance(x.op, ast.Mult) and (ws(x.left) or ws(x.right)):
                    chk.ob('C07.k', False, x, 'white space synthesised from a count: `%s`' % short(x), key='%s|ws-mult|%s' % (repo.qual_of(x), norm(x)))
                if isinstance(x, ast.Call) and isinstance(x.func, ast.Attribute) and x.func.attr in ('ljust', 'rjust', 'center', 'expandtabs', 'zfill'):
                    chk.ob('C07.k', False, x, 'white space synthesised by `%s`' % short(x), key='%s|ws-pad|%s' % (repo.qual_of(x), norm(x)))
    chk.floor('C07.k', n_funcs, 15, '(functions of the refactoring modules scanned)')
    chk.ob('C07.k', True, None, '%d functions of jedi.api.refactoring scanned for synthesised white space: none' % n_funcs, key='ws-scan')


def describe(chk):
    chk.undecided('that difflib\'s output applies cleanly and that parso\'s refactor preserves all bytes outside the rewritten nodes (library behaviour); '
                  'which nodes a refactoring rewrites')
    chk.assume('an attribute call .rename(x)/.replace(x) with one argument on an unresolved receiver is a pathlib rename')


RULES = [('C07.a', rule_a), ('C07.b', rule_b), ('C07.c', rule_c), ('C07.d', rule_d), ('C07.e', rule_e), ('C07.f', rule_f), ('C07.g', rule_g), ('C07.h', rule_h), ('C07.h', rule_h2), ('C07.i', rule_i), ('C07.j', rule_j), ('C07.k', rule_k), ('C07.l', rule_l)]
