"""C14 — a crash of the helper process is contained and recovered from.

The request/reply protocol is a small typestate machine written in one class; every clause
is about the exits of `_send`, about who touches the process, and about both ends agreeing on
the wire format."""
import ast

from ..core import AnchorError, call_name, dotted_text, names_in, norm, short, own_nodes, atoms, kwarg, FUNC_TYPES
from ..cfg import cfg_of
from ..lib import (calls_in, stmts_in, gate, must_pass, node_has, enclosing_handlers, handler_types,
                   raised_name, attr_stores, params)

SUB = 'jedi.inference.compiled.subprocess'
ENV = 'jedi.api.environment'

NOEXC = {'n', 'T', 'F', 'h'}

# exception classes that cover the peer-death exceptions of the two pipe operations
WRITE_DEATH = {'BrokenPipeError': {'BrokenPipeError', 'ConnectionError', 'OSError', 'IOError', 'EnvironmentError', 'Exception', 'BaseException', '*'}}
READ_DEATH = {
    'EOFError': {'EOFError', 'Exception', 'BaseException', '*'},
    'UnpicklingError': {'UnpicklingError', 'PickleError', 'Exception', 'BaseException', '*'},
}


def _is_self_attr(e, attr):
    return isinstance(e, ast.Attribute) and e.attr == attr and isinstance(e.value, ast.Name) and e.value.id == 'self'


def _pipe_ops(repo, func):
    writes, reads = [], []
    for c in calls_in(func):
        r = repo.resolve(c.func)
        if r in ('jedi._compatibility.pickle_dump', 'pickle.dump', 'pickle.dumps') or call_name(c) in ('pickle_dump',):
            writes.append(c)
        elif r in ('jedi._compatibility.pickle_load', 'pickle.load', 'pickle.loads') or call_name(c) in ('pickle_load',):
            reads.append(c)
    return writes, reads


def rule_a(repo, chk):
    chk.clause('C14.a', '_send tests is_crashed (raising InternalError) before any pipe I/O or process start')
    f = repo.find(SUB, 'CompiledSubprocess._send')
    writes, reads = _pipe_ops(repo, f)
    procs = calls_in(f, '_get_process')
    sinks = writes + reads + procs
    chk.floor('C14.a', len(writes + reads), 2, '(pipe operations in _send)')

    def accept(e, pol):
        return _is_self_attr(e, 'is_crashed') and pol is False
    for s in sinks:
        w = gate(f, s, accept)
        chk.ob('C14.a', w is None, s, 'pipe/process use `%s` only after `self.is_crashed` tested false' % short(s, 60),
               'ungated path: %s' % w if w else '')
    # the crashed branch must raise InternalError and do no I/O
    c = cfg_of(f)
    tests = [n for n in c.nodes if n.kind == 'test' and _is_self_attr(n.ast, 'is_crashed')]
    ok = bool(tests)
    detail = '' if tests else 'no test of self.is_crashed in _send'
    for t in tests:
        starts = [m for m, k in t.succ if k == 'T']
        reg = c.region(starts, kinds=NOEXC)
        if any(n is c.exit for n in reg):
            ok, detail = False, 'crashed branch can return normally'
        rs = [n.ast for n in reg if isinstance(n.ast, ast.Raise)]
        if not rs or any(raised_name(r) != 'InternalError' for r in rs):
            ok, detail = False, 'crashed branch raises %s' % [raised_name(r) for r in rs]
    chk.ob('C14.a', ok, f, 'a crashed helper is refused with InternalError', detail)


def _check_handler(repo, chk, rule, f, h, what):
    """handler body: every path to an explicit raise passes self._kill(); never returns
    normally / falls through; raises only InternalError."""
    c = cfg_of(f)
    hn = c.nodes_of(h)
    if not hn:
        raise AnchorError('handler without CFG node')
    is_kill = lambda n: node_has(n, lambda x: isinstance(x, ast.Call) and call_name(x) == '_kill')
    body_ids = {id(x) for x in ast.walk(h)}
    # leaving the handler: a node that is not inside it
    def outside(n):
        return n.ast is None or id(n.ast) not in body_ids
    reg = c.region(hn, kinds=NOEXC, block_node=outside)
    raises = [n for n in reg if isinstance(n.ast, ast.Raise)]
    p = c.reach(hn, lambda n: isinstance(n.ast, ast.Raise) or outside(n), block_node=is_kill, kinds=NOEXC)
    chk.ob(rule, p is None, h, '%s: handler marks the helper crashed (self._kill()) before leaving' % what,
           'path without _kill(): %s' % c.describe(p) if p else '')
    p2 = c.reach(hn, lambda n: outside(n) and n is not c.raise_exit, kinds=NOEXC,
                 block_node=lambda n: isinstance(n.ast, ast.Raise))
    chk.ob(rule, p2 is None, h, '%s: handler leaves only by raising' % what,
           'falls through: %s' % c.describe(p2) if p2 else '')
    bad = [raised_name(n.ast) for n in raises if raised_name(n.ast) != 'InternalError']
    chk.ob(rule, raises and not bad, h, '%s: handler raises InternalError and nothing else' % what,
           'raises %s' % (bad or 'nothing'))


def rule_b(repo, chk):
    chk.clause('C14.b', 'every pipe operation in _send is in a try whose handlers cover the peer-death exceptions '
                        '(write: BrokenPipeError; read: EOFError and pickle.UnpicklingError); each such handler calls '
                        '_kill() and leaves only by raising InternalError')
    f = repo.find(SUB, 'CompiledSubprocess._send')
    # what a dying helper left on stderr is arbitrary bytes: decoding it on the way to `raise InternalError` must not be able to fail
    nd = 0
    for q, g in sorted(repo.module(SUB).defs.items()):
        if not isinstance(g, FUNC_TYPES) or q.startswith('Listener'):
            continue
        for c in [x for x in own_nodes(g) if isinstance(x, ast.Call) and isinstance(x.func, ast.Attribute) and x.func.attr == 'decode']:
            nd += 1
            err = c.args[1] if len(c.args) > 1 else kwarg(c, 'errors')
            ok = isinstance(err, ast.Constant) and err.value in ('replace', 'ignore', 'backslashreplace', 'surrogateescape')
            chk.ob('C14.b', ok, c, 'helper output is decoded with an error handler in %s (a UnicodeDecodeError would replace the InternalError)' % q,
                   '' if ok else 'errors=%s' % (short(err) if err is not None else 'strict (default)'))
    chk.floor('C14.b', nd, 2, '(decode() of helper output on the host side)')
    writes, reads = _pipe_ops(repo, f)
    chk.floor('C14.b', len(writes), 1, '(pickle_dump in _send)')
    chk.floor('C14.b', len(reads), 1, '(pickle_load in _send)')
    for ops, need, what in ((writes, WRITE_DEATH, 'request write'), (reads, READ_DEATH, 'reply read')):
        for op in ops:
            st = repo.enclosing_stmt(op)
            tries = enclosing_handlers(st, f)
            for exc, covers in sorted(need.items()):
                hs = [h for t in tries for h in t.handlers if handler_types(h) & covers]
                chk.ob('C14.b', bool(hs), op, '%s `%s` is covered by a handler for %s' % (what, short(op, 50), exc),
                       'enclosing handlers: %s' % [sorted(handler_types(h)) for t in tries for h in t.handlers])
            seen = set()
            for t in tries:
                for h in t.handlers:
                    if any(handler_types(h) & cov for cov in need.values()) and id(h) not in seen:
                        seen.add(id(h))
                        _check_handler(repo, chk, 'C14.b', f, h, what)
    # the win32 translations in _compatibility keep the exception types the handlers expect
    comp = repo.module('jedi._compatibility')
    pl = repo.find('jedi._compatibility', 'pickle_load')
    pd = repo.find('jedi._compatibility', 'pickle_dump')
    for fn, want in ((pl, 'EOFError'), (pd, None)):
        for r in stmts_in(fn, ast.Raise):
            if r.exc is None:
                continue
            nm = raised_name(r)
            if want:
                chk.ob('C14.b', nm == want, r, 'pickle_load translates a win32 pipe error into EOFError', 'raises %s' % nm)
            else:
                ok = nm in ('IOError', 'OSError', 'BrokenPipeError') and ('EPIPE' in norm(r) or nm == 'BrokenPipeError')
                chk.ob('C14.b', ok, r, 'pickle_dump translates a win32 pipe error into OSError(EPIPE)', 'raises %s' % norm(r.exc))
    # pickle_dump flushes: the request really leaves before the reply is awaited
    w = must_pass(pd, lambda n: node_has(n, lambda x: isinstance(x, ast.Call) and call_name(x) == 'flush'))
    chk.ob('C14.b', w is None, pd, 'pickle_dump flushes the pipe on every normal path', w or '')


def rule_c(repo, chk):
    chk.clause('C14.c', '_kill sets is_crashed before running the cleanup; _cleanup_process kills AND waits, joins the '
                        'stderr thread, closes stdin/stdout/stderr, each guarded against OSError')
    k = repo.find(SUB, 'CompiledSubprocess._kill')
    c = cfg_of(k)
    is_store = lambda n: isinstance(n.ast, ast.Assign) and any(_is_self_attr(t, 'is_crashed') for t in n.ast.targets) \
        and isinstance(n.ast.value, ast.Constant) and n.ast.value.value is True
    is_cleanup = lambda n: node_has(n, lambda x: isinstance(x, ast.Call) and _is_self_attr(x.func, '_cleanup_callable'))
    w = must_pass(k, is_store)
    chk.ob('C14.c', w is None, k, '_kill sets self.is_crashed = True on every path', w or '')
    w = must_pass(k, is_cleanup)
    chk.ob('C14.c', w is None, k, '_kill runs self._cleanup_callable() on every path', w or '')
    p = c.reach([c.entry], is_cleanup, block_node=is_store)
    chk.ob('C14.c', p is None, k, 'the sticky flag is set before the cleanup can raise',
           'cleanup reached first: %s' % c.describe(p) if p else '')
    # the class default is "not crashed"
    ci = repo.cls(SUB, 'CompiledSubprocess')
    a = ci.attrs.get('is_crashed')
    chk.ob('C14.c', a is not None and isinstance(a.value, ast.Constant) and a.value.value is False, ci.node,
           'CompiledSubprocess.is_crashed defaults to False at class level')
    writers = []
    for mod in repo.modules.values():
        for n in ast.walk(mod.tree):
            if isinstance(n, ast.Attribute) and n.attr == 'is_crashed' and isinstance(n.ctx, (ast.Store, ast.Del)):
                writers.append(n)
    for wnode in writers:
        q = repo.qual_of(wnode)
        st = repo.enclosing_stmt(wnode)
        ok = q == 'CompiledSubprocess._kill' and isinstance(st, ast.Assign) and isinstance(st.value, ast.Constant) and st.value.value is True
        chk.ob('C14.c', ok, wnode, 'is_crashed is only ever set (to True) in _kill: `%s`' % short(st, 60))
    chk.exhaustive_rules.append('C14.c writers of is_crashed (whole package)')

    cp = repo.find(SUB, '_cleanup_process')
    ps = params(cp)
    if len(ps) < 2:
        raise AnchorError('_cleanup_process has no (process, thread) parameters')
    proc, thread = ps[0], ps[1]
    cc = cfg_of(cp)

    def is_call_on(name, meth):
        return lambda n: node_has(n, lambda x: isinstance(x, ast.Call) and isinstance(x.func, ast.Attribute)
                                  and x.func.attr == meth and isinstance(x.func.value, ast.Name) and x.func.value.id == name)
    kills = [n for n in cc.nodes if is_call_on(proc, 'kill')(n) or is_call_on(proc, 'terminate')(n)]
    chk.ob('C14.c', bool(kills), cp, '_cleanup_process kills the child')
    for kn in kills:
        p = cc.reach([kn], lambda n: n in (cc.exit,), block_node=is_call_on(proc, 'wait'), kinds=NOEXC)
        chk.ob('C14.c', p is None, kn.ast, 'after a successful kill the child is waited for (reaped) on every path',
               'path without wait(): %s' % cc.describe(p) if p else '')
    for meth, obj, what in (('kill', proc, 'kill'), ('wait', proc, 'wait')):
        for n in cc.nodes:
            if is_call_on(obj, meth)(n):
                hs = [h for t in enclosing_handlers(n.ast, cp) for h in t.handlers
                      if handler_types(h) & {'OSError', 'Exception', 'BaseException', '*', 'ProcessLookupError'}]
                chk.ob('C14.c', bool(hs), n.ast, 'process.%s() is guarded against OSError' % what)
    w = must_pass(cp, is_call_on(thread, 'join'))
    chk.ob('C14.c', w is None, cp, 'the stderr thread is joined on every normal path (also after OSError)', w or '')
    # streams closed
    closed = set()
    guarded = True
    for n in own_nodes(cp):
        if isinstance(n, ast.Call) and isinstance(n.func, ast.Attribute) and n.func.attr == 'close':
            tgt = n.func.value
            st = repo.enclosing_stmt(n)
            hs = [h for t in enclosing_handlers(st, cp) for h in t.handlers
                  if handler_types(h) & {'OSError', 'Exception', 'BaseException', '*'}]
            if not hs:
                guarded = False
            if isinstance(tgt, ast.Attribute) and isinstance(tgt.value, ast.Name) and tgt.value.id == proc:
                closed.add(tgt.attr)
            elif isinstance(tgt, ast.Name):
                # loop variable: find the for whose target it is
                for a in repo.ancestors(n):
                    if isinstance(a, ast.For) and isinstance(a.target, ast.Name) and a.target.id == tgt.id:
                        for x in ast.walk(a.iter):
                            if isinstance(x, ast.Attribute) and isinstance(x.value, ast.Name) and x.value.id == proc:
                                closed.add(x.attr)
    chk.ob('C14.c', {'stdin', 'stdout', 'stderr'} <= closed, cp, 'all three pipes of the child are closed',
           'closed: %s' % sorted(closed))
    chk.ob('C14.c', guarded and bool(closed), cp, 'every stream.close() is guarded against OSError')
    # the close loop is reached on every normal path
    is_close = lambda n: node_has(n, lambda x: isinstance(x, ast.Call) and isinstance(x.func, ast.Attribute) and x.func.attr == 'close')
    w = must_pass(cp, is_close)
    chk.ob('C14.c', w is None, cp, 'streams are closed on every normal path', w or '')


def rule_d(repo, chk):
    chk.clause('C14.d', 'the finalizer registered in _get_process does not reference self (a strong reference would keep the '
                        'helper object, and so the child, alive forever); it is what _kill runs')
    f = repo.find(SUB, 'CompiledSubprocess._get_process')
    fins = [c for c in calls_in(f, 'finalize')]
    chk.floor('C14.d', len(fins), 1, '(weakref.finalize in _get_process)')
    for c in fins:
        args = list(c.args)
        ok0 = args and isinstance(args[0], ast.Name) and args[0].id == 'self'
        chk.ob('C14.d', ok0, c, 'finalizer is attached to self')
        cb = args[1] if len(args) > 1 else None
        r = repo.resolve(cb) if cb is not None else None
        d = repo.def_by_dotted(r) if r else None
        ok1 = d is not None and isinstance(getattr(d, '_parent', None), ast.Module)
        chk.ob('C14.d', ok1, c, 'finalizer callback `%s` is a module-level function' % short(cb, 40),
               'resolved to %s' % r)
        rest = args[2:] + [k.value for k in c.keywords]
        # locals that alias self / bound methods of self
        tainted = {'self'}
        for s in stmts_in(f, ast.Assign):
            if 'self' in names_in(s.value) and not isinstance(s.value, ast.Call):
                # `x = self.foo` (bound method / attribute) — attribute *values* such as self._executable are data
                pass
        leak = [short(a) for a in rest if 'self' in names_in(a)]
        chk.ob('C14.d', not leak, c, 'no finalizer argument references self', 'references: %s' % leak)
        if d is not None:
            chk.ob('C14.d', 'self' not in params(d), d, 'the cleanup function takes no self')
        st = repo.enclosing_stmt(c)
        ok2 = isinstance(st, ast.Assign) and any(_is_self_attr(t, '_cleanup_callable') for t in st.targets)
        chk.ob('C14.d', ok2, c, 'the finalizer is stored as self._cleanup_callable (what _kill runs)')
    # the process is started once per helper object
    from ..core import decorators
    chk.ob('C14.d', 'memoize_method' in decorators(f), f, '_get_process is memoised per helper object (one child per CompiledSubprocess)')


def rule_e(repo, chk):
    chk.clause('C14.e', 'Environment._subprocess is read only inside _get_subprocess, which hands it out only when not crashed '
                        'or freshly created; all users go through _get_subprocess()')
    f = repo.find(ENV, 'Environment._get_subprocess')
    mod = repo.module(ENV)
    n_sites = 0
    for n in ast.walk(mod.tree):
        if isinstance(n, ast.Attribute) and n.attr == '_subprocess':
            n_sites += 1
            q = repo.qual_of(n)
            ok = q == 'Environment._get_subprocess' or q == 'Environment'
            chk.ob('C14.e', ok, n, '`%s` appears only in Environment._get_subprocess (or the class default)' % short(n, 40),
                   'found in %s' % q)
    chk.floor('C14.e', n_sites, 3, '(uses of _subprocess in environment.py)')
    # outside the module: a `._subprocess` on anything but an AccessHandle's self
    for m in repo.modules.values():
        if m.name == ENV:
            continue
        for n in ast.walk(m.tree):
            if isinstance(n, ast.Attribute) and n.attr == '_subprocess':
                cls = repo.qual_of(n).split('.')[0]
                ok = isinstance(n.value, ast.Name) and n.value.id == 'self' and cls == 'AccessHandle'
                chk.ob('C14.e', ok, n, '`%s` outside environment.py is AccessHandle\'s own field' % short(n, 40))

    def not_crashed(e, pol):
        return isinstance(e, ast.Attribute) and e.attr == 'is_crashed' and _is_self_attr(e.value, '_subprocess') and pol is False
    c = cfg_of(f)
    is_fresh = lambda n: isinstance(n.ast, ast.Assign) and any(_is_self_attr(t, '_subprocess') for t in n.ast.targets) \
        and isinstance(n.ast.value, ast.Call) and call_name(n.ast.value) == 'CompiledSubprocess'
    rets = [s for s in stmts_in(f, ast.Return) if s.value is not None]
    chk.floor('C14.e', len(rets), 1, '(returns in _get_subprocess)')
    for r in rets:
        ok_val = _is_self_attr(r.value, '_subprocess')
        w = gate(f, r, not_crashed)
        fresh = None
        if w is not None:
            # not gated: must be the freshly created one
            p = c.reach([c.entry], lambda n: n.ast is r, block_node=is_fresh)
            fresh = p is None
        chk.ob('C14.e', ok_val and (w is None or fresh), r, '`%s`: helper handed out only if not crashed or just created' % short(r),
               'path: %s' % w if w else '')
    for name in ('Environment.get_inference_state_subprocess', 'Environment.get_sys_path'):
        g = repo.find(ENV, name)
        chk.ob('C14.e', bool(calls_in(g, '_get_subprocess')), g, '%s obtains the helper through _get_subprocess()' % name)


def _tuple_len(repo, func, expr):
    """length of the tuple an expression denotes (following one local assignment)"""
    if isinstance(expr, ast.Tuple):
        return [len(expr.elts)]
    if isinstance(expr, ast.Name):
        out = []
        for s in stmts_in(func, ast.Assign):
            if any(isinstance(t, ast.Name) and t.id == expr.id for t in s.targets):
                out.append(len(s.value.elts) if isinstance(s.value, ast.Tuple) else None)
        return out
    return [None]


def rule_f(repo, chk):
    chk.clause('C14.f', 'both ends agree on the wire format: 4-field request = Listener._run parameters, 3-field reply = '
                        '_send\'s unpack; function None <=> delete; the listener answers every request it read (also when the '
                        'function raises) and exits on EOF')
    send = repo.find(SUB, 'CompiledSubprocess._send')
    run_ = repo.find(SUB, 'Listener._run')
    listen = repo.find(SUB, 'Listener.listen')
    writes, reads = _pipe_ops(repo, send)
    nparams = len([p for p in params(run_) if p != 'self'])
    for w in writes:
        lens = _tuple_len(repo, send, w.args[0]) if w.args else [None]
        chk.ob('C14.f', lens and all(l == nparams for l in lens), w,
               'request written by _send has as many fields as Listener._run has parameters (%d)' % nparams, 'fields: %s' % lens)
    # listen: payload is splatted into _run
    runs = calls_in(listen, '_run')
    chk.ob('C14.f', bool(runs) and all(len(c.args) == 1 and isinstance(c.args[0], ast.Starred) for c in runs), listen,
           'Listener.listen passes the request tuple to _run(*payload)')
    lw, lr = _pipe_ops(repo, listen)
    chk.floor('C14.f', len(lw), 1, '(reply write in listen)')
    chk.floor('C14.f', len(lr), 1, '(request read in listen)')
    # reply shape
    unpack = None
    for r in reads:
        st = repo.enclosing_stmt(r)
        if isinstance(st, ast.Assign) and isinstance(st.targets[0], ast.Tuple):
            unpack = len(st.targets[0].elts)
    chk.ob('C14.f', unpack is not None, send, '_send unpacks the reply into a fixed number of fields')
    for w in lw:
        lens = _tuple_len(repo, listen, w.args[0]) if w.args else [None]
        chk.ob('C14.f', bool(lens) and all(l == unpack for l in lens), w,
               'every reply written by the listener has the %s fields _send unpacks' % unpack, 'fields: %s' % lens)
    # success/error flag
    if lw and lw[0].args and isinstance(lw[0].args[0], ast.Name):
        var = lw[0].args[0].id
        flags = {}
        for s in stmts_in(listen, ast.Assign):
            if any(isinstance(t, ast.Name) and t.id == var for t in s.targets) and isinstance(s.value, ast.Tuple) and s.value.elts:
                first = s.value.elts[0]
                in_handler = any(isinstance(a, ast.ExceptHandler) for a in repo.ancestors(s))
                flags[in_handler] = first.value if isinstance(first, ast.Constant) else None
        chk.ob('C14.f', flags.get(False) is False and flags.get(True) is True, listen,
               'reply flag is False for a result and True for an exception', 'flags: %s' % flags)
    # _run call guarded by except Exception that yields a reply
    for c in runs:
        st = repo.enclosing_stmt(c)
        hs = [h for t in enclosing_handlers(st, listen) for h in t.handlers if handler_types(h) & {'Exception', 'BaseException', '*'}]
        chk.ob('C14.f', bool(hs), c, 'a raising function is caught (except Exception) in the listener')
        wide = [h for t in enclosing_handlers(st, listen) for h in t.handlers if handler_types(h) & {'BaseException', '*', 'SystemExit', 'KeyboardInterrupt'}]
        chk.ob('C14.f', not wide, c, 'SystemExit/KeyboardInterrupt inside the helper end the helper (=> InternalError on the host): they are never '
                                     'caught and shipped to the host as a "function raised" reply, which _send would re-raise verbatim',
               'caught by `except %s`' % ', '.join(sorted(handler_types(wide[0]))) if wide else '')
        for h in hs:
            chk.ob('C14.f', not stmts_in(h, ast.Raise) if False else not [x for x in ast.walk(h) if isinstance(x, ast.Raise)], h,
                   'the catch-all handler does not re-raise')
    # every request read is answered before the next read / loop iteration
    c = cfg_of(listen)
    is_write = lambda n: node_has(n, lambda x: x in lw)
    read_nodes = [n for n in c.nodes if node_has(n, lambda x: x in lr)]
    for rn in read_nodes:
        p = c.reach([rn], lambda n: n in read_nodes or n is c.exit, block_node=is_write, kinds=NOEXC)
        chk.ob('C14.f', p is None, rn.ast, 'every request that was read is answered before the next read (no silent request => no hang)',
               'path without reply: %s' % c.describe(p) if p else '')
        st = rn.ast
        hs = [h for t in enclosing_handlers(st, listen) for h in t.handlers if handler_types(h) & {'EOFError'}]
        chk.ob('C14.f', bool(hs), st, 'EOF on the request pipe (parent gone) is handled')
        for h in hs:
            leaves = [x for x in ast.walk(h) if isinstance(x, (ast.Return, ast.Break)) or
                      (isinstance(x, ast.Call) and (call_name(x) in ('exit', '_exit') or norm(x.func) in ('sys.exit', 'os._exit')))]
            chk.ob('C14.f', bool(leaves), h, 'on EOF the listener terminates')
    # function None <=> delete
    run = repo.find(SUB, 'CompiledSubprocess.run')
    dels = [c_ for c_ in calls_in(run, '_send') if len(c_.args) >= 2 and isinstance(c_.args[1], ast.Constant) and c_.args[1].value is None]
    chk.ob('C14.f', bool(dels), run, 'run() sends a delete request as (id, None)')
    del_stmts = [s for s in stmts_in(run_, ast.Delete) if '_inference_states' in norm(s)]
    chk.ob('C14.f', bool(del_stmts), run_, 'Listener._run deletes helper-side state')

    def fn_is_none(e, pol):
        return isinstance(e, ast.Compare) and isinstance(e.left, ast.Name) and e.left.id == 'function' and \
            len(e.ops) == 1 and ((isinstance(e.ops[0], ast.Is) and pol) or (isinstance(e.ops[0], ast.IsNot) and not pol)) and \
            isinstance(e.comparators[0], ast.Constant) and e.comparators[0].value is None
    for s in del_stmts:
        w = gate(run_, s, fn_is_none)
        chk.ob('C14.f', w is None, s, 'the deletion happens exactly for `function is None`', 'path: %s' % w if w else '')
    # _send raises the remote exception when the flag is set
    if unpack:
        for r in reads:
            st = repo.enclosing_stmt(r)
            if isinstance(st, ast.Assign) and isinstance(st.targets[0], ast.Tuple):
                names = [getattr(e, 'id', None) for e in st.targets[0].elts]
                flag, res = names[0], names[-1]
                cs = cfg_of(send)
                rets = [s for s in stmts_in(send, ast.Return) if isinstance(s.value, ast.Name) and s.value.id == res]
                ok = bool(rets)
                for rt in rets:
                    w = gate(send, rt, lambda e, pol: isinstance(e, ast.Name) and e.id == flag and pol is False)
                    ok = ok and w is None
                chk.ob('C14.f', ok, st, '_send returns the result only when the exception flag is false')


def rule_g(repo, chk):
    chk.clause('C14.g', 'helper-side state of a discarded Script is released: __del__ enqueues only if used and not crashed; '
                        'run() drains the whole queue before the request; _used is set before the first request')
    d = repo.find(SUB, 'InferenceStateSubprocess.__del__')
    dc = calls_in(d, 'delete_inference_state')
    chk.floor('C14.g', len(dc), 1, '(delete_inference_state in __del__)')
    for c in dc:
        w1 = gate(d, c, lambda e, pol: _is_self_attr(e, '_used') and pol is True)
        w2 = gate(d, c, lambda e, pol: isinstance(e, ast.Attribute) and e.attr == 'is_crashed' and pol is False)
        chk.ob('C14.g', w1 is None, c, '__del__ enqueues a deletion only if the state was used in the helper', w1 or '')
        chk.ob('C14.g', w2 is None, c, '__del__ enqueues a deletion only if the helper is not crashed', w2 or '')
    dis = repo.find(SUB, 'CompiledSubprocess.delete_inference_state')
    app = [c for c in calls_in(dis) if call_name(c) in ('append', 'appendleft') and _is_self_attr(c.func.value, '_inference_state_deletion_queue')]
    chk.ob('C14.g', bool(app), dis, 'delete_inference_state enqueues into _inference_state_deletion_queue')
    run = repo.find(SUB, 'CompiledSubprocess.run')
    c = cfg_of(run)
    sends = calls_in(run, '_send')
    req = [s for s in sends if not (len(s.args) >= 2 and isinstance(s.args[1], ast.Constant) and s.args[1].value is None)]
    chk.floor('C14.g', len(req), 1, '(request send in run)')
    pops = [x for x in calls_in(run) if call_name(x) in ('pop', 'popleft') and _is_self_attr(x.func.value, '_inference_state_deletion_queue')]
    chk.ob('C14.g', bool(pops), run, 'run() pops from the deletion queue')
    # drained: the request send is only reachable through "queue empty" evidence
    pop_try_handlers = set()
    for ppp in pops:
        st = repo.enclosing_stmt(ppp)
        for t in enclosing_handlers(st, run):
            for h in t.handlers:
                if handler_types(h) & {'IndexError', 'LookupError'}:
                    pop_try_handlers.add(id(h))

    def is_empty_evidence(n):
        return n.kind == 'handler' and id(n.ast) in pop_try_handlers

    def empty_edge(n, k, m):
        if n.kind == 'test' and k == 'F':
            e = n.ast
            if _is_self_attr(e, '_inference_state_deletion_queue'):
                return True
            if isinstance(e, ast.Call) and call_name(e) == 'len' and e.args and _is_self_attr(e.args[0], '_inference_state_deletion_queue'):
                return True
        return False
    for s in req:
        ids = {n.id for n in c.nodes_containing(s)}
        p = c.reach([c.entry], lambda n: n.id in ids, block_node=is_empty_evidence, block_edge=empty_edge)
        chk.ob('C14.g', p is None, s, 'the request is sent only after the deletion queue was found empty',
               'path: %s' % c.describe(p) if p else '')
    # each popped id is sent as a delete
    for ppp in pops:
        pn = c.nodes_containing(ppp)
        is_del_send = lambda n: node_has(n, lambda x: isinstance(x, ast.Call) and call_name(x) == '_send' and x not in req)
        req_ids = {n.id for s in req for n in c.nodes_containing(s)}
        p = c.reach(pn, lambda n: n.id in req_ids or n is c.exit or n in pn, block_node=is_del_send, kinds=NOEXC)
        chk.ob('C14.g', p is None, ppp, 'every popped id is sent to the helper as a delete request',
               'path: %s' % c.describe(p) if p else '')
    w = repo.find(SUB, 'InferenceStateSubprocess.__getattr__.wrapper')
    cw = cfg_of(w)
    runs = calls_in(w, 'run')
    chk.floor('C14.g', len(runs), 1, '(run call in __getattr__.wrapper)')
    is_used_store = lambda n: isinstance(n.ast, ast.Assign) and any(_is_self_attr(t, '_used') for t in n.ast.targets) \
        and isinstance(n.ast.value, ast.Constant) and n.ast.value.value is True
    for r in runs:
        ids = {n.id for n in cw.nodes_containing(r)}
        p = cw.reach([cw.entry], lambda n: n.id in ids, block_node=is_used_store)
        chk.ob('C14.g', p is None, r, '_used is set before the request is issued', 'path: %s' % cw.describe(p) if p else '')
        a0 = r.args[0] if r.args else None
        chk.ob('C14.g', a0 is not None and _is_self_attr(a0, '_inference_state_id'), r, 'requests carry this state\'s own id')
    # id passed on delete is the same field
    for c_ in dc:
        chk.ob('C14.g', c_.args and _is_self_attr(c_.args[0], '_inference_state_id'), c_, 'the deletion names this state\'s own id')
    # per-helper state really is per helper: nothing mutable is shared at class level
    for cname in ('CompiledSubprocess', 'InferenceStateSubprocess', '_InferenceStateProcess', 'Listener'):
        ci = repo.cls(SUB, cname)
        shared = sorted(a for a, st in ci.attrs.items() if isinstance(getattr(st, 'value', None), (ast.List, ast.Dict, ast.Set, ast.Call, ast.Lambda,
                                                                                                  ast.ListComp, ast.DictComp)))
        chk.ob('C14.g', not shared, ci.node, '%s keeps no mutable/callable state at class level (a replacement helper starts clean)' % cname,
               'class-level: %s' % shared)
    cinit = repo.find(SUB, 'CompiledSubprocess.__init__')
    for attr, ctor in (('_inference_state_deletion_queue', ('deque', 'list', 'Queue')), ('_cleanup_callable', None)):
        st = attr_stores(cinit, attr)
        ok = bool(st) and all((isinstance(x.value, ast.Call) and call_name(x.value) in ctor) if ctor else isinstance(x.value, ast.Lambda) for x in st)
        chk.ob('C14.g', ok, cinit, 'CompiledSubprocess.__init__ creates a fresh %s per helper' % attr, str([short(x) for x in st]))
    # _used starts False
    init = repo.find(SUB, 'InferenceStateSubprocess.__init__')
    st = attr_stores(init, '_used')
    chk.ob('C14.g', bool(st) and all(isinstance(s.value, ast.Constant) and s.value.value is False for s in st), init,
           '_used starts as False')


def rule_h(repo, chk):
    chk.clause('C14.h', 'first contact with a new helper converts any failure into InvalidPythonEnvironment; the cached default '
                        'environment falls back to InterpreterEnvironment')
    f = repo.find(ENV, 'Environment._get_subprocess')
    sends = calls_in(f, '_send')
    chk.floor('C14.h', len(sends), 1, '(_send in _get_subprocess)')
    for s in sends + calls_in(f, 'CompiledSubprocess'):
        st = repo.enclosing_stmt(s)
        hs = [h for t in enclosing_handlers(st, f) for h in t.handlers if handler_types(h) & {'Exception', 'BaseException', '*'}]
        chk.ob('C14.h', bool(hs), s, '`%s` is inside try/except Exception' % short(s, 50))
        for h in hs:
            rs = [x for x in ast.walk(h) if isinstance(x, ast.Raise)]
            chk.ob('C14.h', bool(rs) and all(raised_name(r) == 'InvalidPythonEnvironment' for r in rs), h,
                   'the handler raises InvalidPythonEnvironment', 'raises %s' % [raised_name(r) for r in rs])
    g = repo.find(ENV, '_get_cached_default_environment')
    calls = calls_in(g, 'get_default_environment')
    chk.floor('C14.h', len(calls), 1)
    for c in calls:
        st = repo.enclosing_stmt(c)
        hs = [h for t in enclosing_handlers(st, g) for h in t.handlers
              if handler_types(h) & {'InvalidPythonEnvironment', 'Exception', 'BaseException', '*'}]
        ok = bool(hs) and all(any(isinstance(x, ast.Return) and isinstance(x.value, ast.Call) and call_name(x.value) == 'InterpreterEnvironment'
                                  for x in ast.walk(h)) for h in hs)
        chk.ob('C14.h', ok, c, 'an invalid default environment falls back to InterpreterEnvironment()')


def describe(chk):
    chk.undecided('"no query hangs" for a helper that is alive but silent (blocking read without timeout; liveness is a run-time property); '
                  'that replaced helpers give the same answers (value-dependent)')
    chk.assume('pickle.load on a pipe raises EOFError (no byte) or pickle.UnpicklingError (truncated) when the peer died; '
               'pickle.dump/flush raise BrokenPipeError')
    chk.assume('attribute loads and plain constant stores are treated as non-raising when checking handler bodies')


RULES = [('C14.a', rule_a), ('C14.b', rule_b), ('C14.c', rule_c), ('C14.d', rule_d), ('C14.e', rule_e),
         ('C14.f', rule_f), ('C14.g', rule_g), ('C14.h', rule_h)]
