"""C01 — the query API is total on any source text and cursor position (mechanisms only).

Totality itself is not decided.  Decided: position validation is installed and exact, error
recovery stays wired, result wrappers tolerate names without position, dispatch tables cover
the grammar, tree navigation at the API boundary is None-checked, jedi's internal control-flow
exceptions are contained."""
import ast
import os

from ..core import AnchorError, atoms, call_name, decorators, dotted_text, names_in, norm, short, own_nodes, kwarg, FUNC_TYPES
from ..cfg import cfg_of
from ..lib import (calls_in, stmts_in, gate, must_pass, node_has, params, enclosing_handlers, handler_types, raised_name,
                   none_safe, none_safe_chain, derefs_of, none_accept, dominating_facts)
from .. import grammar as G

API = 'jedi.api'
HELPERS = 'jedi.api.helpers'
CLASSES = 'jedi.api.classes'

QUERY_METHODS = ['complete', 'infer', 'goto', 'help', 'get_references', 'get_signatures', 'get_context']


# --------------------------------------------------------------------------------------- C01.a
def rule_a(repo, chk):
    chk.clause('C01.a', 'every public Script method taking (line, column) is wrapped by validate_line_column, or hands line/column '
                        'unchanged, as its first use of them, to a method that is')
    ci = repo.cls(API, 'Script')
    classes = [ci] + repo.subclasses(ci)
    n_dec = n_fwd = 0
    for c in classes:
        for name, f in sorted(c.methods.items()):
            if name.startswith('_'):
                continue
            ps = params(f)
            if 'line' not in ps and 'column' not in ps:
                continue
            if 'validate_line_column' in decorators(f):
                n_dec += 1
                # the decorator must be the outermost one that sees the raw arguments... any position is fine as long as it wraps
                chk.ob('C01.a', True, f, '%s.%s(line, column) is wrapped by validate_line_column' % (c.qual, name))
                continue
            # forwarding form
            uses = [n for n in own_nodes(f) if isinstance(n, ast.Name) and n.id in ('line', 'column') and isinstance(n.ctx, ast.Load)]
            uses.sort(key=lambda n: (n.lineno, n.col_offset))
            stores = [n for n in own_nodes(f) if isinstance(n, ast.Name) and n.id in ('line', 'column') and isinstance(n.ctx, ast.Store)]
            ok = bool(uses) and not stores
            detail = ''
            if ok:
                call = None
                for a in repo.ancestors(uses[0]):
                    if isinstance(a, ast.Call):
                        call = a
                        break
                ok = call is not None and isinstance(call.func, ast.Attribute) and isinstance(call.func.value, ast.Name) and \
                    call.func.value.id == 'self' and len(call.args) >= 2 and norm(call.args[0]) == 'line' and norm(call.args[1]) == 'column'
                if ok:
                    tgt = repo.find_method(c, call.func.attr)
                    ok = tgt is not None and 'validate_line_column' in decorators(tgt)
                    detail = 'forwards to %s' % call.func.attr
                    # every use of line/column is inside that one call
                    inside = {id(x) for x in ast.walk(call)}
                    ok = ok and all(id(u) in inside for u in uses)
            n_fwd += 1
            chk.ob('C01.a', ok, f, '%s.%s(line, column) validates its position (decorated, or forwards line/column untouched to a decorated method)' % (c.qual, name),
                   detail or 'not decorated and does not purely forward')
    chk.floor('C01.a', n_dec, 7, '(decorated query methods)')
    chk.notes['decorated'] = n_dec
    chk.notes['forwarding'] = n_fwd
    # the documented query methods exist and are decorated
    for m in QUERY_METHODS:
        f = repo.find_method(ci, m)
        chk.ob('C01.a', f is not None and 'validate_line_column' in decorators(f), f if f is not None else ci.node,
               'Script.%s is wrapped by validate_line_column' % m)


# --------------------------------------------------------------------------------------- C01.b
def _range(e, var):
    """(lower_inclusive:int|None, (op, upper_text)|None) of a chained comparison on `var`."""
    if not isinstance(e, ast.Compare):
        return None
    items = [e.left] + list(e.comparators)
    ops = list(e.ops)
    lo = hi = None
    for i, o in enumerate(ops):
        a, b = items[i], items[i + 1]
        if norm(b) == var and isinstance(a, ast.Constant) and isinstance(a.value, int):
            if isinstance(o, ast.Lt):
                lo = a.value + 1
            elif isinstance(o, ast.LtE):
                lo = a.value
        elif norm(a) == var:
            if isinstance(o, ast.LtE):
                hi = ('le', norm(b))
            elif isinstance(o, ast.Lt):
                hi = ('lt', norm(b))
            elif isinstance(o, ast.GtE) and isinstance(b, ast.Constant):
                lo = b.value
            elif isinstance(o, ast.Gt) and isinstance(b, ast.Constant):
                lo = b.value + 1
    return lo, hi


def _describe_ending(crlf, lf):
    return 'ends in \\r\\n' if crlf else 'ends in \\n only' if lf else 'has no terminator' if lf is False else 'was not tested'


def _line_len_paths(w, start_stmt, end_stmt, limit=200):
    """all paths (no exception edges, each CFG node at most once per path) from start_stmt to end_stmt with the outcomes of the
    endswith tests on line_string and the value of `line_len` as len(line_string)+offset: [({'crlf': bool, 'lf': bool}, offset|None)]"""
    c = cfg_of(w)
    srcs = c.nodes_of(start_stmt)
    tgt = {n.id for n in c.nodes_of(end_stmt)}
    out = []

    def val(e, env):
        if isinstance(e, ast.Call) and norm(e) == 'len(line_string)':
            return 0
        if isinstance(e, ast.Name):
            return env.get(e.id)
        if isinstance(e, ast.BinOp) and isinstance(e.op, (ast.Sub, ast.Add)) and isinstance(e.right, ast.Constant) and isinstance(e.right.value, int):
            l_ = val(e.left, env)
            return None if l_ is None else (l_ - e.right.value if isinstance(e.op, ast.Sub) else l_ + e.right.value)
        return None

    def step(node, env):
        a = node.ast
        if node.kind == 'stmt' and isinstance(a, ast.Assign) and len(a.targets) == 1 and isinstance(a.targets[0], ast.Name):
            env = dict(env)
            env[a.targets[0].id] = val(a.value, env)
        elif node.kind == 'stmt' and isinstance(a, ast.AugAssign) and isinstance(a.target, ast.Name) and isinstance(a.op, (ast.Sub, ast.Add)) \
                and isinstance(a.value, ast.Constant) and isinstance(a.value.value, int):
            env = dict(env)
            cur = env.get(a.target.id)
            env[a.target.id] = None if cur is None else (cur - a.value.value if isinstance(a.op, ast.Sub) else cur + a.value.value)
        return env

    def test_fact(node, k):
        e = node.ast
        if isinstance(e, ast.Call) and norm(e.func) == 'line_string.endswith' and e.args and isinstance(e.args[0], ast.Constant):
            if e.args[0].value == '\r\n':
                return 'crlf', k == 'T'
            if e.args[0].value == '\n':
                return 'lf', k == 'T'
        return None

    def dfs(node, env, facts, seen):
        if len(out) >= limit:
            return
        for m, k in node.succ:
            if k == 'exc' or m.id in seen:
                continue
            f2 = facts
            if node.kind == 'test' and k in ('T', 'F'):
                tf = test_fact(node, k)
                if tf is not None:
                    if tf[0] in facts and facts[tf[0]] != tf[1]:
                        continue
                    f2 = dict(facts)
                    f2[tf[0]] = tf[1]
            if m.id in tgt:
                out.append((f2, env.get('line_len')))
                continue
            dfs(m, step(m, env), f2, seen | {m.id})
    for s_ in srcs:
        dfs(s_, {}, {}, {s_.id})
    return out


def rule_b(repo, chk):
    chk.clause('C01.b', 'inside the wrapper: only ValueError is raised; the line lookup and the wrapped call are dominated by the exact range '
                        'tests 1 <= line <= len(code_lines) and 0 <= column <= line_len, with line_len excluding the \\n / \\r\\n terminator')
    w = repo.find(HELPERS, 'validate_line_column.wrapper')
    rs = stmts_in(w, ast.Raise)
    chk.floor('C01.b', len(rs), 2, '(raises in the wrapper)')
    for r in rs:
        chk.ob('C01.b', raised_name(r) == 'ValueError', r, 'the wrapper raises ValueError and nothing else', 'raises %s' % raised_name(r))

    def line_ok(e, pol):
        r = _range(e, 'line')
        return pol and r is not None and r[0] == 1 and r[1] == ('le', 'len(self._code_lines)')

    def col_ok(e, pol):
        r = _range(e, 'column')
        return pol and r is not None and r[0] == 0 and r[1] == ('le', 'line_len')
    subs = [n for n in own_nodes(w) if isinstance(n, ast.Subscript) and norm(n.value) == 'self._code_lines']
    chk.floor('C01.b', len(subs), 1, '(line lookup)')
    for s in subs:
        wit = gate(w, s, line_ok)
        chk.ob('C01.b', wit is None, s, '`%s` is reached only when 1 <= line <= len(self._code_lines)' % short(s), wit or '')
        chk.ob('C01.b', norm(s.slice) == 'line - 1', s, 'the line string is code_lines[line - 1]')
    calls = [c for c in calls_in(w) if isinstance(c.func, ast.Name) and c.func.id == 'func']
    chk.floor('C01.b', len(calls), 1, '(wrapped call)')
    for c in calls:
        w1 = gate(w, c, line_ok)
        w2 = gate(w, c, col_ok)
        chk.ob('C01.b', w1 is None, c, 'the query runs only with 1 <= line <= len(code_lines)', w1 or '')
        chk.ob('C01.b', w2 is None, c, 'the query runs only with 0 <= column <= line_len', w2 or '')
        ok = len(c.args) >= 3 and [norm(a) for a in c.args[:3]] == ['self', 'line', 'column']
        chk.ob('C01.b', ok, c, 'the validated (line, column) are what the query receives, in that order')
    # line_len = len(line_string) minus the terminator: decided per PATH (constant propagation along every path from the line lookup to the
    # column default), so that it does not matter whether the computation is written with `-=`, with early returns in a helper, or nested
    ls = [s for s in stmts_in(w, ast.Assign) if any(isinstance(t, ast.Name) and t.id == 'line_string' for t in s.targets)]
    chk.ob('C01.b', len(ls) == 1 and norm(ls[0].value) == 'self._code_lines[line - 1]', w, 'line_string is the validated line')
    d_col0 = [s for s in stmts_in(w, ast.Assign) if any(isinstance(t, ast.Name) and t.id == 'column' for t in s.targets)]
    if len(ls) == 1 and len(d_col0) == 1:
        outcomes = _line_len_paths(w, ls[0], d_col0[0])
        chk.floor('C01.b', len(outcomes), 1, '(paths from the line lookup to the column default)')   # fewer than 3 paths = terminators not told apart: a violation below, not a vanished anchor
        for facts, off in outcomes:
            crlf, lf = facts.get('crlf'), facts.get('lf')
            if lf is False:
                crlf = False
            if crlf is True:
                want_ = -2
            elif crlf is False and lf is True:
                want_ = -1
            elif crlf is False and lf is False:
                want_ = 0
            else:
                want_ = None
            chk.ob('C01.b', want_ is not None and off == want_, w,
                   'line_len = len(line_string) %s on the path where the line %s' % (('%+d' % want_) if want_ else '(unchanged)' if want_ == 0 else '?',
                                                                                     _describe_ending(crlf, lf)),
                   'computed: len(line_string)%s' % ('%+d' % off if off is not None else ' ??'), key='line_len|%s|%s' % (crlf, lf))
        kinds_seen = {(True if f_.get('crlf') else False, f_.get('lf')) for f_, _ in outcomes}
        chk.ob('C01.b', any(f_.get('crlf') is True for f_, _ in outcomes) and any(f_.get('lf') is True and not f_.get('crlf') for f_, _ in outcomes),
               w, 'both terminators (\\r\\n and \\n) are distinguished')
    # defaults: None -> last line / end of line
    d_line = [s for s in stmts_in(w, ast.Assign) if any(isinstance(t, ast.Name) and t.id == 'line' for t in s.targets)]
    ok = len(d_line) == 1 and isinstance(d_line[0].value, ast.IfExp) and norm(d_line[0].value.test) == 'line is None' and norm(d_line[0].value.orelse) == 'line'
    chk.ob('C01.b', ok, w, 'line is only replaced when it was None')
    d_col = [s for s in stmts_in(w, ast.Assign) if any(isinstance(t, ast.Name) and t.id == 'column' for t in s.targets)]
    ok = len(d_col) == 1 and isinstance(d_col[0].value, ast.IfExp) and norm(d_col[0].value.test) == 'column is None' and \
        norm(d_col[0].value.orelse) == 'column' and norm(d_col[0].value.body) == 'line_len'
    chk.ob('C01.b', ok, w, 'column is only replaced (by line_len) when it was None')
    # code_lines keep their line ends (the -1/-2 arithmetic relies on keepends=True)
    init = repo.find(API, 'Script.__init__')
    sl = [c for c in calls_in(init, 'split_lines')]
    ok = bool(sl) and all(isinstance(kwarg(c, 'keepends'), ast.Constant) and kwarg(c, 'keepends').value is True for c in sl)
    chk.ob('C01.b', ok, init, 'Script._code_lines is split with keepends=True (the terminator arithmetic depends on it)')


# --------------------------------------------------------------------------------------- C01.c
def rule_c(repo, chk):
    chk.clause('C01.c', 'error recovery stays wired: the completion parser runs with error_recovery=True; OnErrorLeaf can only come from '
                        '_get_code_for_stack <- get_stack_at_position, every call of which is in a try catching it without re-raising; '
                        'imports in error nodes are followed from the "no definition" branch of infer and goto')
    g = repo.find(HELPERS, 'get_stack_at_position')
    ps = calls_in(g, 'Parser')
    chk.floor('C01.c', len(ps), 1, '(Parser construction)')
    for p in ps:
        v = kwarg(p, 'error_recovery')
        chk.ob('C01.c', isinstance(v, ast.Constant) and v.value is True, p, 'the stack parser is built with error_recovery=True', 'error_recovery=%s' % short(v))
    raisers = set()
    for m in repo.modules.values():
        for r in ast.walk(m.tree):
            if isinstance(r, ast.Raise) and raised_name(r) == 'OnErrorLeaf':
                raisers.add((m.name, repo.qual_of(r)))
                chk.ob('C01.c', (m.name, repo.qual_of(r)) == (HELPERS, '_get_code_for_stack'), r, 'OnErrorLeaf is raised in _get_code_for_stack only')
    chk.floor('C01.c', len(raisers), 1)
    for c in repo.calls_of('_get_code_for_stack'):
        chk.ob('C01.c', (c._mod.name, repo.qual_of(c)) == (HELPERS, 'get_stack_at_position'), c, '_get_code_for_stack is called from get_stack_at_position only')
    sites = repo.calls_of('get_stack_at_position')
    chk.floor('C01.c', len(sites), 1)
    for c in sites:
        f = repo.enclosing_func(c)
        st = repo.enclosing_stmt(c)
        hs = [h for t in enclosing_handlers(st, f) for h in t.handlers if handler_types(h) & {'OnErrorLeaf', 'Exception', 'BaseException', '*'}]
        chk.ob('C01.c', bool(hs), c, 'get_stack_at_position is called inside try/except OnErrorLeaf')
        for h in hs:
            re_raise = [x for x in ast.walk(h) if isinstance(x, ast.Raise)]
            chk.ob('C01.c', not re_raise, h, 'the OnErrorLeaf handler does not re-raise (falls back to global completion)')
    for modname, q, var in (('jedi.inference', 'InferenceState.infer', 'def_'), ('jedi.inference.names', 'AbstractTreeName.goto', 'definition')):
        f = repo.find(modname, q)
        cs = calls_in(f, 'follow_error_node_imports_if_possible')
        chk.ob('C01.c', bool(cs), f, '%s follows imports inside error nodes' % q)
        for c in cs:
            # reached exactly on the no-definition branch
            def nodef(e, pol, var=var):
                acc = none_accept(var)
                # "var is None" must hold: i.e. the not-None fact with inverted polarity
                return acc(e, not pol)
            w = gate(f, c, nodef)
            chk.ob('C01.c', w is None, c, 'the fallback is taken on the branch where `%s` is None' % var, w or '')
            # and nothing on that branch returns before it
        # the no-definition branch always reaches the fallback
    fe = repo.find('jedi.inference.imports', 'follow_error_node_imports_if_possible')
    ok = any(isinstance(x, ast.Constant) and x.value == 'error_node' for x in ast.walk(fe))
    chk.ob('C01.c', ok, fe, 'follow_error_node_imports_if_possible looks for an enclosing error_node')


# --------------------------------------------------------------------------------------- C01.d
NULLABLE_NAME_ATTRS = ('tree_name', 'start_pos')


def rule_d(repo, chk):
    chk.clause('C01.d', 'in api/classes.py, self._name.tree_name and self._name.start_pos (None for compiled, keyword, module-attribute and '
                        'namespace names) are dereferenced only under a dominating None test')
    n = 0
    mod = repo.module(CLASSES)
    # the base class really declares them None
    base = repo.cls('jedi.inference.names', 'AbstractNameDefinition')
    for a in NULLABLE_NAME_ATTRS:
        st = base.attrs.get(a)
        v = getattr(st, 'value', None)
        chk.ob('C01.d', st is not None and isinstance(v, ast.Constant) and v.value is None, st if st is not None else base.node,
               'AbstractNameDefinition.%s defaults to None (names without tree position exist)' % a)
    for q, f in sorted(mod.defs.items()):
        if not isinstance(f, FUNC_TYPES):
            continue
        # direct chains and local aliases
        texts = {}
        for a in NULLABLE_NAME_ATTRS:
            texts['self._name.' + a] = None
        for s in stmts_in(f, ast.Assign):
            if norm(s.value) in ('self._name.tree_name', 'self._name.start_pos') and len(s.targets) == 1 and isinstance(s.targets[0], ast.Name):
                texts[s.targets[0].id] = s
        for text, def_stmt in texts.items():
            for use in derefs_of(f, text):
                n += 1
                w = none_safe(f, use, text, def_stmt)
                chk.ob('C01.d', w is None, use, '`%s` dereferences a possibly-None `%s` only under a None test' % (short(use, 50), text),
                       'unguarded path: %s' % w if w else '', key='%s:%s|%s' % (CLASSES, q, norm(use)))
    chk.floor('C01.d', n, 10, '(dereferences of tree_name/start_pos in classes.py)')
    # a Name built from a *context's* name: comprehension contexts have name None
    k = 0
    for m in repo.modules.values():
        if not (m.name == 'jedi.api' or m.name.startswith('jedi.api.')):
            continue
        for q, f in sorted(m.defs.items()):
            if not isinstance(f, FUNC_TYPES):
                continue
            for c in calls_in(f, 'Name'):
                if len(c.args) == 2 and isinstance(c.args[1], ast.Attribute) and c.args[1].attr == 'name' and \
                        isinstance(c.args[1].value, ast.Name) and 'context' in c.args[1].value.id:
                    k += 1
                    text = norm(c.args[1])
                    w = none_safe_chain(f, c, text)
                    chk.ob('C01.d', w is None, c, '`%s` wraps a context name only after `%s is None` was ruled out (comprehension contexts have no name)' % (short(c, 60), text),
                           'path on which the name may be None: %s' % w if w else '', key='%s:%s|%s' % (m.name, q, norm(c)))
    chk.floor('C01.d', k, 1, '(Name(..., context.name) constructions)')
    cf = repo.cls('jedi.inference.context', 'CompForContext')
    has_name = repo.find_method(cf, 'name') is not None and repo.find_method(cf, 'name')._parent is cf.node
    chk.notes['CompForContext_defines_name'] = has_name
    chk.notes['C01.d_derefs'] = n


# --------------------------------------------------------------------------------------- C01.e
def compared_constants(func, var_pred):
    out = set()
    for n in ast.walk(func):
        if isinstance(n, ast.Compare) and var_pred(n.left) and len(n.ops) == 1:
            c = n.comparators[0]
            if isinstance(n.ops[0], (ast.Eq, ast.NotEq)) and isinstance(c, ast.Constant) and isinstance(c.value, str):
                out.add(c.value)
            elif isinstance(n.ops[0], (ast.In, ast.NotIn)) and isinstance(c, (ast.Tuple, ast.List, ast.Set)):
                out.update(x.value for x in c.elts if isinstance(x, ast.Constant))
    return out


def dict_keys(node):
    if isinstance(node, ast.Dict):
        return [k.value for k in node.keys if isinstance(k, ast.Constant)]
    if isinstance(node, ast.Call) and call_name(node) == 'dict':
        return [k.arg for k in node.keywords]
    return None


def supported_versions(repo):
    s = repo.toplevel('jedi.api.environment', '_SUPPORTED_PYTHONS')
    return [e.value for e in s.value.elts]


def rule_e(repo, chk, all_versions=False):
    chk.clause('C01.e', 'dispatch tables cover the grammar: every node type Name.get_definition() can return has a branch in tree_name_to_values; '
                        'every scope kind of is_scope is handled by create_context; every binary/augmented operator is a key of '
                        'operator_to_magic_method and every comp_op of COMPARISON_OPERATORS or in/not in; _API_TYPES keys are definition types')
    versions = supported_versions(repo)
    use = versions if all_versions else versions[:1]
    tc = G.parso_tree_constants()
    chk.trust('parso %s data files: python/tree.py sha256=%s' % (G.parso_version(), tc['digest'][:16]))
    grams = [G.Grammar(v) for v in use]
    for g in grams:
        chk.trust('parso grammar%s.txt sha256=%s' % (g.version.replace('.', ''), g.digest[:16]))
    # (i) definition types
    def_types = set(tc['consts']['_GET_DEFINITION_TYPES']) | {'funcdef', 'classdef'}
    # except_clause -> its parent: per grammar only try_stmt contains except_clause
    for g in grams:
        parents = {r for r in g.rules if 'except_clause' in g.symbols(r)}
        chk.ob('C01.e', parents == {'try_stmt'}, None, 'grammar %s: except_clause only occurs in try_stmt (so get_definition returns a try_stmt for `except X as name`)' % g.version,
               str(parents), key='grammar-except-%s' % g.version)
    def_types |= {'try_stmt'}
    # ... and, while the try statement is still being typed, the except_clause is complete but its parent is an error_node: get_definition
    # hands out `node.parent` without looking at its type (parso/python/tree.py), so error_node is a definition kind too
    gd = tc['get_definition_returns_parent_of_except_clause']
    if gd:
        def_types |= {'error_node'}
    f = repo.find('jedi.inference.syntax_tree', 'tree_name_to_values')
    handled = compared_constants(f, lambda e: isinstance(e, ast.Name) and e.id == 'typ')
    chk.floor('C01.e', len(handled), 8, '(types dispatched in tree_name_to_values)')
    for t in sorted(def_types):
        chk.ob('C01.e', t in handled, f, 'definition kind %r has a branch in tree_name_to_values (else: ValueError "Should not happen")' % t,
               key='tree_name_to_values|%s' % t)
    # (ii) scopes
    isc = repo.find('jedi.parser_utils', 'is_scope')
    scopes = compared_constants(isc, lambda e: isinstance(e, ast.Name) and e.id == 't')
    cc = repo.find('jedi.inference.context', 'TreeContextMixin.create_context.from_scope_node')
    handled_sc = compared_constants(cc, lambda e: norm(e) == 'scope_node.type')
    chk.floor('C01.e', len(scopes), 4, '(scope kinds)')
    for t in sorted(scopes - {'file_input'}):
        chk.ob('C01.e', t in handled_sc, cc, 'scope kind %r accepted by is_scope is handled by create_context.from_scope_node' % t,
               key='from_scope_node|%s' % t)
    cv = repo.find('jedi.inference.context', 'TreeContextMixin.create_value')
    handled_cv = compared_constants(cv, lambda e: norm(e) == 'node.type') | {norm(x) for x in ast.walk(cv) if False}
    for t in ('funcdef', 'lambdef', 'classdef'):
        ok = t in handled_cv or any(isinstance(x, ast.Constant) and x.value == t for x in ast.walk(cv))
        chk.ob('C01.e', ok, cv, 'create_value builds a value for %r' % t, key='create_value|%s' % t)
    # (iii) operators
    omm = repo.toplevel('jedi.inference.syntax_tree', 'operator_to_magic_method')
    keys = set(dict_keys(omm.value) or [])
    chk.floor('C01.e', len(keys), 8, '(operator_to_magic_method keys)')
    cmp_tbl = repo.toplevel('jedi.inference.compiled.access', 'COMPARISON_OPERATORS')
    cmp_keys = set(dict_keys(cmp_tbl.value) or [])
    icp = repo.find('jedi.inference.syntax_tree', '_infer_comparison_part')
    str_consts = {x.value for x in ast.walk(icp) if isinstance(x, ast.Constant) and isinstance(x.value, str)}
    for g in grams:
        binops = set()
        for r in ('expr', 'xor_expr', 'and_expr', 'shift_expr', 'arith_expr', 'term', 'power'):
            binops.update(g.literals(r))
        binops -= {'await'}
        for op in sorted(binops):
            chk.ob('C01.e', op in keys, omm, 'grammar %s binary operator %r is a key of operator_to_magic_method' % (g.version, op),
                   key='operator|%s' % op)
        for op in sorted(g.literals('augassign')):
            base = op[:-1]
            chk.ob('C01.e', base in keys, omm, 'grammar %s augmented assignment %r maps to operator %r in operator_to_magic_method' % (g.version, op, base),
                   key='augassign|%s' % op)
        for alt in g.alternatives('comp_op'):
            op = ' '.join(t[1:-1] for t in alt)
            if op == '<>':
                chk.assume("comp_op '<>' is a grammar alternative parso's tokenizer never emits as one token for Python 3 (triaged exception)")
                continue
            ok = op in cmp_keys or (op in ('in', 'not in') and op in str_consts)
            chk.ob('C01.e', ok, cmp_tbl, 'grammar %s comparison %r is a key of COMPARISON_OPERATORS or handled as in/not in' % (g.version, op),
                   key='comp_op|%s' % op)
    # (iv) _API_TYPES
    tnd = repo.cls('jedi.inference.names', 'TreeNameDefinition')
    at = tnd.attrs.get('_API_TYPES')
    ks = dict_keys(at.value) if at is not None else None
    chk.ob('C01.e', ks is not None, tnd.node, 'TreeNameDefinition._API_TYPES is a literal table')
    for k in ks or []:
        chk.ob('C01.e', k in def_types, at, '_API_TYPES key %r is a definition node type' % k, key='_API_TYPES|%s' % k)


# --------------------------------------------------------------------------------------- C01.f
CONTROL_EXC = {
    'SimpleGetItemNotFound': ('py__simple_getitem__', 'jedi.inference.helpers'),
    'ParamIssue': ('iterate_argument_clinic', 'jedi.inference.arguments'),
}


def _length_filtered(call):
    """`<vs>.filter(lambda v: ... and len(list(v.py__iter__())) > index).py__simple_getitem__(index)`:
    the receiver only holds sequences that are longer than the index, so the item exists."""
    if not (isinstance(call.func, ast.Attribute) and isinstance(call.func.value, ast.Call) and call_name(call.func.value) == 'filter'):
        return False
    flt = call.func.value
    if len(call.args) != 1 or not isinstance(call.args[0], ast.Name) or not flt.args or not isinstance(flt.args[0], ast.Lambda):
        return False
    idx = call.args[0].id
    for e, pol in atoms(flt.args[0].body, True):
        if pol and isinstance(e, ast.Compare) and len(e.ops) == 1 and isinstance(e.ops[0], ast.Gt) and \
                isinstance(e.left, ast.Call) and call_name(e.left) == 'len' and norm(e.comparators[0]) == idx:
            return True
    return False


def rule_f(repo, chk):
    chk.clause('C01.f', 'jedi\'s internal control-flow exceptions do not escape: every call of a protocol method that raises '
                        'SimpleGetItemNotFound / ParamIssue sits in a try catching it, or in another implementation of the same protocol method')
    for exc, (meth, modname) in sorted(CONTROL_EXC.items()):
        repo.find(modname, exc)
        sites = repo.calls_of(meth)
        n = 0
        for c in sites:
            f = repo.enclosing_func(c)
            if f is None:
                continue
            n += 1
            if f.name == meth or f.name == '_' + meth:
                chk.ob('C01.f', True, c, '`%s` delegates inside another %s (same protocol)' % (short(c, 50), meth))
                continue
            st = repo.enclosing_stmt(c)
            covered = False
            fn = f
            node = st
            # handlers in this function (nested defs: also lexically enclosing try blocks do NOT count)
            hs = [h for t in enclosing_handlers(node, fn) for h in t.handlers if handler_types(h) & {exc, 'Exception', 'BaseException', '*'}]
            covered = bool(hs)
            if not covered and meth == 'py__simple_getitem__':
                covered = _length_filtered(c)
            chk.ob('C01.f', covered, c, 'call `%s` is inside a try that catches %s' % (short(c, 55), exc),
                   '' if covered else '%s can escape from %s' % (exc, repo.qual_of(c)),
                   key='%s:%s|%s' % (c._mod.name, repo.qual_of(c), norm(c)))
        chk.floor('C01.f', n, 2, '(call sites of %s)' % meth)
    # wrappers that forward the protocol call by name
    chk.exhaustive_rules.append('C01.f every by-name call site of py__simple_getitem__ / iterate_argument_clinic')
    # executing an operator of the user's program on two literal VALUES (access.execute_operation: op(self._obj, other)) runs Python's own
    # arithmetic: besides TypeError that can be any ArithmeticError (an int literal too large for a float: OverflowError).  Every call of
    # the access-level execute_operation is inside a try that catches both.
    k = 0
    for c in repo.calls_of('execute_operation'):
        if not (isinstance(c.func, ast.Attribute) and 'access' in norm(c.func.value)):
            continue
        f = repo.enclosing_func(c)
        if f is None:
            continue
        k += 1
        caught = set()
        for t in enclosing_handlers(repo.enclosing_stmt(c), f):
            for h in t.handlers:
                caught |= handler_types(h)
        ok = bool(caught & {'Exception', 'BaseException', '*'}) or ('TypeError' in caught and bool(caught & {'ArithmeticError', 'OverflowError'}))
        chk.ob('C01.f', ok, c, 'evaluating an operator on literal values of the analysed program (`%s`) is contained: TypeError and ArithmeticError' % short(c, 50),
               'handlers around it catch: %s' % sorted(caught), key='literal-operation|%s' % repo.qual_of(c))
    chk.floor('C01.f', k, 1, '(calls of the access-level execute_operation)')


# --------------------------------------------------------------------------------------- C01.g
TRIAGED_NAV = {
    # (module, function, navigator call) -> reason the result cannot be None there
    ('jedi.api', 'Script.get_context', 'tree_name.get_definition()'):
        'tree_name is the name of a function/class context, i.e. the defining name of a funcdef/classdef',
    ('jedi.api', 'Script.infer', 'leaf.get_next_leaf()'):
        'leaf is an operator leaf; an operator is never the last leaf of a module (the endmarker follows)',
    ('jedi.api.classes', 'BaseName.get_definition_end_position', 'last_leaf.get_previous_leaf()'):
        'last_leaf is the trailing newline of a funcdef/classdef; the def keyword and name precede it',
    ('jedi.api.classes', 'BaseName.parent', 'self._name.tree_name.get_definition()'):
        'type in (function, class, param) is only reported when the name\'s definition node was found (TreeNameDefinition.api_type / import_from resolution)',
    ('jedi.api.completion', 'Completion._complete_python', 'dot.get_previous_leaf()'):
        'this branch requires the parser stack to end in a "." token, so a leaf precedes',
    ('jedi.api.completion', 'Completion._complete_python', 'leaf.get_previous_leaf()'):
        'this branch requires the parser stack to end in a "." token, so a leaf precedes the cursor leaf',
    ('jedi.api.refactoring', 'inline', 'tree_name.get_definition()'):
        'tree_name was selected by is_definition(), which is get_definition() is not None',
    ('jedi.api.refactoring', 'inline', 'expr_stmt.get_next_leaf()'):
        'an expr_stmt is always followed by a newline, a semicolon or the endmarker',
    # outside jedi/api
    ('jedi.inference.dynamic_params', '_get_potential_nodes', 'name.get_next_leaf()'):
        'a name leaf is never the last leaf of a module (the endmarker follows)',
    ('jedi.inference.finder', '_get_call_string', 'leaf.get_next_leaf()'):
        'the loop stays inside the node (start_pos < end of the node); a leaf inside an expression is followed at least by the endmarker',
    ('jedi.inference.imports', '_prepare_infer_import', "tree_name.search_ancestor('import_name', 'import_from')"):
        'only called for names whose definition is an import_name/import_from (callers dispatch on that type)',
    ('jedi.inference.names', 'StubNameMixin.py__doc__', 'self.tree_name.get_definition()'):
        'stub names come from stub filters, which only hold defining names',
    ('jedi.inference.star_args', '_iter_nodes_for_param', "param_name.tree_name.search_ancestor('funcdef', 'lambdef')"):
        'a parameter name always sits inside a funcdef or lambdef',
    ('jedi.inference.syntax_tree', 'tree_name_to_values', 'tree_name.get_previous_sibling()'):
        'branch for `except X as name`: the name is preceded by `as` and the exception expression',
    ('jedi.inference.syntax_tree', 'tree_name_to_values', 'tree_name.get_previous_sibling().get_previous_sibling()'):
        'branch for `except X as name`: the name is preceded by `as` and the exception expression',
    ('jedi.inference.value.instance', 'SelfAttributeFilter._is_in_right_scope', 'n.tree_name.get_definition()'):
        'guarded by n.api_type == \'param\': a parameter name is the defining name of its param node',
    ('jedi.inference.value.instance', '_BaseTreeInstance.create_instance_context', "new.search_ancestor('funcdef', 'classdef')"):
        'node lies inside the class: the climb reaches class_context.tree_node before it runs off the tree',
    ('jedi.inference.value.klass', 'get_dataclass_param_names', 'name.tree_name.get_definition()'):
        'the names come from the class body filter\'s values(), which are defining names',
}


def _nonnull_by_construction(repo, f, c):
    """why a navigator call cannot answer None, or None.  Known form: search_ancestor(...) that names every kind of node the search can
    start in: nodes handed out by get_yield_exprs(self.tree_node) of a function execution live in a funcdef or a lambdef."""
    if call_name(c) == 'search_ancestor' and all(isinstance(a, ast.Constant) for a in c.args):
        kinds = {a.value for a in c.args}
        comp = getattr(getattr(c, '_parent', None), '_parent', None)
        gen = comp.generators[0] if isinstance(comp, (ast.ListComp, ast.GeneratorExp, ast.SetComp)) and comp.generators else None
        if gen is not None and call_name(gen.iter) == 'get_yield_exprs' and {'funcdef', 'lambdef'} <= kinds:
            return 'every yield expression of a function execution has a funcdef or lambdef ancestor, both are searched for'
    return None


def rule_g(repo, chk):
    chk.clause('C01.g', 'in the whole package, a value obtained from a parso navigator that can return None (derived from parso\'s own source) is '
                        'dereferenced only under a dominating None test (or the site is triaged with the reason None is impossible)')
    navs = G.nullable_navigators()
    nav_names = set(navs) - {'binary_search', 'default', 'annotation', 'get_doc_node', 'get_super_arglist', 'get_corresponding_test_node'}
    want = {'get_previous_leaf', 'get_next_leaf', 'get_previous_sibling', 'get_next_sibling', 'search_ancestor',
            'get_name_of_position', 'get_leaf_for_position', 'get_definition'}
    chk.ob('C01.g', want <= nav_names, None, 'parso source confirms the navigators that may return None: %s' % sorted(nav_names),
           'missing: %s' % sorted(want - nav_names), key='navigators')
    chk.trust('parso %s tree.py / python/tree.py (navigator return analysis)' % G.parso_version())
    n_results = 0
    prefixes_nonnull = G.nonnull_when_kwarg_true('get_leaf_for_position', 'include_prefixes')
    chk.ob('C01.g', prefixes_nonnull, None, 'parso source: get_leaf_for_position(pos, include_prefixes=True) has no None return '
           '(every `return None` is under `not include_prefixes`)', key='nonnull-include_prefixes')
    for m in sorted(repo.modules.values(), key=lambda m: m.name):
        for q, f in sorted(m.defs.items()):
            if not isinstance(f, FUNC_TYPES):
                continue
            for c in calls_in(f, nav_names):
                if not isinstance(c.func, ast.Attribute):
                    continue
                n_results += 1
                if call_name(c) == 'get_leaf_for_position' and prefixes_nonnull:
                    ip = kwarg(c, 'include_prefixes')
                    if isinstance(ip, ast.Constant) and ip.value is True:
                        chk.ob('C01.g', True, c, '`%s` cannot return None (include_prefixes=True)' % short(c, 60))
                        continue
                p = getattr(c, '_parent', None)
                st = repo.enclosing_stmt(c)
                dkey = (m.name, q, norm(c))
                if dkey in TRIAGED_NAV:
                    chk.ob('C01.g', True, c, '`%s` cannot be None here: %s' % (short(c, 50), TRIAGED_NAV[dkey]))
                    continue
                # immediate dereference of the result
                if isinstance(p, (ast.Attribute, ast.Subscript)) and p.value is c or (isinstance(p, ast.Call) and p.func is c):
                    eafp = any(handler_types(h) & {'AttributeError', 'Exception', 'BaseException', '*'}
                               for t in enclosing_handlers(st, f) for h in t.handlers)
                    chk.ob('C01.g', eafp, p, 'result of `%s` (may be None) is dereferenced at once: `%s`%s' % (short(c, 40), short(p, 60),
                           ' inside try/except AttributeError' if eafp else ''), 'no None test possible', key='%s:%s|%s' % dkey)
                    continue
                # bound to a local?
                vars_ = []
                if isinstance(st, ast.Assign) and st.value is c and all(isinstance(t, ast.Name) for t in st.targets):
                    vars_ = [t.id for t in st.targets]          # a = b = nav(): both names hold the result
                elif isinstance(p, ast.NamedExpr) and p.value is c:
                    vars_ = [p.target.id]
                if not vars_:
                    # stored into a container (tuple/list element, comprehension element, append): the None test cannot be followed
                    # to the place where the element is unpacked and dereferenced, so the result has to be non-None by construction
                    if isinstance(p, (ast.Tuple, ast.List, ast.Set, ast.Dict)) or (isinstance(p, (ast.ListComp, ast.GeneratorExp, ast.SetComp)) and p.elt is c) \
                            or (isinstance(p, ast.Call) and call_name(p) in ('append', 'add', 'insert', 'extend') and c in p.args):
                        why = _nonnull_by_construction(repo, f, c)
                        chk.ob('C01.g', why is not None, c, 'result of `%s` (may be None) is stored in a container and unpacked elsewhere: it is never None by '
                               'construction%s' % (short(c, 60), (' (%s)' % why) if why else ''),
                               'no None test can follow the value through the container, and nothing makes None impossible', key='%s:%s|%s' % dkey)
                        continue
                    chk.ob('C01.g', True, c, 'result of `%s` is not dereferenced here (compared / returned / passed on)' % short(c, 50))
                    continue
                var = '/'.join(vars_)
                uses = []
                bad = []
                for v_ in vars_:
                    for u in derefs_of(f, v_):
                        uses.append(u)
                        w = none_safe(f, u, v_, st if isinstance(st, ast.Assign) else None)
                        if w is not None:
                            bad.append((u, w))
                if not bad:
                    chk.ob('C01.g', True, c, '`%s = %s`: every dereference of `%s` is None-guarded (%d uses)' % (var, short(c, 40), var, len(uses)))
                else:
                    u, w = bad[0]
                    chk.ob('C01.g', False, u, '`%s` dereferences `%s` (= %s, may be None) without a dominating None test (%d such uses)'
                           % (short(u, 50), var, short(c, 40), len(bad)), 'path: %s' % w, key='%s:%s|%s' % dkey)
    # regular-expression matches are the same kind of value
    n_re = 0
    for m in sorted(repo.modules.values(), key=lambda m: m.name):
        if not (m.name == 'jedi.api' or m.name.startswith('jedi.api.')):
            continue
        for q, f in sorted(m.defs.items()):
            if not isinstance(f, FUNC_TYPES):
                continue
            for c in calls_in(f, ('match', 'search', 'fullmatch')):
                r = repo.resolve(c.func)
                is_re = r in ('re.match', 're.search', 're.fullmatch')
                if not is_re and isinstance(c.func, ast.Attribute):
                    rb = repo.resolve(c.func.value)
                    d = None
                    if rb and rb.startswith(m.name + '.'):
                        d = m.top.get(rb.split('.')[-1])
                    is_re = isinstance(d, ast.Assign) and isinstance(d.value, ast.Call) and repo.resolve(d.value.func) == 're.compile'
                if not is_re:
                    continue
                n_re += 1
                p = getattr(c, '_parent', None)
                st = repo.enclosing_stmt(c)
                if isinstance(p, ast.Attribute) and p.value is c:
                    pat = c.args[0] if c.args else None
                    always = isinstance(pat, ast.Constant) and isinstance(pat.value, str) and (pat.value.endswith('|$') or pat.value.endswith('|'))
                    chk.ob('C01.g', always, p, 'regex result of `%s` is dereferenced at once; the pattern has an always-matching alternative' % short(c, 50),
                           'the match may be None', key='%s:%s|%s' % (m.name, q, norm(c)))
                    continue
                var = None
                if isinstance(st, ast.Assign) and st.value is c and len(st.targets) == 1 and isinstance(st.targets[0], ast.Name):
                    var = st.targets[0].id
                if var is None:
                    chk.ob('C01.g', True, c, 'regex result of `%s` is only tested / passed on' % short(c, 50))
                    continue
                bad = [(u, w) for u in derefs_of(f, var) for w in [none_safe(f, u, var, st)] if w is not None]
                if not bad:
                    chk.ob('C01.g', True, c, '`%s = %s`: every use of the match object is None-guarded' % (var, short(c, 40)))
                else:
                    u, w = bad[0]
                    chk.ob('C01.g', False, u, '`%s` uses regex result `%s` (= %s, None when nothing matches) without a None test' % (short(u, 40), var, short(c, 40)),
                           'path: %s' % w, key='%s:%s|%s' % (m.name, q, norm(c)))
    chk.floor('C01.g', n_re, 4, '(regex match results in jedi/api)')
    chk.floor('C01.g', n_results, 60, '(navigator results in the package)')
    chk.notes['navigator_results'] = n_results


def rule_h(repo, chk):
    chk.clause('C01.h', 'sibling interface: every root (module-like) context class provides what the result wrappers in jedi/api read from '
                        '`get_root_context()` / the module context (code_lines, py__file__, string_names, is_stub, is_builtins_module, py__name__, get_value)')
    base = repo.cls('jedi.inference.context', 'AbstractContext')
    # what api/classes.py and api/__init__.py read from a root context
    used = set()
    for modname in ('jedi.api.classes', 'jedi.api', 'jedi.api.completion', 'jedi.api.helpers'):
        for x in ast.walk(repo.module(modname).tree):
            if isinstance(x, ast.Attribute) and isinstance(x.value, ast.Call) and call_name(x.value) in ('get_root_context', '_get_module_context'):
                used.add(x.attr)
    used -= {'create_context', 'create_name', 'create_value', 'tree_node', 'inference_state', 'get_filters', 'is_compiled', 'as_context'}
    chk.floor('C01.h', len(used), 3, '(attributes read from root contexts)')
    chk.notes['root_context_attributes_used'] = sorted(used)
    n = 0
    for ci in [base] + repo.subclasses(base):
        nm = ci.node.name
        if not ('Module' in nm or 'Namespace' in nm) or nm.startswith('Abstract'):
            continue
        n += 1
        have = {a for c in repo.mro(ci) for a in list(c.methods) + list(c.attrs)}
        # annotations without value on the class (declared, not defined) do not count
        missing = sorted(a for a in used if a not in have)
        chk.ob('C01.h', not missing, ci.node, 'root context class %s defines everything the API wrappers read (%s)' % (ci.qual, ', '.join(sorted(used))),
               'missing: %s' % missing, key='root-context|%s' % ci.key)
    chk.floor('C01.h', n, 5, '(root context classes)')


def rule_i(repo, chk):
    chk.clause('C01.i', 'evaluating literals of the analysed source cannot raise: every call of ast.literal_eval sits in a try that catches '
                        'SyntaxError and ValueError (parso tokenises literals such as "\\x" that Python rejects); what reaches inspect.cleandoc is a str')
    n = 0
    for c in repo.all_calls():
        if repo.resolve(c.func) == 'ast.literal_eval':
            n += 1
            f = repo.enclosing_func(c)
            st = repo.enclosing_stmt(c)
            caught = set()
            for t in enclosing_handlers(st, f) if f is not None else []:
                for h in t.handlers:
                    caught |= handler_types(h)
            ok = bool(caught & {'Exception', 'BaseException', '*'}) or {'SyntaxError', 'ValueError'} <= caught
            chk.ob('C01.i', ok, c, '`%s` is guarded against SyntaxError and ValueError' % short(c, 40), 'handlers around it catch: %s' % sorted(caught))
    chk.floor('C01.i', n, 1, '(literal_eval call sites)')
    # the same for any other conversion of the literal's TEXT inside safe_literal_eval (int()/float()/complex() raise ValueError, e.g. for
    # more than 4300 digits, where literal_eval answers with a SyntaxError that the handler knows)
    sl = repo.find('jedi.parser_utils', 'safe_literal_eval')
    for c in calls_in(sl):
        if isinstance(c.func, ast.Name) and c.func.id in ('int', 'float', 'complex', 'eval', 'bytes', 'bytearray') and c.args and 'value' in norm(c.args[0]):
            st = repo.enclosing_stmt(c)
            caught = set()
            for t in enclosing_handlers(st, sl):
                for h in t.handlers:
                    caught |= handler_types(h)
            ok = bool(caught & {'Exception', 'BaseException', '*', 'ValueError'})
            chk.ob('C01.i', ok, c, 'the conversion `%s` of the literal\'s text is guarded against ValueError' % short(c, 40), 'handlers around it catch: %s' % sorted(caught),
                   key='literal-conversion|%s' % norm(c))
    for c in repo.all_calls():
        if repo.resolve(c.func) == 'inspect.cleandoc' and c._mod.name == 'jedi.parser_utils':
            f = repo.enclosing_func(c)
            a = c.args[0] if c.args else None
            w = gate(f, c, lambda e, pol: (pol and isinstance(e, ast.Call) and call_name(e) == 'isinstance' and norm(e.args[0]) == norm(a) and norm(e.args[1]) == 'str')
                     or ((not pol) and isinstance(e, ast.UnaryOp))) if a is not None else 'no argument'
            # `if not isinstance(doc, str): return ''` appears as test isinstance(...) with the False edge leaving
            chk.ob('C01.i', w is None, c, 'inspect.cleandoc receives a str (a bytes literal in docstring position is not a docstring)', w or '')


def thorough(repo, chk):
    rule_e(repo, chk, all_versions=True)


def describe(chk):
    chk.undecided('totality itself: that no input crashes ~15 kLoC of duck-typed inference code; attributes of result objects beyond the '
                  'None-discipline of tree_name/start_pos; RecursionError (see C15)')
    chk.assume('a navigator result handed to another function is that function\'s obligation only if it lives in jedi/api (by-name rule), '
               'parameters are not tracked')


TRIAGED_SIBLINGS = {
    # (module, function, call) -> why the neighbourhood of the node is known although no type test dominates the call
    ('jedi.api.file_name', '_add_os_path_join', 'searched_node.children.index(searched_node_child)'):
        'searched_node is the parent the preceding while-loop stopped at: its type is one of arglist/trailer/error_node and every use below '
        'is under a test of searched_node.type',
    ('jedi.inference.context', 'TreeContextMixin.create_context.from_scope_node', "sync_comp_for.children.index('in')"):
        'the branch is entered for scope_node.type in (comp_for, sync_comp_for) only; a comp_for node exists only as [async, sync_comp_for] '
        '(grammar: comp_for: [async] sync_comp_for - without `async` parso hands out the sync_comp_for itself), and the local is replaced by '
        'that child under a test of its type, so it is a sync_comp_for: `for` exprlist `in` or_test [comp_iter] (checked by C01.r for the '
        'direct form; the pre-repair form `scope_node.children.index(\'in\')` is what C01.r reports)',
    ('jedi.inference.value.dynamic_arrays', '_internal_check_array_additions', 'power.children.index(trailer)'):
        'the neighbour is fetched under try/except IndexError and its type and first child are tested before use',
}


INFER_ENTRY = {'infer_node', 'infer_call_of_leaf', 'infer_trailer', 'infer_atom', 'infer_expr_stmt'}
TRIAGED_POSITIONAL = {
    ('jedi.inference.syntax_tree', '_apply_decorators', 'context.infer_node(dec.children[1])'):
        '`dec` comes from get_decorators(): decorator nodes by construction (parso/python/tree.py), children[1] is the decorator expression',
}


def _typed_by_origin(repo, f, var, use, depth=0):
    """is the node held in local/parameter `var` of a known type by the way it was obtained: the result of
    search_ancestor(<type names>), or a parameter that every call site fills with such a value / a positively tested one?"""
    if not var.isidentifier():
        return False
    defs = [a for a in stmts_in(f, ast.Assign) if any(isinstance(t, ast.Name) and t.id == var for t in a.targets)]
    if defs:
        return all(isinstance(a.value, ast.Call) and call_name(a.value) == 'search_ancestor' and a.value.args
                   and all(isinstance(x, ast.Constant) for x in a.value.args) for a in defs)
    if var in params(f) and depth < 1:
        idx = params(f).index(var)
        sites = [c for c in repo.calls_of(f.name) if repo.enclosing_func(c) is not None]
        if not sites:
            return False
        for c in sites:
            if idx >= len(c.args) or not isinstance(c.args[idx], ast.Name):
                return False
            g = repo.enclosing_func(c)
            a = c.args[idx].id
            if gate(g, c, _positive_type_test(g, {a})) is None:
                continue
            if not _typed_by_origin(repo, g, a, c, depth + 1):
                return False
        return True
    return False


def _operands_type_tested(repo, f):
    """every sibling handed out by the walk in front of a '+' has passed a type test that excludes operators and keywords"""
    ys = [y for y in own_nodes(f) if isinstance(y, ast.Yield)]
    if not ys:
        return 'no yield found'

    def acc(e, pol):
        if not (isinstance(e, ast.Compare) and len(e.ops) == 1 and isinstance(e.left, ast.Attribute) and e.left.attr == 'type'):
            return False
        vals = e.comparators[0]
        vals = {x.value for x in vals.elts if isinstance(x, ast.Constant)} if isinstance(vals, (ast.Tuple, ast.List, ast.Set)) else \
            ({vals.value} if isinstance(vals, ast.Constant) else set())
        if isinstance(e.ops[0], (ast.In, ast.Eq)) and not pol:
            return {'operator', 'keyword'} <= vals
        if isinstance(e.ops[0], (ast.NotIn, ast.NotEq)) and pol:
            return {'operator', 'keyword'} <= vals
        if isinstance(e.ops[0], (ast.In, ast.Eq)) and pol:
            return bool(vals) and not (vals & {'operator', 'keyword', 'error_node', 'error_leaf'})
        return False
    for y in ys:
        if norm(y.value) != 'child_node' and not isinstance(y.value, ast.Name):
            continue
        w = gate(f, y, lambda e, pol, y=y: acc(e, pol) and norm(e.left.value) == norm(y.value))
        if w is not None:
            return 'an untested sibling is handed to infer_node: %s' % w
    return None


CHECKED_SIBLINGS = {
    ('jedi.api.file_name', '_get_string_additions.iterate_nodes', 'node.children.index(addition)'):
        ('the parent of the `+` may be an error_node, so each sibling is type-tested before it is yielded as an operand (operators and '
         'keywords end the walk: a unary plus adds nothing)', _operands_type_tested),
}


def _positive_type_test(func, exprs):
    alias = {}
    for a in stmts_in(func, ast.Assign):
        if isinstance(a.value, ast.Attribute) and a.value.attr == 'type' and len(a.targets) == 1 and isinstance(a.targets[0], ast.Name):
            alias[a.targets[0].id] = norm(a.value.value)

    def accept(e, pol):
        if not (isinstance(e, ast.Compare) and len(e.ops) == 1):
            return False
        left = e.left
        subject = None
        if isinstance(left, ast.Attribute) and left.attr == 'type':
            subject = norm(left.value)
        elif isinstance(left, ast.Name) and left.id in alias:
            subject = alias[left.id]
        if subject not in exprs:
            return False
        op = e.ops[0]
        return bool((isinstance(op, (ast.Eq, ast.In)) and pol) or (isinstance(op, (ast.NotEq, ast.NotIn)) and not pol))
    return accept


def _type_facts(func, call, exprs):
    """positive type knowledge about one of `exprs` (normalised texts) that dominates `call`: tests of <e>.type (or of a local that
    holds <e>.type) with == / in taken true, or != / not in taken false"""
    alias = {}
    for a in stmts_in(func, ast.Assign):
        if isinstance(a.value, ast.Attribute) and a.value.attr == 'type' and len(a.targets) == 1 and isinstance(a.targets[0], ast.Name):
            alias[a.targets[0].id] = norm(a.value.value)
    out = []
    for e, pol in dominating_facts(func, call):
        if not (isinstance(e, ast.Compare) and len(e.ops) == 1):
            continue
        left = e.left
        subject = None
        if isinstance(left, ast.Attribute) and left.attr == 'type':
            subject = norm(left.value)
        elif isinstance(left, ast.Name) and left.id in alias:
            subject = alias[left.id]
        if subject not in exprs:
            continue
        op = e.ops[0]
        if (isinstance(op, (ast.Eq, ast.In)) and pol) or (isinstance(op, (ast.NotEq, ast.NotIn)) and not pol):
            out.append('%s %s' % (norm(e), 'holds' if pol else 'is false'))
    return out


def rule_j(repo, chk):
    chk.clause('C01.j', 'sibling arithmetic: wherever the position of a node among its parent\'s children is computed (P.children.index(X)) to reach '
                        'its neighbours, the type of X or P has been established POSITIVELY on every path (== / in; a `!=` test leaves error_node '
                        'and every other type open, and error recovery can put a node under an error_node whose children follow no grammar '
                        'rule) - or the site is triaged with the reason the neighbourhood is known')
    n = 0
    for m in sorted(repo.modules.values(), key=lambda m: m.name):
        for q, f in sorted(m.defs.items()):
            if not isinstance(f, FUNC_TYPES):
                continue
            for c in own_nodes(f):
                if not (isinstance(c, ast.Call) and isinstance(c.func, ast.Attribute) and c.func.attr == 'index' and isinstance(c.func.value, ast.Attribute)
                        and c.func.value.attr == 'children' and len(c.args) == 1):
                    continue
                if isinstance(c.args[0], ast.Constant):
                    x = None            # position of a token (':'), the parent's type is what matters
                else:
                    x = norm(c.args[0])
                par = norm(c.func.value.value)
                n += 1
                key = (m.name, q.split('.')[-1] if False else q, norm(c))
                tk = (m.name, q, norm(c))
                if tk in TRIAGED_SIBLINGS:
                    chk.ob('C01.j', True, c, '`%s`: triaged (%s)' % (short(c, 50), TRIAGED_SIBLINGS[tk]))
                    continue
                if tk in CHECKED_SIBLINGS:
                    why, fn = CHECKED_SIBLINGS[tk]
                    w = fn(repo, f)
                    chk.ob('C01.j', w is None, c, '`%s`: %s' % (short(c, 50), why), w or '', key='siblings|%s:%s|%s' % tk)
                    continue
                exprs = {par}
                if x is not None:
                    exprs.add(x)
                    if par == x + '.parent':
                        pass
                facts = _type_facts(f, c, exprs)
                if not facts and gate(f, c, _positive_type_test(f, exprs)) is None:
                    facts = ['one of several positive type tests on every path']
                chk.ob('C01.j', bool(facts), c, 'the neighbours reached through `%s` in %s are those of a node whose type is known (%s)' % (short(c, 50), q, '; '.join(facts) or '-'),
                       '' if facts else 'no positive type test of %s dominates the call: under an error_node (or any unforeseen parent) the siblings are arbitrary nodes' % ' / '.join(sorted(exprs)),
                       key='siblings|%s:%s|%s' % tk)
    chk.floor('C01.j', n, 8, '(children.index sites)')
    # a child taken BY POSITION and handed to the inference entry points: the parent's type must be known positively (under an
    # error_node the first child may be `return`, `x`, `=` ...: infer_node asserts on keywords and operators)
    k = 0
    for m in sorted(repo.modules.values(), key=lambda m: m.name):
        for q, f in sorted(m.defs.items()):
            if not isinstance(f, FUNC_TYPES):
                continue
            for c in own_nodes(f):
                if not (isinstance(c, ast.Call) and call_name(c) in INFER_ENTRY):
                    continue
                for a in c.args:
                    if isinstance(a, ast.Subscript) and isinstance(a.value, ast.Attribute) and a.value.attr == 'children' and not isinstance(a.slice, ast.Slice):
                        par = norm(a.value.value)
                        k += 1
                        tk = (m.name, q, norm(c))
                        if tk in TRIAGED_POSITIONAL:
                            chk.ob('C01.j', True, c, '`%s`: triaged (%s)' % (short(c, 60), TRIAGED_POSITIONAL[tk]))
                            continue
                        w = gate(f, c, _positive_type_test(f, {par}))
                        if w is not None and _typed_by_origin(repo, f, par, c):
                            w = None
                        chk.ob('C01.j', w is None, c, '`%s` in %s infers a child by position of a node whose type is known' % (short(c, 60), q),
                               'no positive test of %s.type on the path: %s' % (par, w) if w else '', key='positional|%s:%s|%s' % tk)
    chk.floor('C01.j', k, 8, '(children taken by position and inferred)')


TRIAGED_OWN_NULLABLE = {
    ('jedi.api', 'Script.get_context', 'definition', 'parent'):
        'the climb stops at type == \'module\' (loop condition) and every definition on the way is the value name of a class/function '
        'context, for which parent() has a context to answer with (C18.b/c)',
    ('jedi.inference.dynamic_params', '_search_function_arguments', 'cls', 'get_parent_scope'):
        'get_parent_scope() answers None only for the file_input node itself; its argument here is a funcdef',
}


def _own_nullable_functions(repo):
    """functions of the package (not generators) that return None on some path and something else on another, keyed by simple name when
    that name is unique among them: name -> (module, qual, positions) with positions = {None} for the whole value and/or tuple indices
    that are the constant None in some return"""
    found = {}
    for m in repo.modules.values():
        for q, f in m.defs.items():
            if not isinstance(f, FUNC_TYPES):
                continue
            if any(isinstance(x, (ast.Yield, ast.YieldFrom)) for x in own_nodes(f)):
                continue
            pos, other = set(), False
            for r in stmts_in(f, ast.Return):
                v = r.value
                if v is None or (isinstance(v, ast.Constant) and v.value is None):
                    pos.add(None)
                elif isinstance(v, ast.Tuple):
                    other = True
                    for i_, e in enumerate(v.elts):
                        if isinstance(e, ast.Constant) and e.value is None:
                            pos.add(i_)
                else:
                    other = True
            if pos and other:
                found.setdefault(f.name, []).append((m.name, q, pos))
    return {k: v[0] for k, v in found.items() if len(v) == 1}


def rule_k(repo, chk):
    chk.clause('C01.k', 'the None rule for jedi\'s own functions: a function of the package that returns None on one path and a value on another '
                        '(derived on every run; also per tuple position: `return None, False`) has its result dereferenced only under a '
                        'dominating None test, package-wide (or the site is triaged with the reason None is impossible there)')
    own = _own_nullable_functions(repo)
    chk.floor('C01.k', len(own), 30, '(nullable functions with a unique name)')
    n = 0
    for m in sorted(repo.modules.values(), key=lambda m: m.name):
        for q, f in sorted(m.defs.items()):
            if not isinstance(f, FUNC_TYPES):
                continue
            for a in stmts_in(f, ast.Assign):
                if not isinstance(a.value, ast.Call):
                    continue
                cn = call_name(a.value)
                if cn not in own:
                    continue
                _, qq, pos = own[cn]
                t = a.targets[0]
                vars_ = []
                if isinstance(t, ast.Name) and None in pos:
                    vars_ = [t.id]
                elif isinstance(t, ast.Tuple):
                    vars_ = [e.id for i_, e in enumerate(t.elts) if i_ in pos and isinstance(e, ast.Name)]
                for v in vars_:
                    for u in derefs_of(f, v):
                        n += 1
                        tk = (m.name, q, v, cn)
                        if tk in TRIAGED_OWN_NULLABLE:
                            chk.ob('C01.k', True, u, '`%s` (from %s()) cannot be None here: %s' % (short(u, 40), cn, TRIAGED_OWN_NULLABLE[tk]))
                            continue
                        w = none_safe(f, u, v, def_stmt=a)
                        chk.ob('C01.k', w is None, u, '`%s`: the result of %s() (None on some path of %s) is dereferenced under a None test' % (short(u, 40), cn, qq),
                               'path without a test: %s' % w if w else '', key='own-nullable|%s:%s|%s|%s' % (m.name, q, cn, norm(u)))
    chk.floor('C01.k', n, 30, '(dereferences of results of nullable package functions)')


TRIAGED_UNBOUND = {
    # (module, function, variable) -> why the read cannot happen before a binding although a path of the CFG says so
    ('jedi.api.refactoring.extract', 'extract_function', 'output_var_str'):
        'bound under `not has_ending_return_stmt` in the statement branch and read under the same two tests (has_ending_return_stmt has '
        'two bindings, one per branch of `if is_expression`, so the correlation is not derived automatically)',
    ('jedi.inference.filters', 'SpecialMethodFilter.SpecialMethodName.infer', 'builtin_func'):
        'belief: SpecialMethodName objects are only created for names taken from the builtin class\'s own method table, so one filter has the name',
    ('jedi.inference.gradual.conversion', '_stub_to_python_value_set', 'arguments'):
        'read under `was_instance`, which is true only after one of the two branches that bind `arguments` ran (the second sets was_instance = True)',
    ('jedi.inference.imports', 'import_module_by_names', 'value_set'):
        'import_names is never empty: Importer.follow returns early for an empty import_path and the other callers pass literal tuples',
    ('jedi.inference.value.iterable', 'comprehension_from_atom', 'cls'):
        'the bracket of an atom that holds a comprehension is one of { ( [ (python grammar: atom)',
}


def rule_l(repo, chk):
    chk.clause('C01.l', 'no read of a possibly unbound local (UnboundLocalError is an internal exception): in every function of the package, each '
                        'read of a local is dominated by a binding on all non-exceptional paths from the entry, with same-text tests taken '
                        'consistently; a read inside `try: ... except (UnboundLocalError|NameError|Exception)` is the EAFP form; the rest is triaged')
    from ..lib import possibly_unbound
    n = 0
    nf = 0
    for m in sorted(repo.modules.values(), key=lambda m: m.name):
        for q, f in sorted(m.defs.items()):
            if not isinstance(f, FUNC_TYPES):
                continue
            nf += 1
            seen = set()
            for node, name, w in possibly_unbound(f):
                if (name) in seen:
                    continue
                st = node.ast
                if isinstance(st, ast.stmt) and any(handler_types(h) & {'UnboundLocalError', 'NameError', 'Exception', 'BaseException', '*'}
                                                    for t in enclosing_handlers(st, f) for h in t.handlers):
                    continue
                seen.add(name)
                n += 1
                tk = (m.name, q, name)
                if tk in TRIAGED_UNBOUND:
                    chk.ob('C01.l', True, st, '`%s` in %s: triaged (%s)' % (name, q, TRIAGED_UNBOUND[tk]))
                    continue
                chk.ob('C01.l', False, st, 'local `%s` of %s is bound on every path to this read' % (name, q), 'path without a binding: %s' % w,
                       key='unbound|%s:%s|%s' % tk)
    chk.floor('C01.l', nf, 1500, '(functions analysed)')
    chk.notes['C01.l candidate reads examined'] = n
    chk.exhaustive_rules.append('C01.l every function of the package')


TRIAGED_EMPTY = {
    # (module, function, variable) -> why the sliced/filtered list cannot be empty where it is indexed (read by hand, confirmed by an
    # independent search for witnesses that found none; file_name._add_os_path_join was the one genuine case, fixed in the repo)
    ('jedi.api.helpers', '_get_code', 'lines'):
        'start_pos/end_pos are positions of a statement that starts at or before the validated cursor line: the slice holds at least that line',
    ('jedi.api.helpers', '_iter_arguments', 'nodes_before'):
        'the opening bracket is always among `nodes` and starts before the position (either bracket.start <= leaf.start < position, or '
        'the error-node path requires bracket.end_pos <= position)',
    ('jedi.api.helpers', '_get_index_and_key', 'nodes_before'):
        'as _iter_arguments (and the function has no caller: CallDetails.index/keyword_name_str use _iter_arguments)',
    ('jedi.api.refactoring.extract', '_remove_unwanted_expression_nodes', 'nodes'):
        'start_index <= end_index: both default to the whole node and are only moved to children that overlap the range',
    ('jedi.inference.helpers', 'infer_call_of_leaf', 'trailers'):
        'atom_expr: [await] atom trailer*: behind `await` stands the atom, so cut >= 2 and the slice holds it; in an error node `await` is '
        'never directly followed by a trailer',
    ('jedi.inference.imports', 'follow_error_node_imports_if_possible', 'nodes'):
        'a `;` only moves start_index while it starts before the name, so the child that contains the name stays in the slice',
    ('jedi.inference.names', 'AbstractTreeName.goto', 'to_infer'):
        'the node is a trailer (C01.j): a trailer is never the first child of its parent (atom_expr: atom trailer+; error nodes keep the atom)',
    ('jedi.inference.gradual.conversion', '_stub_to_python_value_set', 'qualified_names'):
        'only reached for bound methods, whose qualified names end with the method\'s own name (at least one entry)',
    ('jedi.inference.gradual.conversion', 'to_stub', 'qualified_names'):
        'only reached for bound methods, whose qualified names end with the method\'s own name (at least one entry)',
}


def rule_m(repo, chk):
    chk.clause('C01.m', 'no constant index into a possibly empty list: a local bound to a slice (x[a:b]) or to a filtering comprehension and then '
                        'indexed with a constant ([0], [-1], [-2]) is indexed only under a truth/len test of that local, package-wide (or the '
                        'function/variable is triaged with the reason the list cannot be empty)')
    n = 0
    for m in sorted(repo.modules.values(), key=lambda m: m.name):
        for q, f in sorted(m.defs.items()):
            if not isinstance(f, FUNC_TYPES):
                continue
            maybe_empty = {}
            for a in stmts_in(f, ast.Assign):
                v = a.value
                if (isinstance(v, ast.Subscript) and isinstance(v.slice, ast.Slice)) or (isinstance(v, ast.ListComp) and any(g.ifs for g in v.generators)):
                    for t in a.targets:
                        if isinstance(t, ast.Name):
                            maybe_empty[t.id] = a
            if not maybe_empty:
                continue
            done = set()
            for x in own_nodes(f):
                if not (isinstance(x, ast.Subscript) and isinstance(x.ctx, ast.Load) and isinstance(x.value, ast.Name) and x.value.id in maybe_empty):
                    continue
                idx = x.slice
                if not (isinstance(idx, ast.Constant) or (isinstance(idx, ast.UnaryOp) and isinstance(idx.operand, ast.Constant))):
                    continue
                name = x.value.id
                n += 1

                def acc(e, pol, name=name):
                    if isinstance(e, ast.Name) and e.id == name:
                        return pol
                    if isinstance(e, ast.Compare) and ('len(%s)' % name) in norm(e):
                        return True
                    return False
                w = gate(f, x, acc)
                if w is None:
                    chk.ob('C01.m', True, x, '`%s` is indexed under a truth/len test of `%s`' % (short(x), name))
                    continue
                tk = (m.name, q, name)
                if tk in done:
                    continue
                done.add(tk)
                if tk in TRIAGED_EMPTY:
                    chk.ob('C01.m', True, x, '`%s` in %s: triaged (%s)' % (short(x), q, TRIAGED_EMPTY[tk]))
                    continue
                chk.ob('C01.m', False, x, '`%s` in %s indexes a list that was made by `%s` and may be empty' % (short(x), q, short(maybe_empty[name].value, 50)),
                       'no truth/len test of `%s` on the path: %s' % (name, w), key='empty-index|%s:%s|%s' % tk)
    chk.floor('C01.m', n, 15, '(constant indices into sliced/filtered locals)')


def _is_bracket_content(e):
    """an expression that denotes what stands between the brackets of a call: <arglist>.children[k], <trailer>.children[1], or a
    slice/element of a variable named like an argument list"""
    if isinstance(e, ast.Subscript):
        v = e.value
        if isinstance(v, ast.Attribute) and v.attr == 'children':
            base = norm(v.value).lower()
            if 'arglist' in base:
                return True
            if 'trailer' in base and isinstance(e.slice, ast.Constant) and e.slice.value == 1:
                return True
        if isinstance(v, ast.Name) and 'arglist' in v.id.lower():
            return True
    if isinstance(e, ast.Name) and 'arglist_nodes' in e.id.lower():
        return True
    return False


def _tainted_vars(f, seeds):
    """locals of f that hold bracket content: seeds (names), plus assignment/iteration closure"""
    t = set(seeds)
    changed = True
    while changed:
        changed = False
        for n in own_nodes(f):
            tgt, src = None, None
            if isinstance(n, ast.Assign) and len(n.targets) == 1 and isinstance(n.targets[0], ast.Name):
                tgt, src = n.targets[0].id, n.value
            elif isinstance(n, (ast.For, ast.comprehension)) and isinstance(n.target, ast.Name):
                tgt, src = n.target.id, n.iter
            if tgt is None or tgt in t:
                continue
            root = src
            while isinstance(root, ast.Subscript) and not _is_bracket_content(root):
                root = root.value
            if _is_bracket_content(root) or (isinstance(root, ast.Name) and root.id in t) or \
                    (isinstance(src, ast.Subscript) and isinstance(src.value, ast.Attribute) and src.value.attr == 'children'
                     and isinstance(src.value.value, ast.Name) and src.value.value.id in t):
                t.add(tgt)
                changed = True
    return t


def rule_n(repo, chk):
    chk.clause('C01.n', 'what stands between the brackets of a call is not always an expression: an element of an arglist / the content of a '
                        'trailer can be an `argument` node (*args, key=value, a generator) or a whole arglist.  Wherever such a node reaches '
                        'infer_node/infer_call_of_leaf (directly, through locals, loops, or one call into a package function), a test of its '
                        '.type that excludes `argument`/`arglist` dominates the call')
    sinks = {'infer_node', 'infer_call_of_leaf'}
    n = 0
    # one level of calls: package functions that receive bracket content as an argument
    param_seeds = {}
    for _round in range(3):         # calls into package functions, up to three levels
        grew = False
        for m in repo.modules.values():
            for q, f in m.defs.items():
                if not isinstance(f, FUNC_TYPES):
                    continue
                tv = _tainted_vars(f, param_seeds.get(id(f), (None, set()))[1])
                for c in own_nodes(f):
                    if isinstance(c, ast.Call) and call_name(c) not in sinks:
                        d = None
                        if isinstance(c.func, ast.Name):
                            # a function nested in f or in an enclosing function, else a module-level one
                            parts = q.split('.')
                            for k in range(len(parts), -1, -1):
                                cand = m.defs.get('.'.join(parts[:k] + [c.func.id]))
                                if isinstance(cand, FUNC_TYPES):
                                    d = cand
                                    break
                        if d is None:
                            r = repo.resolve(c.func)
                            d = repo.def_by_dotted(r) if r else None
                        if d is None or not isinstance(d, FUNC_TYPES):
                            continue
                        ps = params(d)
                        for i_, a in enumerate(c.args):
                            root = a
                            while isinstance(root, ast.Subscript) and not _is_bracket_content(root):
                                root = root.value
                            if (_is_bracket_content(root) or (isinstance(root, ast.Name) and root.id in tv)) and i_ < len(ps):
                                cur = param_seeds.setdefault(id(d), (d, set()))[1]
                                if ps[i_] not in cur:
                                    cur.add(ps[i_])
                                    grew = True
        if not grew:
            break
    for m in sorted(repo.modules.values(), key=lambda m: m.name):
        for q, f in sorted(m.defs.items()):
            if not isinstance(f, FUNC_TYPES):
                continue
            seeds = param_seeds.get(id(f), (None, set()))[1]
            tv = _tainted_vars(f, seeds)
            for c in own_nodes(f):
                if not (isinstance(c, ast.Call) and call_name(c) in sinks and c.args):
                    continue
                a = c.args[-1] if call_name(c) == 'infer_node' else (c.args[1] if len(c.args) > 1 else c.args[-1])
                tainted = _is_bracket_content(a) or (isinstance(a, ast.Name) and a.id in tv)
                if not tainted:
                    continue
                if isinstance(a, ast.Subscript) and isinstance(a.value, ast.Attribute):
                    # `<x>.children[1]` of a node known to be a decorator is the decorator expression, not bracket content
                    holder = norm(a.value.value)
                    facts = _type_facts(f, c, {holder})
                    if any("'decorator'" in t_ for t_ in facts):
                        continue
                n += 1
                subj = norm(a)

                def acc(e, pol, subj=subj):
                    if not (isinstance(e, ast.Compare) and len(e.ops) == 1 and isinstance(e.left, ast.Attribute) and e.left.attr == 'type'
                            and norm(e.left.value) == subj):
                        return False
                    cmp_ = e.comparators[0]
                    vals = {v.value for v in cmp_.elts if isinstance(v, ast.Constant)} if isinstance(cmp_, (ast.Tuple, ast.List, ast.Set)) else \
                        ({cmp_.value} if isinstance(cmp_, ast.Constant) else set())
                    op = e.ops[0]
                    if isinstance(op, (ast.Eq, ast.In)):
                        return (not pol and 'argument' in vals) or (pol and not (vals & {'argument', 'arglist'}))
                    if isinstance(op, (ast.NotEq, ast.NotIn)):
                        return (pol and 'argument' in vals) or (not pol and not (vals & {'argument', 'arglist'}))
                    return False
                w = gate(f, c, acc)
                chk.ob('C01.n', w is None, c, '`%s` in %s: the node taken from between call brackets is tested not to be an `argument` before it is inferred' % (short(c, 50), q),
                       'an argument node (*args, key=value, generator) reaches the inference entry point, which asserts on its operator: %s' % w if w else '',
                       key='bracket-content|%s:%s|%s' % (m.name, q, norm(c)))
    chk.floor('C01.n', n, 2, '(bracket content handed to the inference entry points)')


def rule_o(repo, chk):
    chk.clause('C01.o', 'sibling interface of parameter names: every method the documented wrapper api.classes.ParamName calls on the name it '
                        'wraps (self._name.<m>()) is defined for every class of the ParamNameInterface family (signatures hand out tree, '
                        'compiled, synthetic and unresolvable parameter names alike: an AttributeError there leaks out of a documented method)')
    api = repo.cls('jedi.api.classes', 'ParamName')
    used = set()
    for fn in api.methods.values():
        for x in own_nodes(fn):
            if isinstance(x, ast.Call) and isinstance(x.func, ast.Attribute) and norm(x.func.value) == 'self._name':
                used.add(x.func.attr)
    chk.floor('C01.o', len(used), 4, '(methods ParamName calls on the wrapped name)')
    base = repo.cls('jedi.inference.names', 'ParamNameInterface')
    n = 0
    for ci in [base] + repo.subclasses(base):
        n += 1
        have = {a for c in repo.mro(ci) for a in list(c.methods) + list(c.attrs)}
        missing = sorted(a for a in used if a not in have)
        chk.ob('C01.o', not missing, ci.node, 'parameter name class %s provides %s' % (ci.qual, ', '.join(sorted(used))), 'missing: %s' % missing,
               key='param-interface|%s' % ci.key)
    chk.floor('C01.o', n, 6, '(classes of the ParamNameInterface family)')
    # the execution contexts a bound method can be given all answer infer_annotations (get_type_hint of a method asks for it)
    ctxbase = repo.cls('jedi.inference.value.function', 'BaseFunctionExecutionContext')
    k = 0
    for ci in repo.subclasses(ctxbase):
        k += 1
        impl = [c for c in repo.mro(ci) if 'infer_annotations' in c.methods]
        ok = bool(impl)
        if ok:
            body = impl[0].methods['infer_annotations'].body
            ok = not any(isinstance(x, ast.Raise) and 'NotImplementedError' in norm(x) for st in body for x in ast.walk(st))
        chk.ob('C01.o', ok, ci.node, 'execution context class %s implements infer_annotations (the base only raises NotImplementedError)' % ci.qual,
               key='exec-context-interface|%s' % ci.key)
    chk.floor('C01.o', k, 3, '(function execution context classes)')


TRIAGED_ASSERT = {
    # (module, function, normalised test) -> why the belief about the shape of the user's syntax tree holds (each was examined by an
    # independent reachability analysis with a witness search; the ones that did NOT hold were fixed at the caller, see DESIGN 6.3)
    ('jedi.api.file_name', '_add_os_path_join', "trailer.children[trailer_index - 1] == '('"):
        'an arglist only occurs after `(` in a trailer or classdef, and an error node starts at a statement start: a node precedes the `(`',
    ('jedi.inference.arguments', 'unpack_arglist', 'len(child.children) == 2'):
        'in every parso grammar `*`/`**` stand inside an `argument` node with exactly two children',
    ('jedi.inference.base_value', '_ValueWrapperBase.__getattr__', "name != '_wrapped_value'"):
        'guards against infinite recursion of the wrapper itself; not about the source text',
    ('jedi.inference.syntax_tree', 'infer_trailer', "trailer_op == '('"):
        'trailer: "(" [arglist] ")" | "[" subscriptlist "]" | "." NAME - the two other forms are handled by the branches above',
    ('jedi.inference.syntax_tree', 'infer_atom', 'False'):
        'belief: only expression nodes reach infer_node; violated by six call paths that handed it keywords (all fixed at the callers: '
        'bb54989, 24d8890, 78407c5, ea82d25, 16f51fe, 92a5569) - rules C01.j and C01.n guard those hand-overs',
    ('jedi.inference.syntax_tree', '_infer_node', None):
        'belief: an operator other than `...` never reaches infer_node; same callers and rules as above (plus 8c61940, 6c928d2)',
    ('jedi.inference.gradual.annotation', 'find_type_from_comment_hint_with', 'len(node.children[1].children) == 3'):
        'a name is only defined by a with_stmt through `with_item: test "as" expr` (three children); the four-children form is tested first',
    ('jedi.inference.gradual.utils', 'load_proper_stub_module', "path.suffix == '.pyi'"):
        'about the file name handed in by the stub loader, not about the source text',
    ('jedi.inference.value.iterable', '_BaseComprehension.__init__', "sync_comp_for_node.type == 'sync_comp_for'"):
        'every creator tests `type in (comp_for, sync_comp_for)` first and unwraps comp_for',
    ('jedi.inference.value.iterable', 'DictComprehension.__init__', "sync_comp_for_node.type == 'sync_comp_for'"):
        'every creator tests `type in (comp_for, sync_comp_for)` first and unwraps comp_for',
    ('jedi.inference.value.iterable', 'SequenceLiteralValue.get_tree_entries', "op == ':'"):
        'a dictorsetmaker is pairs-only or items-only; the dict/set classification in front of it was wrong for `{2 ** 3}` (fixed, c411a34)',
}
_SHAPE_ATTRS = ('type', 'children', 'value', 'parent', 'start_pos', 'end_pos')


def _is_shape_test(test):
    if test is None or isinstance(test, ast.Constant):
        return True
    for x in ast.walk(test):
        if isinstance(x, ast.Attribute) and x.attr in _SHAPE_ATTRS:
            return True
        if isinstance(x, ast.Compare) and any(isinstance(c_, ast.Constant) and isinstance(c_.value, str) for c_ in x.comparators):
            return True
    return False


def rule_p(repo, chk):
    chk.clause('C01.p', 'assertion inventory: an `assert` / `raise AssertionError` whose condition speaks about the shape of the user\'s syntax '
                        'tree (.type/.children/.value/..., comparison with a token string, `assert False`) is a stated belief about ALL source '
                        'texts.  Each is either inside a try that catches AssertionError (the EAFP idiom of sys_path.py/analysis.py) or listed '
                        'with the reason the belief holds; a new one is reported.  Assertions about jedi\'s own objects are counted, not judged')
    n_shape = n_other = n_caught = 0
    for m in sorted(repo.modules.values(), key=lambda m: m.name):
        for node in ast.walk(m.tree):
            test = None
            if isinstance(node, ast.Assert):
                test = node.test
            elif isinstance(node, ast.Raise) and node.exc is not None and (call_name(node.exc) == 'AssertionError' or norm(node.exc) == 'AssertionError'):
                test = None
            else:
                continue
            f = repo.enclosing_func(node)
            q = repo.qual_of(node)
            if f is not None and any(handler_types(h) & {'AssertionError', 'Exception', 'BaseException', '*'}
                                     for t in enclosing_handlers(node, f) for h in t.handlers):
                n_caught += 1
                continue
            if not _is_shape_test(test):
                n_other += 1
                continue
            n_shape += 1
            tk = (m.name, q, norm(test) if test is not None else None)
            if tk in TRIAGED_ASSERT:
                chk.ob('C01.p', True, node, '`%s` in %s: listed belief (%s)' % (short(node, 50), q, TRIAGED_ASSERT[tk]))
            else:
                chk.ob('C01.p', False, node, 'the assertion `%s` in %s about the shape of the syntax tree is caught or justified' % (short(node, 60), q),
                       'an unlisted belief about every source text: broken or unusual code that violates it surfaces as AssertionError from a query',
                       key='assert|%s:%s|%s' % (m.name, q, norm(test) if test is not None else 'raise'))
    chk.floor('C01.p', n_shape + n_caught, 15, '(tree-shape assertions, caught or listed)')
    chk.notes['C01.p assertions'] = {'tree-shape, listed': n_shape, 'caught by try/except': n_caught, 'about internal objects (not judged)': n_other}


def _function_family(repo):
    fam = set()
    for mod, cn in (('jedi.inference.value.function', 'FunctionMixin'), ('jedi.inference.value.function', 'BaseFunctionExecutionContext')):
        c = repo.cls(mod, cn)
        fam |= {x.key for x in [c] + repo.subclasses(c)}
    return fam


def _maybe_lambda_expr(fam, m, q, e):
    """why the expression can denote a lambdef node (parso's Lambda.name raises AttributeError: "lambda is not named"), or None"""
    if isinstance(e, ast.Call) and call_name(e) == 'search_ancestor' and any(isinstance(a, ast.Constant) and a.value == 'lambdef' for a in e.args):
        return 'search_ancestor(.., \'lambdef\')'
    if isinstance(e, ast.Attribute) and e.attr == 'tree_node':
        base = norm(e.value)
        if base == 'self':
            if (m.name + ':' + '.'.join(q.split('.')[:-1])) in fam:
                return 'the tree node of a function value/execution (def or lambda)'
        elif any(k in base.lower() for k in ('function', 'func', 'execution')):
            return '%s.tree_node (def or lambda)' % base
    return None


def rule_q(repo, chk):
    chk.clause('C01.q', 'a lambda has no name: parso\'s Lambda.name raises AttributeError, so `.name` of a node that can be a lambdef (the tree '
                        'node of a function value or execution, the result of search_ancestor(.., \'lambdef\'), or a parameter that receives '
                        'one of these at a call site) is read only under a test of its .type that excludes lambdef')
    fam = _function_family(repo)

    def lam_vars(m, q, f, extra=()):
        v = {p_: 'a parameter that receives a function tree node' for p_ in extra}
        for a in stmts_in(f, ast.Assign):
            if len(a.targets) == 1 and isinstance(a.targets[0], ast.Name):
                w = _maybe_lambda_expr(fam, m, q, a.value)
                if w:
                    v[a.targets[0].id] = w
        return v
    param_seeds = {}
    for m in repo.modules.values():
        for q, f in m.defs.items():
            if not isinstance(f, FUNC_TYPES):
                continue
            v = lam_vars(m, q, f)
            for c in own_nodes(f):
                if isinstance(c, ast.Call):
                    r = repo.resolve(c.func)
                    d = repo.def_by_dotted(r) if r else None
                    if d is None or not isinstance(d, FUNC_TYPES):
                        continue
                    ps = params(d)
                    for i_, a in enumerate(c.args):
                        if i_ < len(ps) and ((isinstance(a, ast.Name) and a.id in v) or _maybe_lambda_expr(fam, m, q, a)):
                            param_seeds.setdefault(id(d), set()).add(ps[i_])
    n = 0
    for m in sorted(repo.modules.values(), key=lambda m: m.name):
        for q, f in sorted(m.defs.items()):
            if not isinstance(f, FUNC_TYPES):
                continue
            v = lam_vars(m, q, f, param_seeds.get(id(f), ()))
            for x in own_nodes(f):
                if not (isinstance(x, ast.Attribute) and x.attr == 'name'):
                    continue
                src = v.get(x.value.id) if isinstance(x.value, ast.Name) else _maybe_lambda_expr(fam, m, q, x.value)
                if not src:
                    continue
                n += 1
                subj = norm(x.value)

                def acc(e, pol, subj=subj):
                    if isinstance(e, ast.Compare) and len(e.ops) == 1 and isinstance(e.left, ast.Attribute) and e.left.attr == 'type' and norm(e.left.value) == subj:
                        c_ = e.comparators[0]
                        vals = {y.value for y in c_.elts if isinstance(y, ast.Constant)} if isinstance(c_, (ast.Tuple, ast.List, ast.Set)) else \
                            ({c_.value} if isinstance(c_, ast.Constant) else set())
                        if isinstance(e.ops[0], (ast.Eq, ast.In)):
                            return (pol and 'lambdef' not in vals) or (not pol and 'lambdef' in vals)
                        if isinstance(e.ops[0], (ast.NotEq, ast.NotIn)):
                            return (pol and 'lambdef' in vals) or (not pol and 'lambdef' not in vals)
                    return False
                w = gate(f, x, acc)
                chk.ob('C01.q', w is None, x, '`%s` in %s (%s) is read only where the node is not a lambdef' % (short(x, 40), q, src),
                       'no test of %s.type excludes lambdef: %s' % (subj, w) if w else '', key='lambda-name|%s:%s|%s' % (m.name, q, norm(x)))
    chk.floor('C01.q', n, 3, '(.name of nodes that can be lambdas)')


def _mandatory_literals(g, rule):
    """literal tokens that are direct, unconditional children in EVERY alternative of the production (outside [..] and (..) groups)"""
    out = None
    for alt in g.alternatives(rule):
        depth, lits = 0, set()
        for t in alt:
            if t in '([':
                depth += 1
            elif t in ')]':
                depth -= 1
            elif depth == 0 and len(t) >= 2 and t[0] in '\'"':
                lits.add(t.strip('\'"'))
        out = lits if out is None else (out & lits)
    return out or set()


def rule_r(repo, chk):
    chk.clause('C01.r', '`X.children.index(<token>)` raises ValueError when the node has no such child: where the type of X is known from a '
                        'dominating test, the production of EVERY such type (parso grammar file) must have the token as an unconditional direct '
                        'child (comp_for = [async] sync_comp_for has no `in`: the keyword sits one level down); package-wide')
    from .. import grammar as G
    g = G.Grammar('3.12')
    chk.trust('parso grammar file %s (productions)' % os.path.basename(g.path))
    n = undecided = 0
    for m in sorted(repo.modules.values(), key=lambda m: m.name):
        for q, f in sorted(m.defs.items()):
            if not isinstance(f, FUNC_TYPES):
                continue
            for x in own_nodes(f):
                if not (isinstance(x, ast.Call) and isinstance(x.func, ast.Attribute) and x.func.attr == 'index' and len(x.args) == 1
                        and isinstance(x.args[0], ast.Constant) and isinstance(x.args[0].value, str)
                        and isinstance(x.func.value, ast.Attribute) and x.func.value.attr == 'children'):
                    continue
                subject = norm(x.func.value.value)
                tok = x.args[0].value
                types = set()
                for e, pol in dominating_facts(f, x):
                    if isinstance(e, ast.Compare) and len(e.ops) == 1 and isinstance(e.left, ast.Attribute) and e.left.attr == 'type' \
                            and norm(e.left.value) == subject and ((isinstance(e.ops[0], (ast.Eq, ast.In)) and pol) or
                                                                   (isinstance(e.ops[0], (ast.NotEq, ast.NotIn)) and not pol)):
                        c0 = e.comparators[0]
                        types |= {v.value for v in c0.elts if isinstance(v, ast.Constant)} if isinstance(c0, (ast.Tuple, ast.List, ast.Set)) else \
                            ({c0.value} if isinstance(c0, ast.Constant) else set())
                if not types:
                    undecided += 1
                    continue
                n += 1
                lacking = sorted(t for t in types if t in g.rules and tok not in _mandatory_literals(g, t))
                chk.ob('C01.r', not lacking, x, '`%s` in %s: every node type it is applied to (%s) has the child %r' % (short(x, 50), q, '/'.join(sorted(types)), tok),
                       'no unconditional direct %r child in the production of: %s' % (tok, ', '.join('%s: %s' % (t, ' '.join(g.rules[t])) for t in lacking)),
                       key='index-token|%s:%s|%s' % (m.name, q, norm(x)))
    chk.notes['C01.r children.index(<token>) sites without type knowledge (not decided)'] = undecided
    chk.floor('C01.r', n, 2, '(children.index(<token>) on nodes of known type)')


def rule_s(repo, chk):
    chk.clause('C01.s', 'optional values of the signature/keyword helpers are not used as if they were there: (1) in CallDetails.calculate_index '
                        'the typed key (None for `**<expression>` and bare stars) reaches str.startswith / == only when the argument carries no star '
                        '(`star_count` false) - Signature.index and repr() read it; (2) in keywords.imitate_pydoc the unpacking of the pydoc topic '
                        '(None for True/False/None and symbols without a topic) is covered by a TypeError handler or a test of the value')
    f = repo.find(HELPERS, 'CallDetails.calculate_index')
    uses = [c for c in calls_in(f, 'startswith') if c.args and norm(c.args[0]) == 'key_start']
    chk.floor('C01.s', len(uses), 1, 'startswith(key_start) in calculate_index')
    for u in uses:
        w = gate(f, u, lambda e, pol: (not pol) and norm(e) == 'star_count')
        chk.ob('C01.s', w is None, u, '`%s` is evaluated only for an argument without a star (key_start is a str there)' % short(u), w or '')
    g = repo.find('jedi.api.keywords', 'imitate_pydoc')
    unp = [st for st in stmts_in(g, ast.Assign) if isinstance(st.targets[0], ast.Tuple) and isinstance(st.value, ast.Name)]
    chk.floor('C01.s', len(unp), 1, 'the unpacking of the topic in imitate_pydoc')
    for st in unp:
        hs = [h for t in enclosing_handlers(st, g) for h in t.handlers if handler_types(h) & {'TypeError', 'Exception', 'BaseException', '*'}]
        v = st.value.id
        w = None if hs else gate(g, st, lambda e, pol: (isinstance(e, ast.Call) and call_name(e) == 'isinstance' and norm(e.args[0]) == v and pol and 'tuple' in norm(e.args[1]))
                                 or (isinstance(e, ast.Compare) and norm(e.left) == v and isinstance(e.ops[0], ast.IsNot) and pol and norm(e.comparators[0]) == 'None' and False))
        chk.ob('C01.s', bool(hs) or w is None, st, '`%s` (None or an alias string for some keywords) is unpacked under `except TypeError` or an isinstance(.., tuple) test' % short(st),
               w or '')


def rule_t(repo, chk):
    chk.clause('C01.t', 'a string of the analysed text that is used as a path may contain a NUL character, for which every file-system call raises '
                        'ValueError (not OSError): (1) the directory listing of path completion (api/file_name.py) is covered by a handler for '
                        'ValueError as well as OSError; (2) sys.path entries detected in the analysed module (inference/sys_path._abs_path) are '
                        'dropped when they contain NUL, before they can reach open()/stat() through the import machinery; (3) the fuzzy matcher is a loop, not a '
                        'recursion per character of the typed name')
    f = repo.find('jedi.api.file_name', 'complete_file_name')
    calls = [c for c in calls_in(f) if norm(c.func) in ('os.scandir', 'os.listdir', 'scandir', 'listdir')]
    chk.floor('C01.t', len(calls), 1, 'the directory listing in complete_file_name')
    for c in calls:
        caught = set()
        for t in enclosing_handlers(repo.enclosing_stmt(c), f):
            for h in t.handlers:
                caught |= handler_types(h)
        ok = bool(caught & {'ValueError', 'Exception', 'BaseException', '*'}) and bool(caught & {'OSError', 'Exception', 'BaseException', '*'})
        chk.ob('C01.t', ok, c, '`%s` (path built from the string under the cursor) is covered by handlers for OSError and ValueError' % short(c),
               'caught: %s' % sorted(caught))
    z = repo.find(HELPERS, '_fuzzy_match')
    rec = [x for x in ast.walk(z) if isinstance(x, ast.Call) and isinstance(x.func, ast.Name) and x.func.id == z.name]
    chk.ob('C01.t', not rec, z, 'the fuzzy matcher does not recurse once per character of the typed name (RecursionError for a name longer than the stack is deep)',
           key='fuzzy-not-recursive')
    g = repo.find('jedi.inference.sys_path', '_abs_path')
    p0 = g.args.args[1].arg if len(g.args.args) > 1 else 'str_path'
    uses = [x for x in own_nodes(g) if isinstance(x, ast.Call) and norm(x.func) in ('Path', 'os.path.join', 'os.path.abspath') and any(norm(a) == p0 for a in x.args)]
    chk.floor('C01.t', len(uses), 1, 'the path construction in sys_path._abs_path')
    for u in uses:
        w = gate(g, u, lambda e, pol: (not pol) and isinstance(e, ast.Compare) and isinstance(e.ops[0], ast.In) and isinstance(e.left, ast.Constant)
                 and e.left.value in ('\0', '\x00') and norm(e.comparators[0]) == p0)
        chk.ob('C01.t', w is None, u, 'a detected sys.path entry becomes a path only if it contains no NUL character', w or '')


RULES = [('C01.a', rule_a), ('C01.b', rule_b), ('C01.c', rule_c), ('C01.d', rule_d), ('C01.e', rule_e), ('C01.f', rule_f),
         ('C01.g', rule_g), ('C01.h', rule_h), ('C01.i', rule_i), ('C01.j', rule_j), ('C01.k', rule_k), ('C01.l', rule_l), ('C01.m', rule_m), ('C01.n', rule_n), ('C01.o', rule_o), ('C01.p', rule_p), ('C01.q', rule_q), ('C01.r', rule_r), ('C01.s', rule_s), ('C01.t', rule_t)]
