"""C09 — changes to project files on disk are always seen (jedi adds no staleness on top).

Decided: every parse of a file from disk goes through parso's mtime-validated cache with a
handle parso can stat; module lookup is redone per Script; module discovery is never answered
from jedi-side memory (reuses the store inventory of C08)."""
import ast

from ..core import AnchorError, call_name, decorators, norm, short, own_nodes, kwarg, FUNC_TYPES
from ..lib import calls_in, stmts_in, gate, must_pass, node_has, params
from ..stores import find_stores, is_container_expr
from .c08 import EXPECTED_STORES

DISK_LOADERS = {
    ('jedi.inference.imports', '_load_python_module'): 'imported project/library modules',
    ('jedi.inference.gradual.typeshed', 'parse_stub_module'): 'stub files',
    ('jedi.inference.compiled.mixed', '_load_module'): 'source of live objects (Interpreter)',
    ('jedi.inference.sys_path', '_get_paths_from_buildout_script'): 'buildout scripts',
}
SNIPPET_PARSERS = {
    ('jedi.api', 'Script.__init__'): 'the buffer (cache=False, C08.e)',
    ('jedi.api.completion', 'Completion._complete_code_lines'): 'doctest snippet inside a string',
    ('jedi.inference.docstrings', '_infer_for_statement_string'): 'docstring type snippet',
    ('jedi.inference.gradual.annotation', '_get_forward_reference_node'): 'string annotation',
    ('jedi.inference.gradual.annotation', '_split_comment_param_declaration'): 'type comment',
    ('jedi.plugins.stdlib', 'collections_namedtuple'): 'generated namedtuple source',
    ('jedi.inference', 'InferenceState.parse_and_get_code'): 'forwarder',
    ('jedi.inference', 'InferenceState.parse'): 'forwarder',
}


def rule_a(repo, chk):
    chk.clause('C09.a', 'every parse of a file from disk goes through parso\'s mtime-validated cache with a file handle parso can stat: '
                        'all parse call sites are enumerated; those with cache=True pass file_io=/path= and never code=; the disk loaders pass '
                        'cache_path=settings.cache_directory')
    sites = [c for c in repo.calls_of('parse') + repo.calls_of('parse_and_get_code')
             if isinstance(c.func, ast.Attribute) and ('grammar' in norm(c.func.value) or 'inference_state' in norm(c.func.value) or norm(c.func.value) == 'self')]
    n = 0
    for c in sites:
        key = (c._mod.name, repo.qual_of(c))
        cache = kwarg(c, 'cache')
        n += 1
        if isinstance(cache, ast.Constant) and cache.value is True:
            has_handle = kwarg(c, 'file_io') is not None or kwarg(c, 'path') is not None
            chk.ob('C09.a', key in DISK_LOADERS, c, 'cached parse in %s is a triaged disk loader' % key[1], DISK_LOADERS.get(key, 'UNLISTED cached parse'), key='cached-parse|%s:%s' % key)
            chk.ob('C09.a', has_handle and kwarg(c, 'code') is None, c, 'a cached parse passes file_io=/path= (parso can compare the mtime) and no code= text',
                   'keywords: %s' % [k.arg for k in c.keywords])
            cp = kwarg(c, 'cache_path')
            chk.ob('C09.a', cp is not None and repo.resolve(cp) == 'jedi.settings.cache_directory', c, 'the pickle cache lives in settings.cache_directory', short(cp))
        else:
            ok = key in SNIPPET_PARSERS or key in DISK_LOADERS
            chk.ob('C09.a', ok, c, 'uncached parse in %s is a triaged in-memory snippet / forwarder' % key[1], SNIPPET_PARSERS.get(key, 'UNLISTED parse call'), key='parse|%s:%s' % key)
    chk.floor('C09.a', n, 8, '(parse call sites)')
    chk.exhaustive_rules.append('C09.a every call site named parse/parse_and_get_code on a grammar or inference state')
    for (m, q) in DISK_LOADERS:
        f = repo.find(m, q)
        ok = any(isinstance(kwarg(c, 'cache'), ast.Constant) and kwarg(c, 'cache').value is True for c in calls_in(f, 'parse'))
        chk.ob('C09.a', ok, f, '%s parses through the cache (cache=True)' % q)
    # parse() forwards file handles untouched
    p = repo.find('jedi.inference', 'InferenceState.parse_and_get_code')
    ok = any(isinstance(c, ast.Call) and call_name(c) == 'parse' and any(k.arg is None for k in c.keywords) for c in ast.walk(p))
    chk.ob('C09.a', ok, p, 'parse_and_get_code forwards **kwargs (file_io, cache flags) to grammar.parse')
    # code lines of cached modules come from the same parso cache entry
    lp = repo.find('jedi.inference.imports', '_load_python_module')
    ok = any(call_name(c) == 'get_cached_code_lines' for c in calls_in(lp))
    chk.ob('C09.a', ok, lp, 'the code lines of an imported module are taken from the same (revalidated) parso cache entry')


def rule_b(repo, chk):
    chk.clause('C09.b', 'module lookup is redone per Script: module caches are per-InferenceState objects with no class-level state; the only '
                        'name-keyed process-lifetime store is typeshed\'s _version_cache, filled solely from the bundled typeshed directory')
    init = repo.find('jedi.inference', 'InferenceState.__init__')
    for attr in ('module_cache', 'stub_module_cache'):
        st = [s for s in stmts_in(init, ast.Assign) if norm(s.targets[0]) == 'self.%s' % attr]
        ok = len(st) == 1 and (norm(st[0].value) in ('{}', 'imports.ModuleCache()'))
        chk.ob('C09.b', ok, init, 'InferenceState.%s is created fresh per inference state' % attr)
    mc = repo.cls('jedi.inference.imports', 'ModuleCache')
    shared = [a for a, st_ in mc.attrs.items() if is_container_expr(repo, getattr(st_, 'value', None))]
    chk.ob('C09.b', not shared, mc.node, 'ModuleCache has no class-level containers', str(shared))
    ini = mc.methods.get('__init__')
    ok = ini is not None and any(norm(s) == 'self._name_cache = {}' for s in stmts_in(ini, ast.Assign))
    chk.ob('C09.b', ok, mc.node, 'ModuleCache._name_cache is a fresh dict per instance')
    # stores whose keys are module names / paths
    stores = find_stores(repo)
    for s in stores:
        ok = s['key'] in EXPECTED_STORES
        chk.ob('C09.b', ok, s['node'], 'process-lifetime store %s is triaged (see C08.a)' % s['key'],
               EXPECTED_STORES.get(s['key'], 'UNLISTED store: a module-name/path keyed memo outlives file changes'), key='store|%s' % s['key'])
    f = repo.find('jedi.inference.gradual.typeshed', '_cache_stub_file_map')
    ok = any('TYPESHED_PATH' in norm(x) for x in ast.walk(f)) or any(call_name(c) == '_get_typeshed_directories' for c in calls_in(f))
    chk.ob('C09.b', ok, f, '_version_cache is filled from the bundled typeshed directories only')
    for m, q, fn in repo.funcs:
        for dname in ('time_cache', 'signature_time_cache'):
            if dname in decorators(fn):
                ok = (m.name, q) in (('jedi.api.environment', '_get_cached_default_environment'), ('jedi.api.helpers', 'cache_signatures'))
                chk.ob('C09.b', ok, fn, '@%s on %s is one of the two triaged time caches' % (dname, q), 'a time cache keeps answers about files for its whole validity', key='timecache|%s:%s' % (m.name, q))


def rule_c(repo, chk):
    chk.clause('C09.c', 'module discovery is never answered from jedi-side memory: import_module obtains file locations only from '
                        'compiled_subprocess.get_module_info and sub-module listings from iter_module_names (os.scandir each time); the helper '
                        'keeps no module-level memo; sub_modules_dict is memoised per inference state only')
    im = repo.find('jedi.inference.imports', 'import_module')
    gi = calls_in(im, 'get_module_info')
    ok = len(gi) == 2 and all('compiled_subprocess' in norm(c.func) for c in gi)
    chk.ob('C09.c', ok, im, 'import_module locates files through compiled_subprocess.get_module_info on both branches')
    chk.ob('C09.c', 'import_module_decorator' in decorators(im) and not any(d.startswith('inference_state_') or 'cache' in d for d in decorators(im) if d != 'import_module_decorator'),
           im, 'import_module itself is not memoised beyond the per-Script module cache', str(decorators(im)))
    fm = repo.module('jedi.inference.compiled.subprocess.functions')
    conts = [n for n, st in fm.top.items() if isinstance(st, (ast.Assign, ast.AnnAssign)) and is_container_expr(repo, getattr(st, 'value', None))]
    chk.ob('C09.c', not conts, fm.tree, 'the helper-side functions module holds no module-level container (no finder/loader memo in the long-lived helper)', str(conts))
    for fn in ('get_module_info', '_find_module', '_find_module_py33', '_from_loader', 'iter_module_names', '_iter_module_names'):
        f = repo.find_opt('jedi.inference.compiled.subprocess.functions', fn)
        if f is not None:
            chk.ob('C09.c', not f.decorator_list, f, 'helper function %s is undecorated (recomputed per request)' % fn, str(decorators(f)))
    it = repo.find('jedi.inference.compiled.subprocess.functions', '_iter_module_names')
    ok = any(isinstance(c, ast.Call) and repo.resolve(c.func) in ('os.scandir', 'os.listdir') for c in ast.walk(it))
    chk.ob('C09.c', ok, it, 'sub-module listings read the directory each time (os.scandir)')
    sd = repo.find('jedi.inference.value.module', 'SubModuleDictMixin.sub_modules_dict')
    chk.ob('C09.c', decorators(sd) == ['inference_state_method_cache'], sd, 'sub_modules_dict is memoised per inference state only')


def rule_d(repo, chk):
    chk.clause('C09.d', 'the process-lifetime completion cache (api/completion_cache.py, never invalidated) is only switched on for a fixed '
                        'table of third-party package names: every non-None assignment of `cached_name` in Completion._complete_trailer is gated '
                        'by membership of the module name in a tuple of string constants (a project package must never get a cache name: its '
                        'files change between Scripts)')
    f = repo.find('jedi.api.completion', 'Completion._complete_trailer')
    assigns = [a for a in stmts_in(f, ast.Assign) if norm(a.targets[0]) == 'cached_name' and not (isinstance(a.value, ast.Constant) and a.value.value is None)]
    chk.floor('C09.d', len(assigns), 1, '(assignments of a cache name)')

    def accept(e, pol):
        return pol and isinstance(e, ast.Compare) and len(e.ops) == 1 and isinstance(e.ops[0], ast.In) and \
            isinstance(e.comparators[0], (ast.Tuple, ast.List, ast.Set)) and e.comparators[0].elts and \
            all(isinstance(x, ast.Constant) and isinstance(x.value, str) for x in e.comparators[0].elts)
    for a in assigns:
        w = gate(f, a, accept)
        chk.ob('C09.d', w is None, a, 'a cache name is chosen only for a name out of a literal table of packages', w or '')
        chk.ob('C09.d', isinstance(a.value, ast.Name), a, 'the cache name is the tested module name itself', norm(a.value))


def rule_e(repo, chk):
    chk.clause('C09.e', 'a file\'s freshness is judged by its full-resolution modification time: every get_last_modified defined in jedi returns '
                        'os.path.getmtime(<path>) (a float with sub-second resolution) or None for a vanished file, the file-backed IO classes put '
                        'parso\'s implementation first in their MRO, and nowhere in jedi is a modification time truncated (os.stat(..)[ST_MTIME], '
                        'int(..), round(..))')
    defs = []
    for mod in repo.modules.values():
        for fn in [x for x in ast.walk(mod.tree) if isinstance(x, FUNC_TYPES) and x.name == 'get_last_modified']:
            defs.append(fn)
    chk.floor('C09.e', len(defs), 1, '(definitions of get_last_modified)')

    def full_resolution(fn, e, depth=0):
        if isinstance(e, ast.Constant) and e.value is None:
            return True
        if isinstance(e, ast.Call) and norm(e.func) in ('os.path.getmtime', 'getmtime') and len(e.args) == 1:
            return True
        if isinstance(e, ast.Call) and depth < 2:
            r = repo.resolve(e.func)
            d = repo.def_by_dotted(r) if r else None
            if d is not None and isinstance(d, FUNC_TYPES):
                rets = [x for x in stmts_in(d, ast.Return)]
                return bool(rets) and all(x.value is not None and full_resolution(d, x.value, depth + 1) for x in rets)
        if isinstance(e, ast.Attribute) and e.attr == 'st_mtime':
            # the time of the FILE (os.stat follows links as getmtime does), not of a link to it (lstat)
            return isinstance(e.value, ast.Call) and norm(e.value.func) in ('os.stat', 'stat') and not any(k.arg == 'follow_symlinks' for k in e.value.keywords)
        return False
    for fn in defs:
        rets = stmts_in(fn, ast.Return)
        bad = [r for r in rets if r.value is None or not full_resolution(fn, r.value)]
        chk.ob('C09.e', bool(rets) and not bad, fn, '%s returns os.path.getmtime(..) / st_mtime (or None)' % repo.qual_of(fn),
               'returns %s' % [short(r) for r in bad])
    # MRO: a class of jedi.file_io that derives from a parso file_io class names it first, so that a mixin cannot take over get_last_modified
    fio = repo.modules['jedi.file_io']
    n = 0
    for cls in [x for x in fio.tree.body if isinstance(x, ast.ClassDef)]:
        bases = [norm(b) for b in cls.bases]
        pb = [i for i, b in enumerate(bases) if b.startswith('file_io.')]
        if not pb:
            continue
        n += 1
        own = any(isinstance(x, FUNC_TYPES) and x.name == 'get_last_modified' for x in cls.body)
        chk.ob('C09.e', own or pb[0] == 0, cls, '%s takes get_last_modified from parso\'s %s (first base) or defines it itself' % (cls.name, bases[pb[0]]),
               'bases: %s' % bases)
    chk.floor('C09.e', n, 3, '(IO classes derived from parso.file_io)')
    # truncation of a modification time anywhere
    trunc = 0
    for mod in repo.modules.values():
        for x in ast.walk(mod.tree):
            if isinstance(x, ast.Call) and norm(x.func) in ('os.lstat', 'lstat') and mod.name == 'jedi.file_io':
                chk.ob('C09.e', False, x, 'the time stamp of a link instead of the file it points to: `%s`' % short(x), key='%s|lstat|%s' % (mod.name, norm(x)))
            if isinstance(x, ast.Attribute) and x.attr in ('ST_MTIME', 'st_mtime_ns') or isinstance(x, ast.Name) and x.id == 'ST_MTIME':
                chk.ob('C09.e', False, x, 'modification time read through `%s` (whole seconds / a different unit than parso compares with)' % short(x),
                       key='%s|trunc|%s' % (mod.name, norm(x)))
                trunc += 1
            if isinstance(x, ast.Call) and isinstance(x.func, ast.Name) and x.func.id in ('int', 'round') and x.args and \
                    any(isinstance(y, ast.Attribute) and y.attr in ('getmtime', 'st_mtime') or isinstance(y, ast.Call) and call_name(y) == 'get_last_modified'
                        for y in ast.walk(x.args[0])):
                chk.ob('C09.e', False, x, 'modification time truncated by `%s`' % short(x), key='%s|trunc|%s' % (mod.name, norm(x)))
                trunc += 1
    chk.ob('C09.e', True, None, 'no truncation of a modification time in %d modules' % len(repo.modules), key='trunc-scan')


def describe(chk):
    chk.undecided('timestamp-granularity races; the pickled cache across processes (parso); staleness of importlib\'s per-directory finder caches '
                  'inside the long-lived helper (jedi never calls importlib.invalidate_caches(); recorded as an assumption, no witness found)')
    chk.assume('parso revalidates a cached tree against the file\'s mtime when it is given file_io/path')


RULES = [('C09.a', rule_a), ('C09.b', rule_b), ('C09.c', rule_c), ('C09.d', rule_d), ('C09.e', rule_e)]
