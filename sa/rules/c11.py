"""C11 — signatures and docstrings mirror the definition; index locates the argument.

Decided: the structural rules the statement contains — self/cls removal agrees across the
sibling signature classes, parameter-kind derivation and rendering cover all five kinds
(including the trailing "/" and the bare "*"), bracket_start is the matched "(" leaf, the
docstring composition, cleandoc on every docstring, and the keyword-matching guard of
calculate_index as a boolean function."""
import ast
import itertools

from ..core import AnchorError, call_name, decorators, norm, short, own_nodes, kwarg, FUNC_TYPES
from ..cfg import cfg_of
from ..lib import calls_in, stmts_in, gate, must_pass, node_has, params

SIG = 'jedi.inference.signature'
NAMES = 'jedi.inference.names'


def rule_a(repo, chk):
    chk.clause('C11.a', 'self/cls removal agrees across sibling signature classes: every get_param_names of a class supporting is_bound returns '
                        'the list minus exactly its first element under is_bound and the full list otherwise; every bind returns a signature '
                        'with is_bound=True over the same function value')
    base = repo.cls(SIG, 'AbstractSignature')
    n = 0
    for ci in [base] + repo.subclasses(base):
        f = ci.methods.get('get_param_names')
        if f is not None:
            n += 1
            rets = stmts_in(f, ast.Return)
            if '_function_value.get_param_names()' not in norm(f):
                synth = {'DataclassSignature': 'constructor synthesised from dataclass fields (no self in the list)',
                         'DjangoModelSignature': 'constructor synthesised from model fields (no self in the list)'}
                chk.ob('C11.a', ci.node.name in synth, f, '%s.get_param_names builds its own list and is a listed special case' % ci.qual,
                       synth.get(ci.node.name, 'UNLISTED signature class that does not derive its parameters from the function value'), key='synth|%s' % ci.key)
                continue
            bound = [r for r in rets if isinstance(r.value, ast.Subscript)]
            full = [r for r in rets if isinstance(r.value, ast.Name)]
            ok = len(bound) == 1 and len(full) == 1 and isinstance(bound[0].value.slice, ast.Slice) and norm(bound[0].value.slice) == '1:' and \
                norm(bound[0].value.value) == norm(full[0].value)
            chk.ob('C11.a', ok, f, '%s.get_param_names returns params[1:] when bound and params otherwise' % ci.qual, str([norm(r.value) for r in rets]))
            for r in bound:
                w = gate(f, r, lambda e, pol: pol and norm(e) == 'self.is_bound')
                chk.ob('C11.a', w is None, r, '%s: the first parameter is dropped exactly under self.is_bound' % ci.qual, w or '')
        b = ci.methods.get('bind')
        if b is not None and not any(isinstance(x, ast.Raise) for x in b.body):
            rets = stmts_in(b, ast.Return)
            ok = len(rets) == 1 and isinstance(rets[0].value, ast.Call) and call_name(rets[0].value) == ci.node.name and \
                isinstance(kwarg(rets[0].value, 'is_bound'), ast.Constant) and kwarg(rets[0].value, 'is_bound').value is True
            chk.ob('C11.a', ok, b, '%s.bind returns a %s with is_bound=True' % (ci.qual, ci.node.name), short(rets[0]) if rets else '')
            if ok:
                args = [norm(a) for a in rets[0].value.args] + [norm(k.value) for k in rets[0].value.keywords if k.arg == 'function_value']
                keeps = any(a in ('self._function_value', 'self.value') for a in args)
                chk.ob('C11.a', keeps and norm(rets[0].value.args[0]) == 'value', b, '%s.bind keeps the same function value and takes the new owner' % ci.qual, str(args))
    chk.floor('C11.a', n, 2, '(get_param_names implementations)')
    init = base.methods['__init__']
    d = init.args.defaults
    ok = any(norm(s) == 'self.is_bound = is_bound' for s in stmts_in(init, ast.Assign)) and d and isinstance(d[-1], ast.Constant) and d[-1].value is False
    chk.ob('C11.a', ok, init, 'is_bound defaults to False and is stored as given')


def rule_b(repo, chk):
    chk.clause('C11.b', 'kind derivation and rendering cover all five inspect.Parameter kinds: _ActualTreeParamName.get_kind can return each; '
                        'to_string emits "/" after the last positional-only parameter (also when it is the last parameter) and a bare "*" '
                        'before the first keyword-only one when no *args preceded; _kind_string/star_count map VAR_POSITIONAL->*/1, VAR_KEYWORD->**/2')
    gk = repo.find(NAMES, '_ActualTreeParamName.get_kind')
    kinds = {norm(r.value).split('.')[-1] for r in stmts_in(gk, ast.Return)}
    want = {'POSITIONAL_ONLY', 'POSITIONAL_OR_KEYWORD', 'VAR_POSITIONAL', 'KEYWORD_ONLY', 'VAR_KEYWORD'}
    chk.ob('C11.b', want <= kinds, gk, 'get_kind can return all five kinds', 'missing: %s' % sorted(want - kinds))
    for r in stmts_in(gk, ast.Return):
        k = norm(r.value).split('.')[-1]
        if k == 'VAR_POSITIONAL':
            w = gate(gk, r, lambda e, pol: pol and norm(e) == 'tree_param.star_count == 1')
            chk.ob('C11.b', w is None, r, '*args <=> star_count == 1', w or '')
        if k == 'VAR_KEYWORD':
            w = gate(gk, r, lambda e, pol: pol and norm(e) == 'tree_param.star_count == 2')
            chk.ob('C11.b', w is None, r, '**kwargs <=> star_count == 2', w or '')
        if k == 'POSITIONAL_ONLY' and gate(gk, r, lambda e, pol: pol and norm(e) == "p == '/'") is None:
            w = gate(gk, r, lambda e, pol: pol and norm(e) == 'param_appeared')
            chk.ob('C11.b', w is None, r, 'positional-only <=> a "/" follows the parameter', w or '')
        if k == 'KEYWORD_ONLY':
            w = gate(gk, r, lambda e, pol: (not pol) and norm(e) == 'param_appeared')
            chk.ob('C11.b', w is None, r, 'keyword-only <=> a "*" or *args precedes the parameter', w or '')
    for r in stmts_in(gk, ast.Return):
        if gate(gk, r, lambda e, pol: pol and norm(e) == "p == '/'") is None:
            chk.ob('C11.b', norm(r.value).endswith('POSITIONAL_ONLY'), r, 'a parameter followed by "/" is POSITIONAL_ONLY', norm(r.value))
        if gate(gk, r, lambda e, pol: pol and norm(e) in ("p == '*'", 'p.star_count')) is None:
            chk.ob('C11.b', norm(r.value).endswith('KEYWORD_ONLY'), r, 'a parameter preceded by "*"/*args is KEYWORD_ONLY', norm(r.value))
    ts = repo.find_opt(SIG, '_SignatureMixin.to_string.param_strings')
    if ts is None:
        # the generator may live next to to_string instead of inside it: the one generator function to_string calls
        outer = repo.find(SIG, '_SignatureMixin.to_string')
        cands = []
        for c_ in calls_in(outer, nested=True):
            r_ = repo.resolve(c_.func)
            d_ = repo.def_by_dotted(r_) if r_ else None
            if d_ is not None and isinstance(d_, FUNC_TYPES) and any(isinstance(x, ast.Yield) and isinstance(x.value, ast.Constant) and x.value.value in ('/', '*')
                                                                     for x in own_nodes(d_)):
                cands.append(d_)
        if len(cands) != 1:
            raise AnchorError('the generator that renders the parameters of _SignatureMixin.to_string was not found')
        ts = cands[0]
    c = cfg_of(ts)
    ys = [y for y in own_nodes(ts) if isinstance(y, ast.Yield)]
    slash = [y for y in ys if isinstance(y.value, ast.Constant) and y.value.value == '/']
    star = [y for y in ys if isinstance(y.value, ast.Constant) and y.value.value == '*']
    loops = [n for n in own_nodes(ts) if isinstance(n, ast.For)]
    chk.ob('C11.b', len(loops) == 1 and 'get_param_names(resolve_stars=True)' in norm(loops[0].iter), ts, 'to_string renders get_param_names(resolve_stars=True)')
    in_loop = [y for y in slash if loops and any(a is loops[0] for a in repo.ancestors(y))]
    after = [y for y in slash if y not in in_loop]
    chk.ob('C11.b', len(in_loop) == 1, ts, 'a "/" is emitted inside the loop when a non-positional-only parameter follows positional-only ones')
    chk.ob('C11.b', len(after) == 1, ts, 'a trailing "/" is emitted after the loop when the LAST parameter is positional-only', '%d such yields after the loop' % len(after))
    for y in in_loop:
        w1 = gate(ts, y, lambda e, pol: pol and norm(e) == 'is_positional')
        w2 = gate(ts, y, lambda e, pol: pol and norm(e) == 'kind != Parameter.POSITIONAL_ONLY')
        chk.ob('C11.b', w1 is None and w2 is None, y, 'in-loop "/" <=> positional-only seen and the current kind is not positional-only', w1 or w2 or '')
    for y in after:
        w = gate(ts, y, lambda e, pol: pol and norm(e) == 'is_positional')
        chk.ob('C11.b', w is None, y, 'trailing "/" <=> still in the positional-only run', w or '')
    chk.ob('C11.b', len(star) == 1, ts, 'a bare "*" is emitted once')
    for y in star:
        w1 = gate(ts, y, lambda e, pol: pol and norm(e) == 'kind == Parameter.KEYWORD_ONLY')
        w2 = gate(ts, y, lambda e, pol: (not pol) and norm(e) == 'is_kw_only')
        w3 = gate(ts, y, lambda e, pol: (not pol) and norm(e) == 'kind == Parameter.VAR_POSITIONAL')
        chk.ob('C11.b', w1 is None and w2 is None and w3 is None, y, 'bare "*" <=> first keyword-only parameter and no *args before', w1 or w2 or w3 or '')
    each = [y for y in ys if norm(y.value) == 'n.to_string()']
    chk.ob('C11.b', len(each) == 1 and loops and any(a is loops[0] for a in repo.ancestors(each[0])), ts, 'every parameter is rendered once, in order')
    if each and loops:
        head = [n for n in c.nodes if n.kind == 'for' and n.ast is loops[0]]
        en = c.nodes_containing(each[0])
        starts = [m for h in head for m, k in h.succ if k == 'T']
        p = c.reach(starts, lambda n: n in head, block_node=lambda n: n in en, kinds={'n', 'T', 'F'})
        chk.ob('C11.b', p is None, each[0], 'no iteration skips its parameter', 'path: %s' % c.describe(p) if p else '')
    ks = repo.find(NAMES, '_ParamMixin._kind_string')
    ok = norm(ks).count("return '*'") == 1 and norm(ks).count("return '**'") == 1 and \
        all(gate(ks, r, lambda e, pol, want=('Parameter.VAR_POSITIONAL' if norm(r.value) == "'*'" else 'Parameter.VAR_KEYWORD'): pol and norm(e) == 'kind == ' + want) is None
            for r in stmts_in(ks, ast.Return) if norm(r.value) in ("'*'", "'**'"))
    chk.ob('C11.b', ok, ks, '_kind_string: VAR_POSITIONAL -> "*", VAR_KEYWORD -> "**"')
    sc = repo.find(NAMES, 'ParamNameInterface.star_count')
    ok = all(gate(sc, r, lambda e, pol, want=('Parameter.VAR_POSITIONAL' if norm(r.value) == '1' else 'Parameter.VAR_KEYWORD'): pol and norm(e) == 'kind == ' + want) is None
             for r in stmts_in(sc, ast.Return) if norm(r.value) in ('1', '2')) and {norm(r.value) for r in stmts_in(sc, ast.Return)} == {'0', '1', '2'}
    chk.ob('C11.b', ok, sc, 'star_count: VAR_POSITIONAL -> 1, VAR_KEYWORD -> 2, else 0')
    pt = repo.find(NAMES, 'BaseTreeParamName.to_string')
    txt = norm(pt)
    ok = 'self._kind_string() + self.get_public_name()' in txt and "': ' + annotation.get_code(include_prefix=False)" in txt and "'=' + default.get_code(include_prefix=False)" in txt
    chk.ob('C11.b', ok, pt, 'a parameter renders as stars + name [": " annotation] ["=" default]')


def _eval(e, env):
    if isinstance(e, ast.BoolOp):
        vals = [_eval(v, env) for v in e.values]
        return all(vals) if isinstance(e.op, ast.And) else any(vals)
    if isinstance(e, ast.UnaryOp) and isinstance(e.op, ast.Not):
        return not _eval(e.operand, env)
    if isinstance(e, ast.Compare) and len(e.ops) == 1:
        a, b = _eval(e.left, env), _eval(e.comparators[0], env)
        o = e.ops[0]
        if isinstance(o, ast.Eq):
            return a == b
        if isinstance(o, ast.NotEq):
            return a != b
        if isinstance(o, ast.Is):
            return a is b
        if isinstance(o, ast.IsNot):
            return a is not b
        if isinstance(o, ast.In):
            return a in b
        if isinstance(o, ast.NotIn):
            return a not in b
    if isinstance(e, ast.Name):
        return env[e.id]
    if isinstance(e, ast.Constant):
        return e.value
    if isinstance(e, ast.Tuple):
        return tuple(_eval(x, env) for x in e.elts)
    raise AnchorError('cannot evaluate %s' % norm(e))


def rule_c(repo, chk):
    chk.clause('C11.c', 'Signature.bracket_start is the start position of the very bracket_leaf the call details were built from; '
                        'get_signature_details builds CallDetails with the "(" child of the trailer/decorator it matched; the keyword-matching '
                        'guard of calculate_index is (key_start is not None and star_count != 1) or star_count == 2 as a boolean function')
    b = repo.find('jedi.api.classes', 'Signature.bracket_start')
    rets = stmts_in(b, ast.Return)
    chk.ob('C11.c', len(rets) == 1 and norm(rets[0].value) == 'self._call_details.bracket_leaf.start_pos', b, 'bracket_start = call_details.bracket_leaf.start_pos')
    cd = repo.find('jedi.api.helpers', 'CallDetails.__init__')
    chk.ob('C11.c', any(norm(s) == 'self.bracket_leaf = bracket_leaf' for s in stmts_in(cd, ast.Assign)), cd, 'CallDetails keeps the bracket leaf it was given')
    g = repo.find('jedi.api.helpers', 'get_signature_details')
    ctors = [c for c in calls_in(g, 'CallDetails')]
    chk.floor('C11.c', len(ctors), 1)
    for c in ctors:
        ok = norm(c.args[0]) == "node.children[0] if node.type == 'trailer' else node.children[2]"
        chk.ob('C11.c', ok, c, 'the bracket leaf is the "(" of the trailer (children[0]) or of the decorator (children[2])', norm(c.args[0]))
        w = gate(g, c, lambda e, pol: pol and "== '('" in norm(e))
        chk.ob('C11.c', w is None, c, 'only after a "(" was matched', w or '')
    ci = repo.find('jedi.api.helpers', 'CallDetails.calculate_index')
    guards = []
    for n in own_nodes(ci):
        if isinstance(n, ast.If) and 'key_start is not None' in norm(n.test):
            t = n.test
            neg = False
            while isinstance(t, ast.UnaryOp) and isinstance(t.op, ast.Not):     # guard-clause form: `if not (G): continue`
                t, neg = t.operand, not neg
            # with an odd number of `not` the guarded work is what FOLLOWS the if (the branch must leave: continue/return/break)
            if neg and not (n.body and isinstance(n.body[-1], (ast.Continue, ast.Return, ast.Break, ast.Raise))):
                t = n.test
            guards.append(t)
    chk.ob('C11.c', len(guards) == 1, ci, 'one keyword-matching guard in calculate_index')
    for gexp in guards:
        good = True
        rows = []
        sentinel = object()
        for ks, scount in itertools.product([None, 'abc'], [-1, 0, 1, 2]):
            got = bool(_eval(gexp, {'key_start': ks, 'star_count': scount}))
            want = (ks is not None and scount != 1) or scount == 2
            rows.append((ks, scount, got))
            good = good and got == want
        chk.ob('C11.c', good, gexp, 'the guard admits keyword matching for a typed keyword prefix (not after *) and always for a ** argument (truth table over key_start x star_count)',
               'rows (key_start, star_count, value): %s' % rows)
    # the candidate test for a keyword match: an unused name that is keyword-only, or positional-or-keyword and not yet filled
    # positionally - decided as a boolean function over (kind, unused, positional_count <= i); calls of the two kind helpers of
    # ParamNameInterface are evaluated through a model that is itself checked against their source
    KINDS = ('POSITIONAL_ONLY', 'POSITIONAL_OR_KEYWORD', 'VAR_POSITIONAL', 'KEYWORD_ONLY', 'VAR_KEYWORD')
    model = {}
    for meth, flag in (('maybe_keyword_argument', 'include_stars'), ('maybe_positional_argument', 'include_star')):
        mf = repo.find('jedi.inference.names', '_ParamMixin.' + meth)
        opts = [x for x in stmts_in(mf, (ast.Assign, ast.AnnAssign)) if norm(getattr(x, 'target', None) or x.targets[0]) == 'options']
        base = [norm(e).split('.')[-1] for e in opts[0].value.elts] if opts and isinstance(opts[0].value, ast.List) else None
        extra = [norm(c_.args[0]).split('.')[-1] for c_ in calls_in(mf, 'append', nested=True) if norm(c_.func.value) == 'options']
        ret_ok = any(norm(r.value) == 'self.get_kind() in options' for r in stmts_in(mf, ast.Return))
        okm = base is not None and len(extra) == 1 and ret_ok and flag in params(mf)
        chk.ob('C11.c', okm, mf, 'model of %s: kind in %s, plus %s when %s' % (meth, base, extra, flag))
        model[meth] = (flag, set(base or ()), set(extra))

    def ev(e, env):
        if isinstance(e, ast.BoolOp):
            vals = [ev(v, env) for v in e.values]
            return all(vals) if isinstance(e.op, ast.And) else any(vals)
        if isinstance(e, ast.UnaryOp) and isinstance(e.op, ast.Not):
            return not ev(e.operand, env)
        t = norm(e)
        if t == 'param_name.string_name not in used_names':
            return env['unused']
        if t == 'param_name.string_name in used_names':
            return not env['unused']
        if t == 'positional_count <= i' or t == 'i >= positional_count':
            return env['pc_le_i']
        if t == 'positional_count > i' or t == 'i < positional_count':
            return not env['pc_le_i']
        if isinstance(e, ast.Compare) and len(e.ops) == 1 and norm(e.left) in ('kind', 'param_name.get_kind()'):
            c_ = e.comparators[0]
            vals = {norm(x).split('.')[-1] for x in c_.elts} if isinstance(c_, (ast.Tuple, ast.List, ast.Set)) else {norm(c_).split('.')[-1]}
            o = e.ops[0]
            if isinstance(o, (ast.Eq, ast.In)):
                return env['kind'] in vals
            if isinstance(o, (ast.NotEq, ast.NotIn)):
                return env['kind'] not in vals
        if isinstance(e, ast.Call) and isinstance(e.func, ast.Attribute) and norm(e.func.value) == 'param_name' and e.func.attr in model:
            flag, base, extra = model[e.func.attr]
            fl = kwarg(e, flag)
            on = True if fl is None and not e.args else bool((fl if fl is not None else e.args[0]).value)
            return env['kind'] in (base | (extra if on else set()))
        raise AnchorError('cannot evaluate %s' % t)
    cands = [n.test for n in ast.walk(ci) if isinstance(n, ast.If) and 'used_names' in norm(n.test) and 'param_name.string_name' in norm(n.test)]
    chk.ob('C11.c', len(cands) == 1, ci, 'one candidate test for keyword matching in calculate_index')
    for t in cands:
        rows, good, why = [], True, ''
        try:
            for kind, unused, ple in itertools.product(KINDS, (True, False), (True, False)):
                got = bool(ev(t, {'kind': kind, 'unused': unused, 'pc_le_i': ple}))
                want = unused and (kind == 'KEYWORD_ONLY' or (kind == 'POSITIONAL_OR_KEYWORD' and ple))
                if got != want:
                    good = False
                    rows.append((kind, unused, ple, got))
        except AnchorError as e_:
            good, why = False, str(e_)
        chk.ob('C11.c', good, t, 'a parameter is a candidate for the typed keyword iff its name is unused and it is keyword-only, or '
               'positional-or-keyword and not already filled positionally (truth table over kind x unused x positional_count <= i)',
               why or 'differs for (kind, unused, positional_count <= i, value): %s' % rows[:6], key='calculate_index-candidate')
    idx = repo.find('jedi.api.classes', 'Signature.index')
    ok = 'self._call_details.calculate_index(' in norm(idx) and 'resolve_stars=True' in norm(idx)
    chk.ob('C11.c', ok, idx, 'Signature.index is calculate_index over the star-resolved parameters')


def rule_d(repo, chk):
    chk.clause('C11.d', 'docstring() is signature + "\\n\\n" + doc when both exist, else their concatenation; raw=True returns the name\'s py__doc__() '
                        'unchanged; every docstring literal goes through inspect.cleandoc (no shortcut for one-liners)')
    f = repo.find('jedi.api.classes', 'BaseName.docstring')
    rets = stmts_in(f, ast.Return)
    vals = [norm(r.value) for r in rets]
    ok = "signature_text + '\\n\\n' + doc" in vals and 'signature_text + doc' in vals and 'doc' in vals
    chk.ob('C11.d', ok, f, 'docstring composition', str(vals))
    for r in rets:
        if norm(r.value) == "signature_text + '\\n\\n' + doc":
            w1 = gate(f, r, lambda e, pol: pol and norm(e) == 'signature_text')
            w2 = gate(f, r, lambda e, pol: pol and norm(e) == 'doc')
            chk.ob('C11.d', w1 is None and w2 is None, r, 'the blank line is inserted only when both parts exist', w1 or w2 or '')
        if norm(r.value) == 'doc':
            w = gate(f, r, lambda e, pol: pol and norm(e) == 'raw')
            chk.ob('C11.d', w is None, r, 'raw=True returns the docstring alone', w or '')
    d = [s for s in stmts_in(f, ast.Assign) if norm(s.targets[0]) == 'doc']
    chk.ob('C11.d', len(d) == 1 and norm(d[0].value) == 'self._get_docstring()', f, 'doc comes from _get_docstring()')
    gd = repo.find('jedi.api.classes', 'BaseName._get_docstring')
    chk.ob('C11.d', norm(gd.body[-1]) == 'return self._name.py__doc__()', gd, '_get_docstring is the name\'s py__doc__()')
    def is_cleaned(call, depth=0):
        """cleandoc(safe_literal_eval(x)) directly, or through a local helper whose str-returning paths are exactly that"""
        if not isinstance(call, ast.Call):
            return False
        if repo.resolve(call.func) == 'inspect.cleandoc':
            a = call.args[0]
            if call_name(a) == 'safe_literal_eval':
                return True
            # cleandoc(doc) with doc = safe_literal_eval(...)
            f_ = repo.enclosing_func(call)
            if isinstance(a, ast.Name) and f_ is not None:
                defs = [x for x in stmts_in(f_, ast.Assign) if norm(x.targets[0]) == a.id]
                return bool(defs) and all(call_name(x.value) == 'safe_literal_eval' for x in defs)
            return False
        r = repo.resolve(call.func)
        d = repo.def_by_dotted(r) if r else None
        if d is not None and depth < 2 and isinstance(d, FUNC_TYPES):
            rets = [x for x in stmts_in(d, ast.Return) if not (isinstance(x.value, ast.Constant) and x.value.value == '')]
            return bool(rets) and all(is_cleaned(x.value, depth + 1) for x in rets)
        return False
    for fn in ('clean_scope_docstring', 'find_statement_documentation'):
        c = repo.find('jedi.parser_utils', fn)
        rets = [r for r in stmts_in(c, ast.Return) if not (isinstance(r.value, ast.Constant) and r.value.value == '')]
        ok = bool(rets) and all(is_cleaned(r.value) for r in rets)
        chk.ob('C11.d', ok, c, '%s returns inspect.cleandoc(safe_literal_eval(<literal>)) on every path that yields text (what inspect.getdoc does), '
               'directly or through one helper' % fn, str([norm(r.value) for r in rets]))
    sl = repo.find('jedi.parser_utils', 'safe_literal_eval')
    ok = any(isinstance(r.value, ast.Call) and repo.resolve(r.value.func) == 'ast.literal_eval' for r in stmts_in(sl, ast.Return))
    chk.ob('C11.d', ok, sl, 'the literal is evaluated with ast.literal_eval')


KINDS5 = ('POSITIONAL_ONLY', 'POSITIONAL_OR_KEYWORD', 'VAR_POSITIONAL', 'KEYWORD_ONLY', 'VAR_KEYWORD')


def _pp_eval(e, env, loopvar):
    """Value of a test of the dispatch in process_params for one cell (kind, star_count)."""
    if isinstance(e, ast.BoolOp):
        if isinstance(e.op, ast.And):
            v = True
            for x in e.values:
                v = _pp_eval(x, env, loopvar)
                if not v:
                    return v
            return v
        v = False
        for x in e.values:
            v = _pp_eval(x, env, loopvar)
            if v:
                return v
        return v
    if isinstance(e, ast.UnaryOp) and isinstance(e.op, ast.Not):
        return not _pp_eval(e.operand, env, loopvar)
    if isinstance(e, ast.Constant):
        return e.value
    if isinstance(e, ast.Name) and e.id in env:
        return env[e.id]
    if norm(e) == '%s.get_kind()' % loopvar:
        return env['kind']
    if isinstance(e, ast.Attribute) and norm(e.value) == 'Parameter' and e.attr in KINDS5:
        return e.attr
    if isinstance(e, (ast.Tuple, ast.List, ast.Set)):
        return tuple(_pp_eval(x, env, loopvar) for x in e.elts)
    if isinstance(e, ast.BinOp) and isinstance(e.op, (ast.BitAnd, ast.BitOr)):
        a, b = _pp_eval(e.left, env, loopvar), _pp_eval(e.right, env, loopvar)
        if isinstance(a, int) and isinstance(b, int):
            return a & b if isinstance(e.op, ast.BitAnd) else a | b
    if isinstance(e, ast.Compare) and len(e.ops) == 1:
        a, b, o = _pp_eval(e.left, env, loopvar), _pp_eval(e.comparators[0], env, loopvar), e.ops[0]
        table = {ast.Eq: lambda: a == b, ast.NotEq: lambda: a != b, ast.In: lambda: a in b, ast.NotIn: lambda: a not in b,
                 ast.Is: lambda: a == b, ast.IsNot: lambda: a != b, ast.Gt: lambda: a > b, ast.GtE: lambda: a >= b,
                 ast.Lt: lambda: a < b, ast.LtE: lambda: a <= b}
        if type(o) in table:
            return table[type(o)]()
    raise AnchorError('cannot evaluate %s' % norm(e))


def _pp_effects(stmts, env, loopvar, out):
    """Runs the loop body for one cell; returns False when the iteration was left (continue)."""
    def cls(v):
        if norm(v) == loopvar:
            return 'as-is'
        if isinstance(v, ast.Call) and call_name(v) == 'ParamNameFixedKind' and len(v.args) == 2 and norm(v.args[0]) == loopvar:
            return 'as ' + str(_pp_eval(v.args[1], env, loopvar))
        raise AnchorError('cannot classify %s' % norm(v))
    for s in stmts:
        if isinstance(s, ast.If):
            if not _pp_effects(s.body if _pp_eval(s.test, env, loopvar) else s.orelse, env, loopvar, out):
                return False
        elif isinstance(s, ast.Continue):
            return False
        elif isinstance(s, ast.Pass):
            pass
        elif isinstance(s, ast.Assign) and len(s.targets) == 1 and isinstance(s.targets[0], ast.Name):
            t = s.targets[0].id
            if norm(s.value) == '%s.get_kind()' % loopvar:
                env[t] = env['kind']
            elif t in ('arg_callables', 'original_arg_name'):
                out.add('forward *args')
            elif t in ('kwarg_callables', 'original_kwarg_name'):
                out.add('forward **kwargs')
            else:
                raise AnchorError('unexpected assignment %s' % norm(s))
        elif isinstance(s, ast.Expr) and isinstance(s.value, ast.Yield) and s.value.value is not None:
            out.add('positional ' + cls(s.value.value))
        elif isinstance(s, ast.Expr) and isinstance(s.value, ast.Call) and isinstance(s.value.func, ast.Attribute) \
                and s.value.func.attr == 'append' and norm(s.value.func.value) == 'kw_only_names' and len(s.value.args) == 1:
            out.add('keyword-only ' + cls(s.value.args[0]))
        elif isinstance(s, ast.Expr) and isinstance(s.value, ast.Call) and norm(s.value.func) == 'used_names.add':
            pass
        elif isinstance(s, ast.Expr) and isinstance(s.value, ast.Constant):
            pass
        else:
            raise AnchorError('unexpected statement %s' % short(norm(s), 60))
    return True


def rule_e(repo, chk):
    chk.clause('C11.e', 'pass-through wrappers: which parameters of the wrapped callable stay reachable is a function of their kind and of '
                        'what the wrapper forwards (star_count 1 = only *args, 2 = only **kwargs, 3 = both); the dispatch loop of '
                        'process_params is decided as that function, cell by cell (5 kinds x 3 forwardings)')
    pp = repo.find('jedi.inference.star_args', 'process_params')
    loops = [n for n in own_nodes(pp) if isinstance(n, ast.For) and norm(n.iter) == 'param_names' and isinstance(n.target, ast.Name)
             and 'VAR_POSITIONAL' in norm(n)]
    chk.floor('C11.e', len(loops), 1)
    loop = loops[0]
    lv = loop.target.id

    def want(kind, sc):
        if kind == 'VAR_POSITIONAL':
            return {'forward *args'} if sc & 1 else set()
        if kind == 'VAR_KEYWORD':
            return {'forward **kwargs'} if sc & 2 else set()
        if kind == 'KEYWORD_ONLY':          # reachable only through **kwargs
            return {'keyword-only as-is'} if sc & 2 else set()
        if kind == 'POSITIONAL_ONLY':       # reachable only through *args
            return {'positional as-is'} if sc & 1 else set()
        return {1: {'positional as POSITIONAL_ONLY'}, 2: {'keyword-only as KEYWORD_ONLY'}, 3: {'positional as-is'}}[sc]
    bad, why = [], ''
    try:
        for kind, sc in itertools.product(KINDS5, (1, 2, 3)):
            out = set()
            _pp_effects(loop.body, {'kind': kind, 'star_count': sc}, lv, out)
            if out != want(kind, sc):
                bad.append('%s with star_count=%d: %s, expected %s' % (kind, sc, sorted(out) or 'nothing', sorted(want(kind, sc)) or 'nothing'))
    except AnchorError as e_:
        why = str(e_)
    chk.ob('C11.e', not bad and not why, loop, 'a parameter of the wrapped callable is reported exactly when the forwarded */** can bind it: positional-only only '
           'through *args, keyword-only only through **kwargs, positional-or-keyword narrowed to the forwarded half', why or '; '.join(bad[:4]),
           key='process_params-dispatch')


def rule_f(repo, chk):
    chk.clause('C11.f', 'a signature never names a keyword-bindable parameter twice: the collected keyword-only parameters of all forwarded callables are '
                        'emitted through one loop that skips names already in used_names and registers every name it emits (de-duplication among '
                        'themselves and against the positional-or-keyword names emitted earlier)')
    pp = repo.find('jedi.inference.star_args', 'process_params')
    c = cfg_of(pp)
    loops = [n for n in own_nodes(pp) if isinstance(n, ast.For) and norm(n.iter) == 'kw_only_names' and isinstance(n.target, ast.Name)]
    other = [n for n in own_nodes(pp) if isinstance(n, (ast.YieldFrom, ast.GeneratorExp, ast.ListComp)) and 'kw_only_names' in norm(n)]
    for n in other:
        chk.ob('C11.f', False, n, 'the collected keyword-only names are emitted by `%s`, which cannot register what it emits in used_names' % short(n),
               key='kw-only-emission|bulk')
    if not loops and not other:
        raise AnchorError('process_params: no emission of kw_only_names found')
    for lp in loops:
        v = lp.target.id
        ys = [y for y in ast.walk(lp) if isinstance(y, ast.Yield)]
        chk.ob('C11.f', len(ys) == 1 and norm(ys[0].value) == v, lp, 'the loop over kw_only_names emits the element itself, at one place')
        for y in ys:
            w = gate(pp, y, lambda e, pol: (not pol) and isinstance(e, ast.Compare) and isinstance(e.ops[0], ast.In)
                     and norm(e.left) == '%s.string_name' % v and norm(e.comparators[0]) == 'used_names')
            chk.ob('C11.f', w is None, y, 'a keyword-only name is emitted only if its string_name is not in used_names yet', w or '')
            yn = c.nodes_containing(y)
            adds = {n.id for n in c.nodes if n.ast is not None and n.kind == 'stmt' and isinstance(n.ast, ast.Expr)
                    and norm(n.ast.value) == 'used_names.add(%s.string_name)' % v}
            heads = {n.id for n in c.nodes if n.kind == 'for' and n.ast is lp}
            p_ = c.reach(yn, lambda n: n.id in heads or n is c.exit, block_node=lambda n: n.id in adds, kinds={'n', 'T', 'F'})
            chk.ob('C11.f', p_ is None and bool(adds), y, 'every emitted keyword-only name is registered in used_names before the next one is looked at',
                   'path: %s' % c.describe(p_) if p_ else '')
    # the positional-or-keyword names emitted before are registered as well (so that a later keyword-only twin is dropped)
    regs = [x for x in calls_in(pp, 'add') if norm(x.func.value) == 'used_names']
    chk.floor('C11.f', len(regs), 2, '(registrations in used_names)')


def rule_g(repo, chk):
    chk.clause('C11.g', 'pass-through detection and the keyword boundary: (1) _goes_to_param_name decides by goto alone (path summary equals the pinned '
                        'one); (2) in _iter_arguments an argument `name=value` counts as the NAMED argument as soon as the cursor is behind the `=` '
                        '(second.start_pos < position), so that the index points at the named parameter while its value is typed')
    from ..summaries import check_summary
    check_summary(repo, chk, 'C11.g', 'jedi.inference.star_args', '_goes_to_param_name')
    f = repo.find('jedi.api.helpers', '_iter_arguments')
    ys = [y for y in own_nodes(f) if isinstance(y, ast.Yield) and isinstance(y.value, ast.Tuple) and len(y.value.elts) == 3
          and isinstance(y.value.elts[2], ast.Constant) and y.value.elts[2].value is True and norm(y.value.elts[1]) in ('first.value', 'node.children[0].value')]
    chk.floor('C11.g', len(ys), 1, 'the yield of a named argument in _iter_arguments')
    from ..lib import dominating_facts, atom_key
    want_k, want_p = atom_key(ast.parse('second.start_pos < position', mode='eval').body, None)
    for y in ys:
        facts = [atom_key(e, f) + (pol,) for e, pol in dominating_facts(f, y)]
        pos = [(k, p == pol) for k, p, pol in facts if 'position' in k]
        ok = pos in ([(want_k, want_p)], [(want_k.replace('second', 'node.children[1]'), want_p)])
        chk.ob('C11.g', ok, y, 'a `name=` argument is reported as named exactly when the `=` starts before the cursor (second.start_pos < position)',
               'position tests in front of it: %s' % [k for k, _ in pos])
        chk.ob('C11.g', norm(y.value.elts[1]) in ('first.value', 'node.children[0].value') and norm(y.value.elts[0]) == '0', y, 'what is reported is the keyword\'s own text, star count 0')


def describe(chk):
    chk.undecided('the index case analysis beyond its keyword guard and equality with inspect.signature (value dependent); *args/**kwargs pass-through resolution beyond the kind x forwarding dispatch of process_params')


RULES = [('C11.a', rule_a), ('C11.b', rule_b), ('C11.c', rule_c), ('C11.d', rule_d), ('C11.e', rule_e), ('C11.f', rule_f), ('C11.g', rule_g)]
