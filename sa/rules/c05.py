"""C05 — rename rewrites exactly the references (mechanisms only).

Decided: rename is a pure function of the reported references (every element is consumed by
exactly one of three branches, the text written is prefix + new name), the reference search
keeps flow analysis switched off for the WHOLE defining-name closure and restores it, and
late matches are merged through a table keyed consistently by tree names."""
import ast
import re

from ..core import AnchorError, call_name, norm, short, own_nodes, kwarg, FUNC_TYPES
from ..cfg import cfg_of
from ..lib import calls_in, stmts_in, gate, must_pass, node_has, params, paired, raised_name, loop_escapes

REFS = 'jedi.inference.references'
REF = 'jedi.api.refactoring'


def rule_a(repo, chk):
    chk.clause('C05.a', 'Script.rename passes the unfiltered result of self.get_references(line, column, include_builtins=False) to refactoring.rename')
    f = repo.find('jedi.api', 'Script.rename')
    gr = calls_in(f, 'get_references')
    chk.floor('C05.a', len(gr), 1)
    st = repo.enclosing_stmt(gr[0])
    var = st.targets[0].id if isinstance(st, ast.Assign) and isinstance(st.targets[0], ast.Name) and st.value is gr[0] else None
    chk.ob('C05.a', var is not None, st, 'the reference list is bound directly from get_references(...)', short(st))
    ib = kwarg(gr[0], 'include_builtins')
    chk.ob('C05.a', isinstance(ib, ast.Constant) and ib.value is False and [norm(a) for a in gr[0].args] == ['line', 'column'], gr[0],
           'get_references(line, column, include_builtins=False)')
    chk.ob('C05.a', kwarg(gr[0], 'scope') is None, gr[0], 'the search scope is the whole project (default), not the file')
    rn = [c for c in calls_in(f, 'rename') if repo.resolve(c.func) == REF + '.rename']
    chk.floor('C05.a', len(rn), 1)
    for c in rn:
        ok = len(c.args) == 3 and norm(c.args[1]) == var and norm(c.args[2]) == 'new_name'
        chk.ob('C05.a', ok, c, 'refactoring.rename receives exactly that list and the new name', short(c))
    if var:
        others = [s for s in stmts_in(f, (ast.Assign, ast.AugAssign)) if s is not st and any(isinstance(t, ast.Name) and t.id == var for t in ast.walk(s) if isinstance(getattr(t, 'ctx', None), ast.Store))]
        chk.ob('C05.a', not others, f, 'the list is not filtered or re-bound in between')
    # get_references sorts but does not filter
    g = repo.find('jedi.api', 'Script.get_references._references')
    rets = stmts_in(g, ast.Return)
    ok = bool(rets) and all((isinstance(r.value, ast.Call) and call_name(r.value) == 'sorted_definitions') or
                            (isinstance(r.value, ast.List) and not r.value.elts) for r in rets)
    chk.ob('C05.a', ok, g, 'get_references returns all definitions it built (sorted), or [] when there is no name under the cursor')
    filt = [x for x in ast.walk(g) if isinstance(x, ast.comprehension) and x.ifs]
    ok = all(len(x.ifs) == 1 and norm(x.ifs[0]) == 'not d.in_builtin_module()' for x in filt)
    chk.ob('C05.a', ok, g, 'the only filter applied to the references drops names in builtin modules', str([norm(i) for x in filt for i in x.ifs]))
    fr = calls_in(g, 'find_references')
    ok = len(fr) == 1 and len(fr[0].args) == 3 and norm(fr[0].args[2]) == "scope == 'file'"
    chk.ob('C05.a', ok, g, 'find_references searches the project unless scope == \'file\'')


def rule_b(repo, chk):
    chk.clause('C05.b', 'in refactoring.rename every element of `definitions` is consumed by exactly one of three branches (module file rename, '
                        'namespace directory rename, token rewrite) with no break/continue/early return; the map key is the element\'s own '
                        'tree_name and the value is tree_name.prefix + new_name; the Refactoring is built from exactly these two collections')
    f = repo.find(REF, 'rename')
    loops = [n for n in own_nodes(f) if isinstance(n, ast.For) and norm(n.iter) == 'definitions']
    chk.ob('C05.b', len(loops) == 1, f, 'one loop over all definitions')
    if not loops:
        return
    lp = loops[0]
    esc = loop_escapes(lp)
    chk.ob('C05.b', not esc, lp, 'no break/continue/return inside the loop (no reference is skipped silently)', str([short(x) for x in esc]))
    # nothing slices/filters definitions before the loop
    pre = [s for s in stmts_in(f, (ast.Assign, ast.AugAssign)) if any(isinstance(t, ast.Name) and t.id == 'definitions' and isinstance(t.ctx, ast.Store) for t in ast.walk(s))]
    chk.ob('C05.b', not pre, f, '`definitions` is not re-bound (sliced/filtered) in rename')
    # token rewrite
    stores = [s for s in ast.walk(lp) if isinstance(s, ast.Assign) and isinstance(s.targets[0], ast.Subscript)]
    ok = len(stores) == 1 and norm(stores[0].targets[0].slice) == 'tree_name' and norm(stores[0].value) == 'tree_name.prefix + new_name'
    chk.ob('C05.b', ok, stores[0] if stores else lp, 'each token is rewritten as its own prefix + new_name (surrounding bytes kept)',
           short(stores[0]) if stores else 'no map store')
    tn = [s for s in ast.walk(lp) if isinstance(s, ast.Assign) and any(isinstance(t, ast.Name) and t.id == 'tree_name' for t in s.targets)]
    ok = len(tn) == 1 and norm(tn[0].value) == 'd._name.tree_name' and norm(lp.target) == 'd'
    chk.ob('C05.b', ok, tn[0] if tn else lp, 'tree_name is the element\'s own token')
    fm = [s for s in ast.walk(lp) if isinstance(s, ast.Assign) and isinstance(s.value, ast.Call) and call_name(s.value) == 'setdefault']
    ok = bool(fm) and norm(fm[0].value.args[0]) == 'd.module_path' and norm(fm[0].value.func.value) == 'file_tree_name_map'
    chk.ob('C05.b', ok, fm[0] if fm else lp, 'the per-file map is keyed by the element\'s own module_path')
    # the token branch only requires a tree name (no extra condition that could drop a reference)
    if stores:
        c = cfg_of(f)
        ids = {n.id for n in c.nodes_containing(stores[0])}
        head = [n for n in c.nodes if n.kind == 'for' and n.ast is lp]
        # from the loop head: paths to the next iteration that neither rewrite nor add a rename must imply tree_name is None
        def does_work(n):
            return n.id in ids or node_has(n, lambda x: isinstance(x, ast.Call) and call_name(x) == 'add' and 'file_renames' in norm(x.func))

        def tn_none_edge(n, k, m):
            e = n.ast
            if n.kind == 'test' and k == 'T' and isinstance(e, ast.Call) and call_name(e) == 'isinstance' and 'ImplicitNSName' in norm(e):
                return True     # the namespace branch consumes the element (its directory list may be empty)
            return n.kind == 'test' and isinstance(e, ast.Compare) and norm(e.left) == 'tree_name' and len(e.ops) == 1 and \
                isinstance(e.comparators[0], ast.Constant) and e.comparators[0].value is None and \
                ((isinstance(e.ops[0], ast.IsNot) and k == 'F') or (isinstance(e.ops[0], ast.Is) and k == 'T'))
        starts = [m for h in head for m, k in h.succ if k == 'T']
        p = c.reach(starts, lambda n: n in head, block_node=does_work, block_edge=tn_none_edge, kinds={'n', 'T', 'F'}) if starts else None
        # for-loops inside the namespace branch may legitimately iterate zero times
        ok = p is None
        chk.ob('C05.b', ok, lp, 'a definition with a tree name is always rewritten (the only way to skip the three branches is tree_name is None)',
               'path that drops a reference: %s' % c.describe(p) if p and not ok else '')
    r = [x for x in stmts_in(f, ast.Return)]
    ok = len(r) == 1 and isinstance(r[0].value, ast.Call) and call_name(r[0].value) == 'Refactoring' and \
        [norm(a) for a in r[0].value.args] == ['inference_state', 'file_tree_name_map', 'file_renames']
    chk.ob('C05.b', ok, r[0] if r else f, 'the result is Refactoring(inference_state, file_tree_name_map, file_renames)')
    rs = stmts_in(f, ast.Raise)
    chk.ob('C05.b', all(raised_name(x) == 'RefactoringError' for x in rs), f, 'rename refuses only with RefactoringError')
    cr = repo.find(REF, '_calculate_rename')
    ok = any(isinstance(x, ast.BinOp) and norm(x) == 'new_name + path.suffix' for x in ast.walk(cr))
    chk.ob('C05.b', ok, cr, 'a module file keeps its suffix when renamed')


def rule_c(repo, chk):
    chk.clause('C05.c', 'find_references switches flow analysis off for the whole defining-name closure (_find_defining_names) and restores it in a finally')
    f = repo.find(REFS, 'find_references')
    offs = [s for s in stmts_in(f, ast.Assign) if any(isinstance(t, ast.Attribute) and t.attr == 'flow_analysis_enabled' for t in s.targets)
            and isinstance(s.value, ast.Constant) and s.value.value is False]
    ons = [s for s in stmts_in(f, ast.Assign) if any(isinstance(t, ast.Attribute) and t.attr == 'flow_analysis_enabled' for t in s.targets)
           and isinstance(s.value, ast.Constant) and s.value.value is True]
    chk.ob('C05.c', len(offs) == 1 and len(ons) >= 1, f, 'find_references turns flow_analysis_enabled off and on again')
    for s in offs:
        w = paired(f, s, lambda n: n.ast in ons)
        chk.ob('C05.c', w is None, s, 'the switch is restored on every exit', 'exit without restore: %s' % w if w else '')
    # the closure is computed while the switch is off
    c = cfg_of(f)
    calls = calls_in(f, '_find_defining_names')
    chk.floor('C05.c', len(calls), 1)
    for cl in calls:
        ids = {n.id for n in c.nodes_containing(cl)}
        p = c.reach([c.entry], lambda n: n.id in ids, block_node=lambda n: n.ast in offs)
        chk.ob('C05.c', p is None, cl, '_find_defining_names runs only after the switch was turned off', 'path: %s' % c.describe(p) if p else '')
        p2 = c.reach([n for n in c.nodes if n.ast in ons], lambda n: n.id in ids)
        chk.ob('C05.c', p2 is None, cl, '... and not after it was turned on again')
    # no write of the switch in the helpers (the whole closure must see it off)
    for fn in ('_find_defining_names', '_find_names', '_add_names_in_same_context', '_find_global_variables', '_resolve_names'):
        g = repo.find(REFS, fn)
        w = [x for x in ast.walk(g) if isinstance(x, ast.Attribute) and x.attr == 'flow_analysis_enabled' and isinstance(x.ctx, ast.Store)]
        chk.ob('C05.c', not w, g, '%s does not touch the switch itself' % fn)
    # the closure contains all four steps
    d = repo.find(REFS, '_find_defining_names')
    for step in ('_find_names', 'convert_names', '_find_global_variables', '_add_names_in_same_context', '_resolve_names'):
        chk.ob('C05.c', bool(calls_in(d, step)), d, 'the defining-name closure includes %s' % step)
    fa = repo.find('jedi.inference.flow_analysis', 'reachability_check')
    ok = any(isinstance(x, ast.Attribute) and x.attr == 'flow_analysis_enabled' for x in ast.walk(fa))
    chk.ob('C05.c', ok, fa, 'reachability_check honours flow_analysis_enabled')


def rule_d(repo, chk):
    chk.clause('C05.d', 'late matches are merged: when a candidate\'s names intersect the found set, the found set takes the candidate map and '
                        'every previously non-matching map registered under those tree names; registration and lookup use the same key')
    f = repo.find(REFS, 'find_references')
    c = cfg_of(f)
    tests = [n for n in c.nodes if n.kind == 'test' and isinstance(n.ast, ast.Call) and call_name(n.ast) == 'any' and 'found_names_dct' in norm(n.ast)]
    chk.ob('C05.d', len(tests) == 1, f, 'one intersection test against found_names_dct')
    # the candidate map is the local bound from _dictionarize(_find_names(...)); the earlier maps are what a loop over
    # non_matching_reference_maps.get(...) hands out - identified by what they are bound from, not by their names
    cand = {a.targets[0].id for a in stmts_in(f, ast.Assign) if len(a.targets) == 1 and isinstance(a.targets[0], ast.Name)
            and call_name(a.value) == '_dictionarize' and a.value.args and call_name(a.value.args[0]) == '_find_names'}
    chk.ob('C05.d', len(cand) == 1, f, 'one candidate map per examined token: _dictionarize(_find_names(module, leaf))')
    new_ = next(iter(cand), 'new')
    earlier = {n.target.id for n in own_nodes(f) if isinstance(n, ast.For) and isinstance(n.target, ast.Name)
               and isinstance(n.iter, ast.Call) and norm(n.iter.func) in ('non_matching_reference_maps.get', 'non_matching_reference_maps.pop')}
    upd_new = [x for x in calls_in(f, 'update') if norm(x.func.value) == 'found_names_dct' and norm(x.args[0]) == new_]
    upd_old = [x for x in calls_in(f, 'update') if norm(x.func.value) == 'found_names_dct' and norm(x.args[0]) in earlier]
    chk.ob('C05.d', bool(upd_new) and bool(upd_old), f, 'the matching branch merges the candidate map and the earlier non-matching maps')
    for t in tests:
        starts = [m for m, k in t.succ if k == 'T']
        for what, ups in (('candidate map', upd_new),):
            ids = {n.id for u in ups for n in c.nodes_containing(u)}
            free = [x for x in starts if x.id not in ids]
            p = c.reach(free, lambda n: n.kind == 'for' and 'potential_modules' in norm(n.ast.iter) or n is c.exit, block_node=lambda n: n.id in ids, kinds={'n', 'T', 'F'}) if free else None
            chk.ob('C05.d', p is None and bool(ids), t.ast, 'a matching candidate always contributes its %s' % what, 'path: %s' % c.describe(p) if p else '')
    # key consistency of the late-merge table
    regs = [x for x in calls_in(f, 'setdefault') if norm(x.func.value) == 'non_matching_reference_maps']
    # read with .get(k, []) (and deleted afterwards) or taken out with .pop(k, ()): the same maps come out
    # (a `.pop(k, None)` whose value is thrown away is the deletion, not a read)
    gets = [x for x in calls_in(f, 'get') + calls_in(f, 'pop') if norm(x.func.value) == 'non_matching_reference_maps' and len(x.args) == 2
            and not isinstance(getattr(x, '_parent', None), ast.Expr)]
    chk.ob('C05.d', len(regs) == 1 and len(gets) == 1, f, 'the late-merge table is filled and read at one place each')
    if regs and gets:
        def iter_source(call):
            k = call.args[0]
            for a in repo.ancestors(call):
                if isinstance(a, ast.For) and norm(a.target) == norm(k):
                    return norm(a.iter)
            return None
        s_reg, s_get = iter_source(regs[0]), iter_source(gets[0])
        chk.ob('C05.d', s_reg is not None and s_reg == s_get == new_, regs[0],
               'the table is registered and looked up under the same keys (the tree names of a candidate map: `for k in new`)',
               'registered under keys of `%s`, looked up under keys of `%s`' % (s_reg, s_get))
        ok = len(regs[0].args) == 2 and isinstance(regs[0].args[1], ast.List) and isinstance(getattr(regs[0], '_parent', None), ast.Attribute) \
            and regs[0]._parent.attr == 'append' and norm(regs[0]._parent._parent.args[0]) == new_
        chk.ob('C05.d', ok, regs[0], 'what is registered is the candidate map itself')
    d = repo.find(REFS, '_dictionarize')
    ok = any(isinstance(x, ast.IfExp) and norm(x) == 'n if n.tree_name is None else n.tree_name' for x in ast.walk(d))
    chk.ob('C05.d', ok, d, '_dictionarize keys a name by its tree name (falling back to the name object)')
    # every same-spelled token of every candidate module is examined
    lp = [n for n in own_nodes(f) if isinstance(n, ast.For) and 'get_used_names()' in norm(n.iter)]
    def examined_first(loop):
        # a `continue` AFTER the token's candidate map was computed skips nothing that is examined (what happens to the map is the
        # business of the obligations above); break/return, or a continue in front of the examination, lose tokens
        idx = [i for i, st in enumerate(loop.body) if isinstance(st, ast.Assign) and call_name(st.value) == '_dictionarize']
        for j in loop_escapes(loop):
            if not isinstance(j, ast.Continue) or not idx:
                return False
            top = next((i for i, st in enumerate(loop.body) if any(x is j for x in ast.walk(st))), -1)
            if top <= idx[0]:
                return False
        return True
    ok = len(lp) == 1 and norm(lp[0].iter).endswith('.get(search_name, [])') and examined_first(lp[0])
    chk.ob('C05.d', ok, lp[0] if lp else f, 'every token spelled like the name is examined in every candidate module (no break/continue)')


def rule_e(repo, chk):
    chk.clause('C05.e', 'occurrences in other files of the project reach rename through the project-wide search, whose pre-filter must not lose '
                        'a file that mentions the name (checked as C19.c; re-run here)')
    from . import c19
    from ..report import Relabel
    c19.rule_c(repo, Relabel(chk, 'C05.e'))


def rule_f(repo, chk):
    chk.clause('C05.f', 'the project-wide search for other modules is skipped only for PARAMETERS (or when the caller asked for this module '
                        'only): the assignment `potential_modules = module_contexts` in find_references is reached only through '
                        '`only_in_module` or a test of api_type == \'param\' (a helper that answers true for anything else - function locals can '
                        'be module globals through a `global` statement - loses references in other files)')
    f = repo.find(REFS, 'find_references')
    skips = [a for a in stmts_in(f, ast.Assign) if norm(a.targets[0]) == 'potential_modules' and norm(a.value) == 'module_contexts']
    chk.floor('C05.f', len(skips), 1, '(the no-scan branch of find_references)')

    def is_param_test(e):
        return isinstance(e, ast.Compare) and len(e.ops) == 1 and isinstance(e.ops[0], ast.Eq) and isinstance(e.left, ast.Attribute) \
            and e.left.attr == 'api_type' and isinstance(e.comparators[0], ast.Constant) and e.comparators[0].value == 'param'

    def accept(e, pol):
        if not pol:
            return False
        if isinstance(e, ast.Name) and e.id == 'only_in_module':
            return True
        if isinstance(e, ast.Call) and call_name(e) == 'any' and e.args and isinstance(e.args[0], (ast.GeneratorExp, ast.ListComp)):
            elt = e.args[0].elt
            if is_param_test(elt):
                return True
            # a helper predicate: every truthy return of it must be under api_type == 'param'
            if isinstance(elt, ast.Call):
                r = repo.resolve(elt.func)
                d = repo.def_by_dotted(r) if r else None
                if d is not None:
                    rets = [x for x in stmts_in(d, ast.Return) if not (isinstance(x.value, ast.Constant) and not x.value.value)]
                    return bool(rets) and all(is_param_test(x.value) or gate(d, x, lambda e2, p2: p2 and is_param_test(e2)) is None for x in rets)
        return False
    for a in skips:
        w = gate(f, a, accept)
        chk.ob('C05.f', w is None, a, 'other modules are left out of the reference search only for parameters / on request', w or '')


def rule_g(repo, chk):
    chk.clause('C05.g', 'the keyword of a call argument (`f(kw=1)`) is linked to the parameter `kw` of EVERY signature of EVERY callable the callee '
                        'may be: the named-argument branch of AbstractTreeName.goto walks all values, all signatures and all parameter names '
                        'without leaving early (a rename of the parameter must reach the keyword whichever callable is meant)')
    f = repo.find('jedi.inference.names', 'AbstractTreeName.goto')
    loops = [n for n in own_nodes(f) if isinstance(n, ast.For) and any(isinstance(x, ast.Call) and call_name(x) == 'get_param_names' for x in ast.walk(n))]
    outer = [l for l in loops if not any(l is not m and any(x is l for x in ast.walk(m)) for m in loops)]
    comps = [n for n in own_nodes(f) if isinstance(n, (ast.ListComp, ast.GeneratorExp, ast.SetComp))
             and any(isinstance(x, ast.Call) and call_name(x) == 'get_param_names' for x in ast.walk(n))
             and not any(any(x is n for x in ast.walk(l)) for l in loops)]
    chk.floor('C05.g', len(outer) + len(comps), 1, 'the walk over get_param_names() in AbstractTreeName.goto')
    for l in outer:
        esc = []
        for m in [l] + [x for x in ast.walk(l) if isinstance(x, ast.For) and x is not l]:
            esc += [j for j in loop_escapes(m, (ast.Break, ast.Return))]
        chk.ob('C05.g', not esc, l, 'no break/return inside the walk over values x signatures x parameter names (every callable contributes its parameter)',
               'leaves early at line %s' % sorted({e.lineno for e in esc}))
        srcs = [norm(x.iter) for x in ast.walk(l) if isinstance(x, (ast.For, ast.comprehension))]
        ok = any(s.endswith('.get_signatures()') for s in srcs) and any(s.endswith('.get_param_names()') for s in srcs)
        chk.ob('C05.g', ok, l, 'the walk goes over value.get_signatures() and signature.get_param_names()', str(srcs))
        cmp_ = [x for x in ast.walk(l) if isinstance(x, ast.Compare) and 'string_name' in norm(x)]
        ok = len(cmp_) == 1 and isinstance(cmp_[0].ops[0], (ast.Eq, ast.NotEq)) and sorted(re.sub(r'^\w+\.string_name$', '<p>.string_name', t) for t in (norm(cmp_[0].left), norm(cmp_[0].comparators[0]))) == ['<p>.string_name', 'name.value']
        chk.ob('C05.g', ok, l, 'a parameter is selected by equality of its string_name with the keyword\'s text', str([norm(c) for c in cmp_]))


def rule_h(repo, chk):
    chk.clause('C05.h', 'names bound under a `global` statement are connected whatever binds them (assignment, def, class, import, for): in '
                        '_find_global_variables a defining name is passed over only when it has no tree name or its module has no global filter')
    f = repo.find(REFS, '_find_global_variables')
    lp = [n for n in own_nodes(f) if isinstance(n, ast.For) and norm(n.iter) == 'names']
    chk.floor('C05.h', len(lp), 1, 'loop over the defining names in _find_global_variables')
    from ..lib import dominating_facts
    for l in lp:
        v = norm(l.target)
        for j in loop_escapes(l):
            if isinstance(j, ast.Continue) and any(isinstance(a, ast.ExceptHandler) for a in repo.ancestors(j)):
                continue        # except AttributeError: the root context has no global filter
            facts = [(norm(e), pol) for e, pol in dominating_facts(f, j)]
            ok = isinstance(j, ast.Continue) and facts == [('%s.tree_name is None' % v, True)]
            chk.ob('C05.h', ok, j, 'a defining name is skipped only because it has no tree name', 'skipped under %s' % facts)
        ys = [y for y in ast.walk(l) if isinstance(y, (ast.Yield, ast.YieldFrom))]
        chk.ob('C05.h', len(ys) >= 2, l, 'the global names and the names of their contexts are yielded')
        for y in ys:
            extra = [(norm(e), pol) for e, pol in dominating_facts(f, y) if 'api_type' in norm(e) or 'type' in norm(e).split('.')[-1:]]
            chk.ob('C05.h', not extra, y, 'no test of the kind of binding in front of the yield', str(extra))


def describe(chk):
    chk.undecided('behaviour preservation of the renamed program, the partition property of get_references, the byte round trip (all run-time); '
                  'which modules are candidates (get_module_contexts_containing_name)')


RULES = [('C05.a', rule_a), ('C05.b', rule_b), ('C05.c', rule_c), ('C05.d', rule_d), ('C05.e', rule_e), ('C05.f', rule_f), ('C05.g', rule_g), ('C05.h', rule_h)]
