"""C10 — import statements resolve to what Python's import system would load (delegation wiring).

Decided: jedi delegates the precedence questions to importlib in the target interpreter and
wires the composed search path into that delegation; sys.path is swapped and restored around
it; the one precedence rule jedi implements itself (from-import: attribute first, then
sub-module) is the same in both sibling implementations; relative levels use the package."""
import ast
import re

from ..core import AnchorError, call_name, decorators, norm, short, own_nodes, kwarg, FUNC_TYPES
from ..cfg import cfg_of
from ..lib import calls_in, stmts_in, gate, must_pass, node_has, params, paired_correlated, none_accept, if_test_texts

IMP = 'jedi.inference.imports'
FUNCS = 'jedi.inference.compiled.subprocess.functions'


def rule_a(repo, chk):
    chk.clause('C10.a', 'top-level lookups run against the composed path: in import_module, with no parent module, the sys_path parameter reaches '
                        'get_module_info(sys_path=..., is_global_search=True); otherwise parent.py__path__() reaches path= with '
                        'is_global_search=False; Importer.follow passes get_sys_path() + detected modifications (a fresh list) or the fixed relative base')
    f = repo.find(IMP, 'import_module')
    gi = calls_in(f, 'get_module_info')
    chk.floor('C10.a', len(gi), 1)
    for c in gi:
        glob = kwarg(c, 'is_global_search')
        if isinstance(glob, ast.Constant) and glob.value is True:
            ok = norm(kwarg(c, 'sys_path')) == 'sys_path' and kwarg(c, 'path') is None
            chk.ob('C10.a', ok, c, 'the global lookup passes sys_path=sys_path', 'keywords: %s' % {k.arg: norm(k.value) for k in c.keywords})
            w = gate(f, c, lambda e, pol: pol and norm(e) == 'parent_module_value is None')
            chk.ob('C10.a', w is None, c, '... exactly when there is no parent module', w or '')
        else:
            ok = isinstance(glob, ast.Constant) and glob.value is False and norm(kwarg(c, 'path')) == 'paths' and kwarg(c, 'sys_path') is None
            chk.ob('C10.a', ok, c, 'the sub-module lookup passes path=paths and is_global_search=False', 'keywords: %s' % {k.arg: norm(k.value) for k in c.keywords})
            ps = [s for s in stmts_in(f, ast.Assign) if norm(s.targets[0]) == 'paths']
            chk.ob('C10.a', len(ps) == 1 and norm(ps[0].value) == 'parent_module_value.py__path__()', f, 'paths is the parent package\'s __path__')
        chk.ob('C10.a', norm(kwarg(c, 'full_name')) == 'module_name', c, 'the dotted name is passed as full_name')
    chk.ob('C10.a', not [s for s in stmts_in(f, (ast.Assign, ast.AugAssign)) if any(isinstance(t, ast.Name) and t.id == 'sys_path' and isinstance(t.ctx, ast.Store) for t in ast.walk(s))],
           f, 'import_module does not re-bind sys_path')
    fo = repo.find(IMP, 'Importer.follow')
    ib = [c for c in calls_in(fo, 'import_module_by_names')]
    ok = len(ib) == 1 and norm(ib[0].args[2]) == 'sys_path'
    sp = [s for s in stmts_in(fo, ast.Assign) if norm(s.targets[0]) == 'sys_path']
    ok = ok and len(sp) == 1 and norm(sp[0].value) == 'self._sys_path_with_modifications(is_completion=False)'
    chk.ob('C10.a', ok, fo, 'Importer.follow hands _sys_path_with_modifications() to import_module_by_names')
    sm = repo.find(IMP, 'Importer._sys_path_with_modifications')
    rets = stmts_in(sm, ast.Return)
    main = [r for r in rets if isinstance(r.value, ast.BinOp)]
    ok = len(main) == 1 and isinstance(main[0].value.op, ast.Add) and call_name(main[0].value.left) == 'get_sys_path' and \
        'check_sys_path_modifications(self._module_context)' in norm(main[0].value.right)
    chk.ob('C10.a', ok, sm, 'the search path is get_sys_path(...) + detected sys.path modifications, built as a NEW list (the memoised path is not extended in place)',
           str([norm(r.value) for r in rets]))
    fixed = [r for r in rets if norm(r.value) == 'self._fixed_sys_path']
    ok = len(fixed) == 1 and gate(sm, fixed[0], none_accept('self._fixed_sys_path')) is None
    chk.ob('C10.a', ok, sm, 'a relative import beyond the known package uses the fixed base directory')
    bn = repo.find(IMP, 'import_module_by_names')
    c = [x for x in calls_in(bn, 'import_module', nested=True)]
    ok = len(c) == 1 and norm(c[0].args[1]) == 'str_import_names[:i + 1]' and norm(c[0].args[2]) == 'parent_module_value' and norm(c[0].args[3]) == 'sys_path'
    chk.ob('C10.a', ok, bn, 'each component is imported with the prefix path, its parent module and the same sys_path')


def rule_b(repo, chk):
    chk.clause('C10.b', 'functions.get_module_info swaps sys.path for the given list and restores it in finally; _find_module consults sys.meta_path '
                        'in order, stops at the first spec (break), skips only frozen, and hands namespace packages on with their plain path list')
    g = repo.find(FUNCS, 'get_module_info')
    swaps = []
    for s in stmts_in(g, ast.Assign):
        tg = s.targets[0]
        pairs = list(zip(tg.elts, s.value.elts)) if isinstance(tg, ast.Tuple) and isinstance(s.value, ast.Tuple) else [(tg, s.value)]
        for t, v in pairs:
            if repo.resolve(t) == 'sys.path' and norm(v) == 'sys_path':
                swaps.append(s)
    chk.ob('C10.b', len(swaps) == 1, g, 'get_module_info installs the given sys_path as sys.path')
    for s in swaps:
        w = paired_correlated(g, s, lambda n: isinstance(n.ast, ast.Assign) and repo.resolve(n.ast.targets[0]) == 'sys.path' and isinstance(n.ast.value, ast.Name) and n.ast.value.id != 'sys_path')
        chk.ob('C10.b', w is None, s, 'and restores the previous one on every exit', w or '')
    fm = calls_in(g, '_find_module')
    ok = bool(fm) and all(any(k.arg is None for k in c_.keywords) and norm(kwarg(c_, 'full_name')) == 'full_name' for c_ in fm)
    chk.ob('C10.b', ok, g, 'the lookup itself is _find_module(full_name=..., **kwargs)')
    rets = [r for r in stmts_in(g, ast.Return) if norm(r.value) == '(None, None)']
    ok = bool(rets) and all(any(isinstance(a, ast.ExceptHandler) and 'ImportError' in norm(a.type) for a in repo.ancestors(r)) for r in rets)
    chk.ob('C10.b', ok, g, 'ImportError means "no such module": (None, None)')
    f = repo.find(FUNCS, '_find_module')
    loops = [n for n in own_nodes(f) if isinstance(n, ast.For) and repo.resolve(n.iter) == 'sys.meta_path']
    chk.ob('C10.b', len(loops) == 1, f, '_find_module walks sys.meta_path in order')
    if loops:
        lp = loops[0]
        brk = [x for x in ast.walk(lp) if isinstance(x, ast.Break)]
        ok = len(brk) == 1 and gate(f, brk[0], none_accept('spec')) is None
        chk.ob('C10.b', ok, lp, 'the first finder that returns a spec wins (break)')
        # a finder is passed over (next iteration without break/return) only for: no find_spec (AttributeError), no spec, or a frozen spec
        cg = cfg_of(f)
        heads = [n for n in cg.nodes if n.kind == 'for' and n.ast is lp]
        body0 = [m for h in heads for m, k in h.succ if k == 'T']

        def skip_reason(n, k, m):
            if n.kind == 'test' and k in ('T', 'F'):
                for e, pol in ((n.ast, k == 'T'),):
                    t = norm(e)
                    if (t == 'spec is not None' and not pol) or (t == 'spec is None' and pol):
                        return True
                    if t in ("spec.origin == 'frozen'", "spec.origin != 'frozen'") and (pol == (t == "spec.origin == 'frozen'")):
                        return True
            return False
        handler_nodes = [n for n in cg.nodes if n.kind == 'handler' and 'AttributeError' in norm(n.ast.type or ast.Constant(value=''))]
        p_ = cg.reach(body0, lambda n: n in heads, block_node=lambda n: n in handler_nodes or (isinstance(n.ast, (ast.Break, ast.Return)) and n.kind == 'stmt'),
                      block_edge=skip_reason, kinds={'n', 'T', 'F', 'exc'}) if body0 else None
        chk.ob('C10.b', bool(body0) and p_ is None, lp, 'only frozen specs and finders without find_spec (or without a spec) are skipped',
               cg.describe(p_) if p_ else '')
        ns = [c for c in ast.walk(lp) if isinstance(c, ast.Call) and call_name(c) == 'ImplicitNSInfo']
        ok = len(ns) == 1 and norm(ns[0].args[1]) == 'spec.submodule_search_locations._path'
        chk.ob('C10.b', ok, lp, 'a namespace package is reported with the plain list of its portions (not importlib\'s live, self-recomputing _NamespacePath)',
               norm(ns[0].args[1]) if ns else '')
        ptest = [t for t in if_test_texts(lp, nested=True) if 'is_global_search' in t]
        ptest += [norm(x.test) for x in ast.walk(lp) if isinstance(x, ast.IfExp) and 'is_global_search' in norm(x.test)]     # `p = None if <test> else path`
        ok = ptest == ['is_global_search and finder != importlib.machinery.PathFinder']
        chk.ob('C10.b', ok, lp, 'non-PathFinder finders are asked without a path on a global search')
    rets = [r for r in stmts_in(f, ast.Return) if call_name(r.value) == '_find_module_py33']
    chk.ob('C10.b', len(rets) == 1 and [norm(a) for a in rets[0].value.args] == ['string', 'path', 'loader'], f, 'the loader found is handed on')


def rule_c(repo, chk):
    chk.clause('C10.c', 'from-import prefers an attribute of the package, then a sub-module — in both sibling implementations: infer_import and '
                        'goto_import first ask the already-imported package and only on an empty answer build Importer(path + (name,))')
    for q, ask in (('infer_import', 'py__getattribute__'), ('goto_import', 'goto')):
        f = repo.find(IMP, q)
        c = cfg_of(f)
        asks = [n for n in c.nodes if node_has(n, lambda x: isinstance(x, ast.Call) and call_name(x) == ask and x.args and norm(x.args[0]) == 'from_import_name')]
        imps = [n for n in c.nodes if node_has(n, lambda x: isinstance(x, ast.Call) and call_name(x) == 'Importer')]
        chk.ob('C10.c', len(asks) == 1 and len(imps) == 1, f, '%s asks the package for the attribute (%s) and has one sub-module fallback' % (q, ask))
        if asks and imps:
            p = c.reach([c.entry], lambda n: n in imps, block_node=lambda n: n in asks)
            chk.ob('C10.c', p is None, imps[0].ast, '%s: the sub-module importer is only built after the attribute lookup' % q, 'path: %s' % c.describe(p) if p else '')
            ic = [x for x in ast.walk(imps[0].ast) if isinstance(x, ast.Call) and call_name(x) == 'Importer'][0]
            pa = [s for s in stmts_in(f, ast.Assign) if norm(s.targets[0]) == 'path']
            ok = norm(ic.args[1]) == 'path' and len(pa) == 1 and norm(pa[0].value) == 'import_path + (from_import_name,)'
            chk.ob('C10.c', ok, ic, '%s: the fallback imports import_path + (from_import_name,)' % q)
            ok = norm(ic.args[2]) == 'module_context' and norm(ic.args[3]) == 'level'
            chk.ob('C10.c', ok, ic, '%s: with the same module context and relative level' % q)
    fg = repo.find(IMP, 'goto_import')
    for ic in calls_in(fg, 'Importer'):
        def attr_found_nothing(e, pol):
            if norm(e) == 'names' and pol is False:
                return True
            return pol is True and isinstance(e, ast.Call) and call_name(e) == 'any' and 'tree_name is tree_name' in norm(e)
        w = gate(fg, ic, attr_found_nothing)
        chk.ob('C10.c', w is None, ic, 'goto_import falls back to the sub-module only when the attribute lookup found nothing (or only the import itself)', w or '')
    fi = repo.find(IMP, 'infer_import')
    imp_call = [c for c in calls_in(fi, 'Importer')]
    if imp_call:
        w = gate(fi, imp_call[0], lambda e, pol: (not pol) and norm(e) == 'values')
        chk.ob('C10.c', w is None, imp_call[0], 'infer_import falls back only when the attribute lookup was empty', w or '')
    pr = repo.find(IMP, '_prepare_infer_import')
    ok = any(norm(s) == 'from_import_name = import_path[-1]' for s in stmts_in(pr, ast.Assign)) and any(norm(s) == 'import_path = from_names' for s in stmts_in(pr, ast.Assign))
    chk.ob('C10.c', ok, pr, 'for `from a.b import c` the package a.b is imported first and c is looked up in it')


def rule_d(repo, chk):
    chk.clause('C10.d', 'relative level arithmetic uses the module\'s package: Importer.__init__ takes base from module_context.get_value().py__package__(), '
                        'drops level-1 trailing components, and otherwise falls back to directory arithmetic from py__file__()/project path')
    f = repo.find(IMP, 'Importer.__init__')
    b = [s for s in stmts_in(f, ast.Assign) if norm(s.targets[0]) == 'base']
    vals = [norm(s.value) for s in b]
    ok = 'module_context.get_value().py__package__()' in vals and 'base[:-level + 1]' in vals
    chk.ob('C10.d', ok, f, 'base = py__package__(), shortened by base[:-level + 1] for level > 1', str(vals))
    for s in b:
        if norm(s.value) == 'base[:-level + 1]':
            w = gate(f, s, lambda e, pol: pol and norm(e) == 'level > 1')
            chk.ob('C10.d', w is None, s, 'the slice is applied only for level > 1 (level 1 = the package itself)', w or '')
    tests = [norm(x) for x in own_nodes(f) if isinstance(x, ast.Compare) and 'len(base)' in norm(x)]
    chk.ob('C10.d', tests == ['level <= len(base)'], f, 'the package route is taken while level <= len(base)', str(tests))
    ok = any(norm(s) == 'import_path = base + tuple(import_path)' for s in stmts_in(f, ast.Assign))
    chk.ob('C10.d', ok, f, 'the relative path is resolved against the package')
    ok = any(call_name(c) == '_level_to_base_import_path' for c in calls_in(f))
    chk.ob('C10.d', ok, f, 'beyond the package: directory arithmetic')
    lv = repo.find(IMP, '_level_to_base_import_path')
    ok = any(isinstance(x, ast.For) and norm(x.iter) == 'range(level - 1)' for x in own_nodes(lv))
    chk.ob('C10.d', ok, lv, 'level-1 directories are climbed')
    mp = repo.find('jedi.inference.value.module', 'ModuleValue.py__package__')
    vals = [norm(r.value) for r in stmts_in(mp, ast.Return)]
    ok = 'self.string_names' in vals and 'self.string_names[:-1]' in vals
    chk.ob('C10.d', ok, mp, 'py__package__ is the module\'s own dotted name for packages and its parent for modules', str(vals))
    # pkgutil-style namespace portions: any directory of that name on the search path
    pp = repo.find('jedi.inference.value.module', 'ModuleValue.py__path__')
    ok = any(isinstance(x, ast.Call) and repo.resolve(x.func) == 'os.path.isdir' for x in ast.walk(pp)) and \
        not any(isinstance(x, ast.Constant) and x.value == '__init__.py' for x in ast.walk(pp) if not isinstance(getattr(x, '_parent', None), ast.Expr))
    chk.ob('C10.d', ok, pp, 'a pkgutil/pkg_resources namespace collects every directory of that name (portions need no __init__.py)')


def rule_e(repo, chk):
    chk.clause('C10.e', 'module search locations keep a defined order: no producer of a search path (py__path__ implementations, the project and '
                        'environment sys path getters) returns a sequence obtained by iterating a set/ValueSet without a sort — with a name clash '
                        'between two locations the first one wins, so the order decides which file an import resolves to')
    from ..order import OrderAnalysis
    oa = OrderAnalysis(repo)
    names = ('py__path__', '_get_base_sys_path', 'discover_buildout_paths')
    n = 0
    for nm in names:
        for m, q, f in repo.methods_by_name.get(nm, []):
            n += 1
            bad = []
            for kind, v in oa.returns(f):
                if kind == 'ret' and oa.is_unordered(v, f):
                    bad.append('returns `%s`' % short(v, 60))
                elif kind == 'yieldfrom' and oa.is_unordered(v, f):
                    bad.append('yields from `%s`' % short(v, 60))
                elif kind == 'yield' and oa.yield_in_unordered_loop(v, f):
                    bad.append('yields in a loop over a set')
            known_src = any('check_sys_path_modifications' in b or 'discover_buildout_paths' in b for b in bad)
            chk.ob('C10.e', not bad, f, 'search-location producer %s:%s returns its entries in a hash/address independent order' % (m.name, q),
                   '; '.join(bad), key='ordered-locations|%s:%s' % (m.name, q))
    chk.floor('C10.e', n, 5, '(search-location producers)')


def _rest_is_tested(repo, f, c):
    """after `str(module_path).startswith(p)` the remainder is only split into name parts when it starts with a separator, is empty,
    or p itself ends with one"""
    splits = [x for x in own_nodes(f) if isinstance(x, ast.Call) and isinstance(x.func, ast.Attribute) and x.func.attr == 'split'
              and norm(x.func.value) == 'rest']
    if not splits:
        return 'no `rest.split(...)` found'

    def accept(e, pol):
        if isinstance(e, ast.Call) and isinstance(e.func, ast.Attribute) and pol:
            if e.func.attr == 'startswith' and norm(e.func.value) == 'rest':
                return True
            if e.func.attr == 'endswith' and norm(e.func.value) == norm(c.args[0]):
                return True
        if isinstance(e, ast.Name) and e.id == 'rest' and not pol:
            return True             # an empty remainder is never split (the same test guards the split)
        return False
    for sp in splits:
        w = gate(f, sp, accept)
        if w is not None:
            return 'the remainder is turned into a dotted name although no separator follows the prefix: %s' % w
    return None


PREFIX_CHECKED = {
    ('jedi.inference.sys_path', 'transform_path_to_dotted.iter_potential_solutions', '*'):
        ('a search path entry names a module only if a separator follows it in the module path (or it ends with one)', _rest_is_tested),
}


def rule_f(repo, chk):
    chk.clause('C10.f', 'the dotted name of a file is derived from a search path entry that is one of its PARENT DIRECTORIES: the string-prefix '
                        'test in transform_path_to_dotted is completed by a separator test before the remainder is split into names')
    from ..lib import path_prefix_check
    path_prefix_check(repo, chk, 'C10.f', ['jedi.inference.sys_path', 'jedi.inference.imports'], checked=PREFIX_CHECKED, floor=1)


SEARCH_PATH_MODULES = ['jedi.inference.value.namespace', 'jedi.inference.value.module', 'jedi.inference.imports', 'jedi.api.project', 'jedi.inference.compiled.subprocess.functions']
REORDER_TRIAGED = {
    ('jedi.inference.imports', '_load_builtin_module', 'set(project._get_base_sys_path(inference_state))'):
        'a membership table (safe_paths) used to FILTER sys_path in its own order, never iterated',
}


def rule_g(repo, chk):
    chk.clause('C10.g', 'search order is meaning: a list of search locations (sys.path entries, the portions of a namespace package, __path__) is '
                        'handed on in the order it was delivered - in the modules that carry such lists no sorted()/set()/reversed()/'
                        'frozenset() is applied to a value named like a path list (the first portion that has a sub-module wins, as in '
                        'Python); ImplicitNamespaceValue stores the portions it is given unchanged')
    n = 0
    pat = re.compile(r'(^|_)(paths?|sys_path|portions?)$')
    for mn in SEARCH_PATH_MODULES:
        m = repo.module(mn)
        for q, f in sorted(m.defs.items()):
            if not isinstance(f, FUNC_TYPES):
                continue
            for c in own_nodes(f):
                if isinstance(c, ast.Call) and isinstance(c.func, ast.Name) and c.func.id in ('sorted', 'set', 'frozenset', 'reversed') and c.args:
                    a = c.args[0]
                    root = a
                    while isinstance(root, ast.Call) and root.args and isinstance(root.func, ast.Name) and root.func.id in ('set', 'frozenset', 'list', 'tuple'):
                        root = root.args[0]
                    ident = root.id if isinstance(root, ast.Name) else root.attr if isinstance(root, ast.Attribute) else \
                        (call_name(root) if isinstance(root, ast.Call) else None)
                    if not ident or not (pat.search(ident) or 'sys_path' in ident):
                        continue
                    n += 1
                    tk = (mn, q, norm(c))
                    if tk in REORDER_TRIAGED:
                        chk.ob('C10.g', True, c, '`%s` in %s: triaged (%s)' % (short(c, 60), q, REORDER_TRIAGED[tk]))
                        continue
                    chk.ob('C10.g', False, c, 'the order of the search locations `%s` in %s is kept' % (short(a, 40), q),
                           '`%s` re-orders or de-orders them' % short(c, 60), key='path-order|%s:%s|%s' % tk)
    ns = repo.find('jedi.inference.value.namespace', 'ImplicitNamespaceValue.__init__')
    st = [a for a in stmts_in(ns, ast.Assign) if norm(a.targets[0]) == 'self._paths']
    ok = len(st) == 1 and (norm(st[0].value) == 'paths' or norm(st[0].value) in ('list(paths)', 'tuple(paths)'))
    chk.ob('C10.g', ok, ns, 'ImplicitNamespaceValue keeps the portions in the order importlib delivered them', str([norm(a.value) for a in st]))
    chk.notes['C10.g re-ordering calls on path lists examined'] = n


def describe(chk):
    chk.undecided('agreement with importlib over all directory trees (run-time oracle); the path -> dotted name direction (transform_path_to_dotted)')


RULES = [('C10.a', rule_a), ('C10.b', rule_b), ('C10.c', rule_c), ('C10.d', rule_d), ('C10.e', rule_e), ('C10.f', rule_f), ('C10.g', rule_g)]
