"""C13 — Interpreter: safe mode runs no user descriptors / container protocols; names are complete.

Sinks are the operations on a *live* object that run user code for exactly the protocols the
property lists: S1 = a real attribute fetch with a caller-supplied name (getattr/hasattr);
S2 = subscripting, iterating, calling, len(), next(), truthiness of the object.  Every sink
must be dominated by an exact-type gate (type(o) in <builtin types>; isinstance does not
count: a subclass can override the protocol) or by the safe/allow_unsafe switch."""
import ast

from ..core import AnchorError, atoms, call_name, dotted_text, names_in, norm, short, own_nodes, kwarg, FUNC_TYPES
from ..cfg import cfg_of
from ..lib import calls_in, stmts_in, gate, must_pass, node_has, params, param_default, attr_stores, key_function, loop_escapes

ACCESS = 'jedi.inference.compiled.access'
VALUE = 'jedi.inference.compiled.value'
MIXED = 'jedi.inference.compiled.mixed'
STATIC = 'jedi.inference.compiled.getattr_static'

ITER_FUNCS = {'iter', 'list', 'tuple', 'set', 'frozenset', 'sorted', 'enumerate', 'zip', 'any', 'all', 'sum', 'min', 'max',
              'map', 'filter', 'reversed', 'dict', 'deque', 'Counter'}
BUILTIN_CONTAINERS = {'str', 'list', 'tuple', 'bytes', 'bytearray', 'dict', 'set', 'frozenset', 'range', 'int', 'float',
                      'bool', 'complex', 'slice', 'NoneType', 'memoryview'}


def live_exprs(func):
    """Predicate: does this expression denote the live object?  `self._obj`, `<x>._obj`,
    local plain aliases of those, and parameters named obj/python_object of helper functions."""
    aliases = set()
    for p in params(func):
        if p in ('obj', 'python_object', 'original_object'):
            aliases.add(p)
    changed = True

    def is_live(e):
        if isinstance(e, ast.Attribute) and e.attr == '_obj':
            return True
        if isinstance(e, ast.Name) and e.id in aliases:
            return True
        return False
    while changed:
        changed = False
        for s in stmts_in(func, ast.Assign):
            if is_live(s.value):
                for t in s.targets:
                    if isinstance(t, ast.Name) and t.id not in aliases:
                        aliases.add(t.id)
                        changed = True
    return is_live


def find_sinks(repo, func):
    """[(node, 'S1'|'S2', protocol, description)] for the live object in func."""
    is_live = live_exprs(func)
    out = []
    for n in own_nodes(func):
        if isinstance(n, ast.Subscript) and isinstance(n.ctx, ast.Load) and is_live(n.value):
            out.append((n, 'S2', '__getitem__', 'subscript of the live object'))
        elif isinstance(n, ast.Call):
            fn = n.func
            nm = fn.id if isinstance(fn, ast.Name) else None
            if is_live(fn):
                out.append((n, 'S2', '__call__', 'call of the live object'))
            elif nm in ITER_FUNCS and any(is_live(a) for a in n.args):
                out.append((n, 'S2', '__iter__', '%s() over the live object' % nm))
            elif nm == 'next' and n.args and is_live(n.args[0]):
                out.append((n, 'S2', '__next__', 'next() of the live object'))
            elif nm == 'len' and n.args and is_live(n.args[0]):
                out.append((n, 'S2', '__len__', 'len() of the live object'))
            elif nm == 'bool' and n.args and is_live(n.args[0]):
                out.append((n, 'S2', '__bool__', 'bool() of the live object'))
            elif nm in ('getattr', 'hasattr') and len(n.args) >= 2 and is_live(n.args[0]) and not isinstance(n.args[1], ast.Constant):
                out.append((n, 'S1', nm, '%s(live, <caller-supplied name>)' % nm))
        elif isinstance(n, (ast.For, ast.AsyncFor)) and is_live(n.iter):
            out.append((n.iter, 'S2', '__iter__', 'for-loop over the live object'))
        elif isinstance(n, ast.comprehension) and is_live(n.iter):
            out.append((n.iter, 'S2', '__iter__', 'comprehension over the live object'))
        elif isinstance(n, ast.Starred) and is_live(n.value) and isinstance(n.ctx, ast.Load):
            out.append((n, 'S2', '__iter__', 'unpacking of the live object'))
        elif isinstance(n, (ast.If, ast.While, ast.IfExp, ast.Assert)) and is_live(n.test):
            out.append((n.test, 'S2', '__bool__', 'truth value of the live object'))
        elif isinstance(n, ast.BoolOp):
            for v in n.values:
                if is_live(v):
                    out.append((v, 'S2', '__bool__', 'truth value of the live object (and/or)'))
        elif isinstance(n, ast.UnaryOp) and isinstance(n.op, ast.Not) and is_live(n.operand):
            out.append((n.operand, 'S2', '__bool__', 'truth value of the live object (not)'))
        elif isinstance(n, ast.Assign) and isinstance(n.targets[0], (ast.Tuple, ast.List)) and is_live(n.value):
            out.append((n.value, 'S2', '__iter__', 'tuple-unpacking of the live object'))
    out.sort(key=lambda t: (t[0].lineno, t[0].col_offset))
    return out, is_live


def _is_type_of_live(e, is_live):
    return isinstance(e, ast.Call) and isinstance(e.func, ast.Name) and e.func.id == 'type' and len(e.args) == 1 and is_live(e.args[0])


TYPE_TABLES = ('ALLOWED_GETITEM_TYPES', 'ALLOWED_BOOL_TYPES')     # members checked one by one in C13.d


def _builtin_types_expr(repo, e):
    """Is `e` a collection of builtin container types only (literal tuple or the module's
    ALLOWED_GETITEM_TYPES, which C13.d checks member by member)?"""
    if isinstance(e, ast.Name) and e.id in TYPE_TABLES:
        return True
    if isinstance(e, ast.Attribute) and e.attr in TYPE_TABLES:
        return True
    if isinstance(e, (ast.Tuple, ast.List, ast.Set)) and e.elts:
        return all(isinstance(x, ast.Name) and x.id in BUILTIN_CONTAINERS and repo.resolve(x) == 'builtins.' + x.id for x in e.elts)
    return False


def exact_type_gate(repo, is_live):
    def accept(e, pol):
        if isinstance(e, ast.Compare) and len(e.ops) == 1 and _is_type_of_live(e.left, is_live):
            o, r = e.ops[0], e.comparators[0]
            if isinstance(o, ast.In) and pol and _builtin_types_expr(repo, r):
                return True
            if isinstance(o, ast.NotIn) and not pol and _builtin_types_expr(repo, r):
                return True
            if isinstance(o, (ast.Is, ast.Eq)) and pol and isinstance(r, ast.Name) and r.id in BUILTIN_CONTAINERS:
                return True
            if isinstance(o, (ast.IsNot, ast.NotEq)) and not pol and isinstance(r, ast.Name) and r.id in BUILTIN_CONTAINERS:
                return True
        return False
    return accept


def safe_param_gate(func):
    has = 'safe' in params(func)

    def accept(e, pol):
        return has and isinstance(e, ast.Name) and e.id == 'safe' and pol is False
    return accept


def unsafe_switch_gate(e, pol):
    return isinstance(e, ast.Attribute) and e.attr == 'allow_unsafe_executions' and pol is True


def _callsites_gated(repo, chk, rule, method_name, sink, desc):
    """every call site `<x>.method_name(...)` in the package is under allow_unsafe_executions"""
    sites = [c for c in repo.calls_of(method_name) if isinstance(c.func, ast.Attribute)]
    if not sites:
        return True, 'no call site (dead method)'
    bad = []
    for c in sites:
        f = repo.enclosing_func(c)
        if f is None:
            bad.append(repo.where(c))
            continue
        w = gate(f, c, unsafe_switch_gate)
        if w is not None:
            bad.append('%s via %s' % (repo.where(c), w))
    return (not bad), '; '.join(bad)


def rule_a(repo, chk):
    chk.clause('C13.a', 'GATE: every S2 sink on a live object (subscript, iteration, call, len, next, truth value) is dominated by an '
                        'exact-type gate over builtin container types or by the safe switch (in the method, or at every call site)')
    n_s2 = 0
    funcs = []
    for modname in (ACCESS, MIXED):
        m = repo.module(modname)
        for q, node in sorted(m.defs.items()):
            if isinstance(node, FUNC_TYPES):
                funcs.append((modname, q, node))
    for modname, q, f in funcs:
        sinks, is_live = find_sinks(repo, f)
        tg = exact_type_gate(repo, is_live)
        sg = safe_param_gate(f)
        for node, kind, proto, desc in sinks:
            if kind != 'S2':
                continue
            n_s2 += 1
            w = gate(f, node, lambda e, pol: tg(e, pol) or sg(e, pol) or unsafe_switch_gate(e, pol))
            detail = ''
            ok = w is None
            if not ok:
                mname = q.split('.')[-1]
                ok2, d2 = _callsites_gated(repo, chk, 'C13.a', mname, node, desc)
                # an isinstance() test on the path is named in the report (it is not a gate)
                isin = [short(e, 50) for e, pol in __import__('sa.lib', fromlist=['dominating_facts']).dominating_facts(f, node)
                        if isinstance(e, ast.Call) and call_name(e) == 'isinstance']
                detail = 'ungated path: %s%s; call sites: %s' % (w, ('; only an isinstance gate (subclasses pass it): %s' % isin) if isin else '', d2)
                ok = ok2
            chk.ob('C13.a', ok, node, '%s `%s` (runs user %s) is gated by exact builtin type or the safe switch' % (desc, short(node, 40), proto),
                   detail, key='%s:%s|%s|%s' % (modname, q, proto, norm(node)))
    chk.floor('C13.a', n_s2, 3, '(S2 sinks on live objects in access.py/mixed.py)')
    chk.notes['S2_sinks'] = n_s2
    chk.exhaustive_rules.append('C13.a every function of compiled/access.py and compiled/mixed.py scanned for protocol sinks')
    # MixedObject goes to the compiled item access only under the exact-type gate
    f = repo.find(MIXED, 'MixedObject.py__simple_getitem__')
    _, is_live = find_sinks(repo, f)
    tg = exact_type_gate(repo, is_live)
    cs = [c for c in calls_in(f, 'py__simple_getitem__') if 'compiled_value' in norm(c.func)]
    chk.floor('C13.a', len(cs), 1, '(compiled getitem in MixedObject)')
    for c in cs:
        w = gate(f, c, tg)
        chk.ob('C13.a', w is None, c, 'MixedObject indexes the live object only for exact builtin container types', w or '')


def rule_b(repo, chk):
    chk.clause('C13.b', 'GATE: every S1 sink (getattr/hasattr with a caller-supplied name) is reached only after getattr_static classified '
                        'the attribute as harmless, under `not safe`, or through CompiledName objects that are only created for '
                        'non-descriptors unless unsafe executions are allowed')
    # safe_getattr
    f = repo.find(ACCESS, 'safe_getattr')
    sinks, is_live = find_sinks(repo, f)
    s1 = [s for s in sinks if s[1] == 'S1']
    chk.floor('C13.b', len(s1), 1, '(getattr in safe_getattr)')
    static_names = set()
    for s in stmts_in(f, ast.Assign):
        if isinstance(s.value, ast.Call) and call_name(s.value) == 'getattr_static' and isinstance(s.targets[0], ast.Tuple):
            static_names.add(s.targets[0].elts[0].id)

    def allowed_desc(e, pol):
        return pol and isinstance(e, ast.Call) and call_name(e) == 'isinstance' and len(e.args) == 2 and \
            isinstance(e.args[0], ast.Name) and e.args[0].id in static_names and norm(e.args[1]) == 'ALLOWED_DESCRIPTOR_ACCESS'
    for node, kind, proto, desc in s1:
        w = gate(f, node, allowed_desc)
        chk.ob('C13.b', w is None, node, 'safe_getattr fetches for real only what getattr_static classified as a builtin descriptor', w or '')
    # is_allowed_getattr
    f = repo.find(ACCESS, 'DirectObjectAccess.is_allowed_getattr')
    sinks, is_live = find_sinks(repo, f)
    d = param_default(f, 'safe')
    chk.ob('C13.b', isinstance(d, ast.Constant) and d.value is True, f, 'is_allowed_getattr(safe=True) is the default')
    for node, kind, proto, desc in sinks:
        if kind == 'S1':
            w = gate(f, node, safe_param_gate(f))
            chk.ob('C13.b', w is None, node, '`%s` happens only under `not safe`' % short(node, 40), w or '')
    # classification: a get-descriptor of a non-allowed type is reported as (True, True, ...)
    c = cfg_of(f)
    rets = [r for r in stmts_in(f, ast.Return) if isinstance(r.value, ast.Tuple) and len(r.value.elts) == 3 and
            not any(isinstance(a, ast.ExceptHandler) for a in repo.ancestors(r))]
    chk.floor('C13.b', len(rets), 2, '(classification returns of is_allowed_getattr)')

    def is_desc(n, k, m):
        return n.kind == 'test' and isinstance(n.ast, ast.Name) and n.ast.id == 'is_get_descriptor' and k == 'F'

    def is_allowed_type(n, k, m):
        e = n.ast
        if not (n.kind == 'test' and isinstance(e, ast.Compare) and len(e.ops) == 1 and norm(e.comparators[0]) == 'ALLOWED_DESCRIPTOR_ACCESS'
                and norm(e.left).startswith('type(')):
            return False
        # `type(x) not in ALLOWED` taken false, or its complement `type(x) in ALLOWED` taken true
        return (isinstance(e.ops[0], ast.NotIn) and k == 'F') or (isinstance(e.ops[0], ast.In) and k == 'T')
    for r in rets:
        second = r.value.elts[1]
        if isinstance(second, ast.Constant) and second.value is False:
            ids = {n.id for n in c.nodes_of(r)}
            p = c.reach([c.entry], lambda n: n.id in ids, block_edge=lambda n, k, m: is_desc(n, k, m) or is_allowed_type(n, k, m),
                        kinds={'n', 'T', 'F', 'h'})
            chk.ob('C13.b', p is None, r, '"not a descriptor" is answered only when getattr_static saw no __get__ or an allowed builtin descriptor type',
                   'path: %s' % c.describe(p) if p else '')
    # getattr_paths: call-site rule
    gp = repo.find(ACCESS, 'DirectObjectAccess.getattr_paths')
    sinks, _ = find_sinks(repo, gp)
    chk.floor('C13.b', len([s for s in sinks if s[1] == 'S1']), 1, '(getattr in getattr_paths)')
    triaged = {
        (VALUE, 'CheckAttribute.__get__'): 'name is a fixed dunder derived from the decorated py__*__ method (checked below)',
        (VALUE, 'CompiledValue.py__call__'): "constant '__call__'",
        (VALUE, 'CompiledValue._execute_function'): 'receiver is the builtins module, not a user object',
        (VALUE, 'create_from_name'): 'caller-supplied name: only from CompiledName.infer_compiled_value (checked below)',
    }
    sites = repo.calls_of('getattr_paths')
    n = 0
    for cs in sites:
        key = (cs._mod.name, repo.qual_of(cs))
        a0 = cs.args[0] if cs.args else None
        ok = key in triaged
        if key == (VALUE, 'CompiledValue.py__call__'):
            ok = isinstance(a0, ast.Constant)
        if key == (VALUE, 'CompiledValue._execute_function'):
            ok = 'builtins_module' in norm(cs.func)
        n += 1
        chk.ob('C13.b', ok, cs, 'call site `%s` of getattr_paths is triaged' % short(cs, 60), triaged.get(key, 'UNLISTED caller of the real getattr'))
    chk.floor('C13.b', n, 4, '(call sites of getattr_paths)')
    # CheckAttribute users: only fixed protocol names
    for m in repo.modules.values():
        for q, node in m.defs.items():
            if isinstance(node, FUNC_TYPES):
                for d in node.decorator_list:
                    if isinstance(d, ast.Call) and call_name(d) == 'CheckAttribute':
                        nm = d.args[0].value if d.args and isinstance(d.args[0], ast.Constant) else node.name[2:]
                        ok = isinstance(nm, str) and nm.startswith('__') and nm.endswith('__')
                        chk.ob('C13.b', ok, node, 'CheckAttribute probes the fixed protocol attribute %r' % nm)
    # create_from_name <- CompiledName.infer_compiled_value only
    for cs in repo.calls_of('create_from_name'):
        ok = (cs._mod.name, repo.qual_of(cs)) == (VALUE, 'CompiledName.infer_compiled_value')
        chk.ob('C13.b', ok, cs, 'create_from_name (real getattr with a completion/goto name) is called from CompiledName.infer_compiled_value only')
    # CompiledName constructed only in CompiledValueFilter._create_name
    n_ctor = 0
    for cs in repo.calls_of('CompiledName'):
        n_ctor += 1
        ok = (cs._mod.name, repo.qual_of(cs)) == (VALUE, 'CompiledValueFilter._create_name')
        chk.ob('C13.b', ok, cs, 'CompiledName objects are built in CompiledValueFilter._create_name only')
    chk.floor('C13.b', n_ctor, 1)
    for cs in repo.calls_of('_create_name'):
        q = repo.qual_of(cs)
        ok = (cs._mod.name, q) == (VALUE, 'CompiledValueFilter._get_cached_name') or \
            (q.endswith('._create_name') and norm(cs.func) == 'super()._create_name')     # an override wrapping the result
        chk.ob('C13.b', ok, cs, '_create_name is called from _get_cached_name only (or by an override through super())')
    gc = repo.find(VALUE, 'CompiledValueFilter._get_cached_name')
    for cs in calls_in(gc, '_create_name'):
        w = gate(gc, cs, lambda e, pol: isinstance(e, ast.Name) and e.id == 'is_empty' and pol is False)
        chk.ob('C13.b', w is None, cs, 'a real name is created only when is_empty is false', w or '')
    # _get: the real name only for plain attributes unless unsafe
    g = repo.find(VALUE, 'CompiledValueFilter._get')
    c = cfg_of(g)
    real = [cs for cs in calls_in(g, '_get_cached_name')
            if not (kwarg(cs, 'is_empty') is not None and isinstance(kwarg(cs, 'is_empty'), ast.Constant) and kwarg(cs, 'is_empty').value is True)]
    chk.floor('C13.b', len(real), 1, '(real-name creation in _get)')
    tup = None
    for s in stmts_in(g, ast.Assign):
        if isinstance(s.targets[0], ast.Tuple) and isinstance(s.value, ast.Call) and norm(s.value.func) == 'allowed_getattr_callback':
            tup = [e.id for e in s.targets[0].elts]
    chk.ob('C13.b', tup is not None and len(tup) == 3, g, '_get unpacks (has_attribute, is_descriptor, annotation) from the classification callback')
    if tup:
        has, desc = tup[0], tup[1]

        def unsafe_T(n, k, m):
            return n.kind == 'test' and isinstance(n.ast, ast.Attribute) and n.ast.attr == 'allow_unsafe_executions' and k == 'T'
        for cs in real:
            ids = {n.id for n in c.nodes_containing(cs)}
            p1 = c.reach([c.entry], lambda n: n.id in ids,
                         block_edge=lambda n, k, m: unsafe_T(n, k, m) or (n.kind == 'test' and isinstance(n.ast, ast.Name) and n.ast.id == desc and k == 'F'))
            p2 = c.reach([c.entry], lambda n: n.id in ids,
                         block_edge=lambda n, k, m: unsafe_T(n, k, m) or (n.kind == 'test' and isinstance(n.ast, ast.Name) and n.ast.id == has and k == 'T'))
            chk.ob('C13.b', p1 is None, cs, 'safe mode: a real (fetching) name is never created for a descriptor hit',
                   'path: %s' % c.describe(p1) if p1 else '')
            chk.ob('C13.b', p2 is None, cs, 'safe mode: a real (fetching) name is never created for an attribute getattr_static could not see',
                   'path: %s' % c.describe(p2) if p2 else '')
    # the classification callbacks are is_allowed_getattr results
    get = repo.find(VALUE, 'CompiledValueFilter.get')
    ok = any(isinstance(x, ast.Call) and call_name(x) == 'is_allowed_getattr' and kwarg(x, 'safe') is not None for x in ast.walk(get))
    chk.ob('C13.b', ok, get, 'CompiledValueFilter.get classifies through is_allowed_getattr(name, safe=safe)')
    gdi = repo.find(ACCESS, 'DirectObjectAccess.get_dir_infos')
    ok = any(isinstance(x, ast.Call) and call_name(x) == 'is_allowed_getattr' and len(x.args) == 1 and not x.keywords for x in ast.walk(gdi))
    chk.ob('C13.b', ok, gdi, 'get_dir_infos classifies every dir() name through is_allowed_getattr(name) with the safe default')


def rule_c(repo, chk):
    chk.clause('C13.c', 'FLOW: the switch is wired: InferenceState starts with allow_unsafe_executions=False, the only other write copies '
                        'settings.allow_unsafe_interpreter_executions in Interpreter.__init__; compiled item access passes safe=not allow_unsafe')
    writes = []
    for m in repo.modules.values():
        for x in ast.walk(m.tree):
            if isinstance(x, ast.Attribute) and x.attr == 'allow_unsafe_executions' and isinstance(x.ctx, ast.Store):
                writes.append(x)
            if isinstance(x, ast.Constant) and x.value == 'allow_unsafe_executions' and not isinstance(getattr(x, '_parent', None), ast.Expr):
                chk.ob('C13.c', False, x, 'the switch name appears as a string (setattr?)')
    n = 0
    for w in writes:
        st = repo.enclosing_stmt(w)
        key = (w._mod.name, repo.qual_of(w))
        if key == ('jedi.inference', 'InferenceState.__init__'):
            ok = isinstance(st.value, ast.Constant) and st.value.value is False
            what = 'InferenceState starts in safe mode'
        elif key == ('jedi.api', 'Interpreter.__init__'):
            ok = repo.resolve(st.value) == 'jedi.settings.allow_unsafe_interpreter_executions'
            what = 'Interpreter copies settings.allow_unsafe_interpreter_executions unmodified'
        else:
            ok, what = False, 'UNLISTED write to allow_unsafe_executions'
        n += 1
        chk.ob('C13.c', ok, w, '%s: `%s`' % (what, short(st, 70)))
    chk.floor('C13.c', n, 2, '(writes of the switch)')
    f = repo.find(VALUE, 'CompiledValue.py__simple_getitem__')
    cs = [c for c in calls_in(f, 'py__simple_getitem__') if 'access_handle' in norm(c.func)]
    chk.floor('C13.c', len(cs), 1)
    for c in cs:
        s = kwarg(c, 'safe')
        ok = s is not None and norm(s) == 'not self.inference_state.allow_unsafe_executions'
        chk.ob('C13.c', ok, c, 'CompiledValue.py__simple_getitem__ passes safe=not allow_unsafe_executions', 'safe=%s' % short(s))
    a = repo.find(ACCESS, 'DirectObjectAccess.py__simple_getitem__')
    d = param_default(a, 'safe')
    chk.ob('C13.c', isinstance(d, ast.Constant) and d.value is True, a, 'access.py__simple_getitem__(safe=True) is the default')
    for c in repo.calls_of('py__simple_getitem__'):
        if 'access_handle' in norm(c.func) or (isinstance(c.func, ast.Attribute) and norm(c.func.value).endswith('access')):
            ok = (c._mod.name, repo.qual_of(c)) == (VALUE, 'CompiledValue.py__simple_getitem__')
            chk.ob('C13.c', ok, c, 'the access-level item fetch is requested from CompiledValue.py__simple_getitem__ only')
    g = repo.find(VALUE, 'CompiledValueFilter.get')
    st = [s for s in stmts_in(g, ast.Assign) if any(isinstance(t, ast.Name) and t.id == 'safe' for t in s.targets)]
    ok = bool(st) and all(norm(s.value) == 'not self._inference_state.allow_unsafe_executions' for s in st)
    chk.ob('C13.c', ok, g, 'CompiledValueFilter.get computes safe = not allow_unsafe_executions')
    s = repo.toplevel('jedi.settings', 'allow_unsafe_interpreter_executions')
    chk.ob('C13.c', isinstance(s.value, ast.Constant) and isinstance(s.value.value, bool), s, 'the public setting is a plain boolean')


def rule_d(repo, chk):
    chk.clause('C13.d', 'TABLE: ALLOWED_GETITEM_TYPES holds only builtin container types; ALLOWED_DESCRIPTOR_ACCESS only builtin descriptor '
                        'types (no property, no user-subclassable ABC); getattr_static consults the metaclass MRO for types and reports '
                        '__get__ presence for class hits')
    t = repo.toplevel(ACCESS, 'ALLOWED_GETITEM_TYPES')
    elts = t.value.elts if isinstance(t.value, (ast.Tuple, ast.List)) else None
    chk.ob('C13.d', elts is not None, t, 'ALLOWED_GETITEM_TYPES is a literal tuple')
    for e in elts or []:
        ok = isinstance(e, ast.Name) and e.id in BUILTIN_CONTAINERS and repo.resolve(e) == 'builtins.' + e.id
        chk.ob('C13.d', ok, e, 'ALLOWED_GETITEM_TYPES member `%s` is a builtin container type' % short(e), 'resolves to %s' % repo.resolve(e))
    chk.floor('C13.d', len(elts or []), 3)
    # further exact-type tables used as gates (same demand: builtin types only; `type(None)` is NoneType)
    for tname in TYPE_TABLES[1:]:
        tb = repo.module(ACCESS).top.get(tname)
        if tb is None:
            continue
        els = tb.value.elts if isinstance(getattr(tb, 'value', None), (ast.Tuple, ast.List)) else None
        chk.ob('C13.d', els is not None, tb, '%s is a literal tuple' % tname)
        for e in els or []:
            ok = (isinstance(e, ast.Name) and e.id in BUILTIN_CONTAINERS and repo.resolve(e) == 'builtins.' + e.id) or norm(e) == 'type(None)'
            chk.ob('C13.d', ok, e, '%s member `%s` is a builtin type' % (tname, short(e)), 'resolves to %s' % repo.resolve(e))
        stores = [x for m in repo.modules.values() for x in ast.walk(m.tree) if isinstance(x, ast.Name) and x.id == tname and isinstance(x.ctx, ast.Store)]
        chk.ob('C13.d', len(stores) == 1, tb, '%s is bound exactly once' % tname, '%d bindings' % len(stores))
    # no other binding / mutation of the tables
    for name in ('ALLOWED_GETITEM_TYPES', 'ALLOWED_DESCRIPTOR_ACCESS'):
        stores = [x for m in repo.modules.values() for x in ast.walk(m.tree)
                  if isinstance(x, ast.Name) and x.id == name and isinstance(x.ctx, ast.Store)]
        chk.ob('C13.d', len(stores) == 1, stores[0] if stores else None, '%s is bound exactly once' % name, '%d bindings' % len(stores))
    d = repo.toplevel(ACCESS, 'ALLOWED_DESCRIPTOR_ACCESS')
    elts = d.value.elts if isinstance(d.value, (ast.Tuple, ast.List)) else []
    mod = repo.module(ACCESS)
    for e in elts:
        r = repo.resolve(e)
        ok = False
        why = r
        if r and r.startswith('types.') and r.split('.')[1] in ('FunctionType', 'GetSetDescriptorType', 'MemberDescriptorType', 'BuiltinFunctionType',
                                                                   'MethodDescriptorType', 'WrapperDescriptorType', 'ClassMethodDescriptorType',
                                                                   'MethodWrapperType', 'BuiltinMethodType', 'LambdaType', 'MethodType'):
            ok = True
        elif r in ('builtins.staticmethod', 'builtins.classmethod'):
            ok = True
        elif r and r.startswith(ACCESS + '.'):
            b = mod.top.get(r.split('.')[-1])
            # e.g. MethodDescriptorType = type(str.replace): type() of an attribute of a builtin
            if isinstance(b, ast.Assign) and isinstance(b.value, ast.Call) and call_name(b.value) == 'type' and len(b.value.args) == 1:
                src = b.value.args[0]
                root = src
                while isinstance(root, (ast.Attribute, ast.Subscript)):
                    root = root.value
                ok = isinstance(root, ast.Name) and (repo.resolve(root) or '').startswith(('builtins.', ACCESS + '.object_class_dict'))
                why = 'type(%s)' % short(src)
        chk.ob('C13.d', ok, e, 'ALLOWED_DESCRIPTOR_ACCESS member `%s` is a builtin descriptor type' % short(e), 'is %s' % why)
    chk.floor('C13.d', len(elts), 4)
    # getattr_static
    g = repo.find(STATIC, 'getattr_static')
    rets = [r for r in stmts_in(g, ast.Return) if isinstance(r.value, ast.Tuple) and len(r.value.elts) == 2]
    chk.floor('C13.d', len(rets), 4, '(returns of getattr_static)')
    klass_ret = [r for r in rets if isinstance(r.value.elts[0], ast.Name) and r.value.elts[0].id == 'klass_result']
    ok = bool(klass_ret) and all(
        (isinstance(r.value.elts[1], ast.Constant) and r.value.elts[1].value is True) or
        (isinstance(r.value.elts[1], ast.Call) and call_name(r.value.elts[1]) == '_safe_hasattr' and
         norm(r.value.elts[1].args[0]) == 'klass_result' and getattr(r.value.elts[1].args[1], 'value', None) == '__get__')
        for r in klass_ret)
    chk.ob('C13.d', ok, g, 'a class-level hit is reported with is_get_descriptor = has __get__ (never a constant False)',
           str([short(r) for r in klass_ret]))
    # every hit that comes out of a class dictionary (class MRO or metaclass MRO) is classified, never a constant False
    for r in rets:
        first, second = r.value.elts
        is_inst = isinstance(first, ast.Name) and first.id == 'instance_result'
        is_default = isinstance(first, ast.Name) and first.id == 'default'
        if is_inst or is_default:
            continue
        classified = (isinstance(second, ast.Constant) and second.value is True) or \
            (isinstance(second, ast.Call) and call_name(second) == '_safe_hasattr' and norm(second.args[0]) == norm(first)
             and getattr(second.args[1], 'value', None) == '__get__')
        chk.ob('C13.d', classified, r, 'class-dictionary hit `%s` is reported with is_get_descriptor computed from __get__' % short(r, 70),
               'second element: %s' % short(second), key='getattr_static-return|%s' % norm(first))
    # ORDER: for a type, a DATA descriptor of the metaclass wins over the class's own attribute (type.__getattribute__): no class-level or
    # instance-level answer is returned for obj-is-a-class before the metaclass was asked
    mc = [n for n in own_nodes(g) if isinstance(n, ast.Call) and call_name(n) == '_check_class' and n.args and norm(n.args[0]).startswith('type(')]
    cg = cfg_of(g)
    early = [n for n in cg.nodes if n.kind == 'stmt' and isinstance(n.ast, ast.Return) and isinstance(n.ast.value, ast.Tuple)
             and norm(n.ast.value.elts[0]) in ('klass_result', 'instance_result')]
    mcn = [n for n in cg.nodes if node_has(n, lambda x: x in mc)]
    p_ = cg.reach([cg.entry], lambda n: n in early, block_node=lambda n: n in mcn,
                  block_edge=lambda n, k, m: n.kind == 'test' and norm(n.ast) == 'obj is klass' and k == 'F') if early else None
    chk.ob('C13.d', bool(mc) and p_ is None, g, 'for a class object the metaclass is asked for a data descriptor before any class-level result is returned '
           '(a class attribute must not mask a metaclass property: the real getattr would run it)',
           'no metaclass lookup' if not mc else ('path: %s' % cg.describe(p_) if p_ else ''), key='metaclass-first')
    ok = any(isinstance(x, ast.Call) and call_name(x) == '_safe_is_data_descriptor' and norm(x.args[0]) == 'metaclass_result' for x in own_nodes(g))
    chk.ob('C13.d', ok, g, 'the early metaclass answer is given for DATA descriptors only (a non-data descriptor is shadowed by the class attribute)')
    # chaining descriptors: classmethod.__get__ (3.9-3.12) calls the __get__ of what it wraps
    tbl = repo.toplevel(ACCESS, 'ALLOWED_DESCRIPTOR_ACCESS')
    if any(repo.resolve(e) == 'builtins.classmethod' for e in getattr(tbl.value, 'elts', [])):
        ia = repo.find(ACCESS, 'DirectObjectAccess.is_allowed_getattr')
        unwrap = [a for a in stmts_in(ia, ast.Assign) if norm(a.targets[0]) == 'attr' and norm(a.value) == 'attr.__func__']
        okc = bool(unwrap) and all(gate(ia, a, lambda e, pol: pol and isinstance(e, ast.Compare) and norm(e.left) == 'type(attr)' and
                                        norm(e.comparators[0]) == 'classmethod') is None for a in unwrap)
        tests = [n for n in cfg_of(ia).nodes if n.kind == 'test' and 'ALLOWED_DESCRIPTOR_ACCESS' in norm(n.ast)]
        chk.ob('C13.d', okc and bool(tests), ia, 'classmethod is an allowed descriptor type, but classmethod.__get__ chains to the wrapped object\'s __get__ '
               '(Python 3.9-3.12): is_allowed_getattr judges the wrapped object (attr.__func__) when type(attr) is classmethod',
               'no unwrapping of attr.__func__ under `type(attr) is classmethod`', key='classmethod-chain')
    sid = repo.find(STATIC, '_safe_is_data_descriptor')
    rv = sid.body[-1].value if sid.body and isinstance(sid.body[-1], ast.Return) else None
    names = sorted(a.value for c in ast.walk(sid) if isinstance(c, ast.Call) and call_name(c) == '_safe_hasattr'
                   for a in c.args[1:] if isinstance(a, ast.Constant))
    ok = isinstance(rv, ast.BoolOp) and isinstance(rv.op, ast.Or) and names == ['__delete__', '__set__']
    chk.ob('C13.d', ok, sid, 'a data descriptor is one that has __set__ OR __delete__ (Python\'s definition; decides instance-dict shadowing)',
           'returns %s' % short(rv))
    # the static lookup is stateless: a memo would outlive later changes to a class
    from ..core import decorators
    for fn in ('getattr_static', '_check_instance', '_check_class', '_shadowed_dict', '_static_getmro', '_safe_hasattr', '_is_type',
               '_safe_is_data_descriptor'):
        f = repo.find(STATIC, fn)
        chk.ob('C13.d', not f.decorator_list, f, '%s is not memoised/decorated (classes are mutable; answers must be recomputed)' % fn,
               'decorators: %s' % decorators(f))
    def mro_walkers():
        """functions of getattr_static.py that loop over _static_getmro(<their parameter>): name -> parameter index"""
        out = {}
        for q_, d_ in repo.module(STATIC).defs.items():
            if isinstance(d_, FUNC_TYPES):
                for n in ast.walk(d_):
                    if isinstance(n, ast.For) and isinstance(n.iter, ast.Call) and call_name(n.iter) == '_static_getmro' and n.iter.args \
                            and isinstance(n.iter.args[0], ast.Name) and n.iter.args[0].id in params(d_):
                        out[d_.name] = params(d_).index(n.iter.args[0].id)
        return out
    walkers = mro_walkers()
    meta = [n for n in ast.walk(g) if isinstance(n, ast.For) and isinstance(n.iter, ast.Call) and call_name(n.iter) == '_static_getmro'
            and norm(n.iter.args[0]).startswith('type(')]
    # ... or through a helper that walks the MRO of its argument, handed type(<class>)
    meta += [c_ for c_ in calls_in(g) if call_name(c_) in walkers and len(c_.args) > walkers[call_name(c_)]
             and norm(c_.args[walkers[call_name(c_)]]).startswith('type(')]
    chk.ob('C13.d', bool(meta), g, 'for a type, the metaclass MRO is searched too')
    cc = repo.find(STATIC, '_check_class')
    ok = any(isinstance(n, ast.For) and isinstance(n.iter, ast.Call) and call_name(n.iter) == '_static_getmro' for n in ast.walk(cc)) or \
        any(call_name(c_) in walkers and len(c_.args) > walkers[call_name(c_)] and norm(c_.args[walkers[call_name(c_)]]) == params(cc)[0] for c_ in calls_in(cc))
    chk.ob('C13.d', ok, cc, '_check_class walks the whole static MRO (bases included)')
    # getattr_static itself performs no dynamic lookup on the object
    for fn in ('getattr_static', '_check_instance', '_check_class', '_shadowed_dict', '_static_getmro', '_safe_hasattr', '_is_type'):
        f = repo.find(STATIC, fn)
        bad = [short(c) for c in calls_in(f) if isinstance(c.func, ast.Name) and c.func.id in ('getattr', 'hasattr')]
        chk.ob('C13.d', not bad, f, '%s uses no dynamic getattr/hasattr' % fn, str(bad))


def _instance_dict_uses(func):
    """uses of the live object's instance dictionary (object.__getattribute__(x, '__dict__') and the names it is stored in):
    [(use_node, parent_node)]"""
    def is_src(e):
        return isinstance(e, ast.Call) and norm(e.func) == 'object.__getattribute__' and len(e.args) == 2 and \
            isinstance(e.args[1], ast.Constant) and e.args[1].value == '__dict__'
    names = set()
    for s_ in stmts_in(func, ast.Assign):
        if is_src(s_.value):
            names |= {t.id for t in s_.targets if isinstance(t, ast.Name)}
    uses = []
    for n in own_nodes(func):
        if is_src(n) or (isinstance(n, ast.Name) and n.id in names and isinstance(n.ctx, ast.Load)):
            uses.append((n, getattr(n, '_parent', None)))
    return uses, names


def rule_f(repo, chk):
    chk.clause('C13.f', 'the static lookup reads the instance dictionary only through the builtin\'s own unbound methods (dict.get(d, k, default)): '
                        'an instance __dict__ may be a dict SUBCLASS whose __getitem__/__missing__/get/__contains__/__iter__ is user code, so it '
                        'is never subscripted, iterated, tested with `in`, or asked through a bound method')
    n = 0
    for q, f in sorted(repo.module(STATIC).defs.items()):
        if not isinstance(f, FUNC_TYPES):
            continue
        uses, names = _instance_dict_uses(f)
        for u, par in uses:
            if isinstance(par, ast.Assign) and u is par.value:
                continue            # the binding itself
            n += 1
            ok = False
            why = 'used in `%s`' % short(par, 60)
            if isinstance(par, ast.Call) and u in par.args and par.args[0] is u and norm(par.func) in ('dict.get', 'dict.__getitem__', 'dict.__contains__', 'type'):
                ok = True
            elif isinstance(par, ast.Compare) and all(isinstance(o, (ast.Is, ast.IsNot)) for o in par.ops):
                ok = True
            chk.ob('C13.f', ok, u, 'the instance dictionary `%s` in %s is read through dict.<method>(d, ...) only' % (short(u, 40), q), '' if ok else why,
                   key='instance-dict|%s|%s' % (q, norm(par) if par is not None else ''))
    chk.floor('C13.f', n, 1, '(uses of the instance __dict__ in getattr_static.py)')


def rule_g(repo, chk):
    chk.clause('C13.g', 'key listing: <live>.keys()/values()/items() iterate the object (a Mapping ABC answers them through the user\'s __iter__/'
                        '__getitem__; dict\'s own do not): such a call is gated by isinstance(<live>, dict)/exact builtin type in the method, or the '
                        'method is reached only for values classified \'dict\' by get_array_type(), which answers \'dict\' only under '
                        'isinstance(self._obj, dict), and every get_key_values() call site tests array_type == \'dict\' on the same receiver')
    n = 0

    def dict_gate(is_live):
        def accept(e, pol):
            if isinstance(e, ast.Call) and call_name(e) == 'isinstance' and len(e.args) == 2 and is_live(e.args[0]) and pol:
                ts = e.args[1].elts if isinstance(e.args[1], ast.Tuple) else [e.args[1]]
                return all(isinstance(t, ast.Name) and t.id in BUILTIN_CONTAINERS and repo.resolve(t) == 'builtins.' + t.id for t in ts)
            return False
        return accept
    classified = None
    for modname in (ACCESS, MIXED):
        for q, f in sorted(repo.module(modname).defs.items()):
            if not isinstance(f, FUNC_TYPES):
                continue
            is_live = live_exprs(f)
            # nested generator helpers see the method's self._obj
            for c in [x for x in ast.walk(f) if isinstance(x, ast.Call) and isinstance(x.func, ast.Attribute)
                      and x.func.attr in ('keys', 'values', 'items', '__iter__', '__len__', '__getitem__') and is_live(x.func.value)]:
                host = repo.enclosing_func(c)
                if host is not f and repo.qual_of(host) != q:
                    # reported once, for the innermost function
                    pass
                if repo.enclosing_func(c) is not f:
                    continue
                n += 1
                tg = exact_type_gate(repo, is_live)
                dg = dict_gate(is_live)
                # a BOUND method call is looked up on the object: a dict subclass overriding keys()/values() has its code run, so only an
                # exact-type gate (or the unsafe switch) makes it safe; isinstance() is enough for the unbound builtin form below
                w = gate(f, c, lambda e, pol: tg(e, pol) or unsafe_switch_gate(e, pol))
                chk.ob('C13.g', w is None, c, 'the bound call `%s` in %s is gated by an exact builtin type or the unsafe switch' % (short(c), q),
                       ('only isinstance()/classification stands in front of it (a subclass passes and its override runs); use dict.%s(obj): %s'
                        % (c.func.attr, w)) if w else '', key='keys|%s|%s' % (q, norm(c)))
    # the other safe form: the builtin's own method called unbound on the object (dict.keys(obj), list.__iter__(obj)): a subclass
    # cannot intercept it
    for modname in (ACCESS, MIXED):
        for q, f in sorted(repo.module(modname).defs.items()):
            if not isinstance(f, FUNC_TYPES):
                continue
            is_live = live_exprs(f)
            for c in [x for x in own_nodes(f) if isinstance(x, ast.Call) and isinstance(x.func, ast.Attribute) and isinstance(x.func.value, ast.Name)
                      and x.func.value.id in ('dict', 'list', 'tuple', 'set', 'frozenset') and x.args and is_live(x.args[0])]:
                n += 1
                base = x_base = c.func.value.id
                ok = repo.resolve(c.func.value) == 'builtins.' + base
                # the object must be an instance of that builtin for the unbound call to be valid: isinstance gate in the method or classified
                dg = dict_gate(is_live)
                w = gate(f, c, lambda e, pol: dg(e, pol))
                if w is not None and q.split('.')[-1] in ('iter_partial_keys',) or 'get_key_paths' in q:
                    if classified is None:
                        classified = _classifier_ok(repo, chk, dict_gate)
                    w = None if classified else w
                chk.ob('C13.g', ok and w is None, c, '`%s` in %s uses the builtin\'s own method on an object known to be an instance of it' % (short(c), q),
                       w or '', key='unbound|%s|%s' % (q, norm(c)))
    chk.floor('C13.g', n, 1, '(keys()/values()/items() of a live object, bound or through the builtin)')


def _classifier_ok(repo, chk, dict_gate):
    g = repo.find(ACCESS, 'DirectObjectAccess.get_array_type')
    is_live = live_exprs(g)
    dg = dict_gate(is_live)
    tg = exact_type_gate(repo, is_live)
    ok = True
    rets = [r for r in stmts_in(g, ast.Return) if not (r.value is None or (isinstance(r.value, ast.Constant) and r.value.value is None))]
    for r in rets:
        w = gate(g, r, lambda e, pol: dg(e, pol) or tg(e, pol))
        ok = chk.ob('C13.g', w is None, r, 'get_array_type answers `%s` only under isinstance(self._obj, <builtin container>) or an exact type test' % short(r.value),
                    w or '') and ok
    if not rets:
        ok = False
    sites = [c for c in repo.calls_of('get_key_values') if isinstance(c.func, ast.Attribute)]
    m = 0
    for c in sites:
        f = repo.enclosing_func(c)
        if f is not None and f.name == 'get_key_values' and norm(c.func.value).startswith('self.'):
            continue            # a wrapper forwarding get_key_values to the value it wraps
        m += 1
        recv = norm(c.func.value)
        w = gate(f, c, lambda e, pol: pol and isinstance(e, ast.Compare) and len(e.ops) == 1 and isinstance(e.ops[0], ast.Eq)
                 and norm(e.left) == recv + '.array_type' and isinstance(e.comparators[0], ast.Constant) and e.comparators[0].value == 'dict')
        ok = chk.ob('C13.g', w is None, c, '`%s` is asked only after %s.array_type == \'dict\'' % (short(c), recv), w or '') and ok
    chk.floor('C13.g', m, 2, '(get_key_values call sites)')
    return ok


def rule_h(repo, chk):
    chk.clause('C13.h', 'the one hook that cannot be avoided, dir(obj) (names must be complete), is contained: every dir(<live object>) in '
                        'access.py/mixed.py sits in a try that catches Exception (a user __dir__ may raise anything) and only str names '
                        'are passed on (a user __dir__ may return anything)')
    from ..lib import enclosing_handlers, handler_types
    n = 0
    for modname in (ACCESS, MIXED):
        for q, f in sorted(repo.module(modname).defs.items()):
            if not isinstance(f, FUNC_TYPES):
                continue
            is_live = live_exprs(f)
            for c in [x for x in own_nodes(f) if isinstance(x, ast.Call) and isinstance(x.func, ast.Name) and x.func.id == 'dir' and x.args and is_live(x.args[0])]:
                n += 1
                st = repo.enclosing_stmt(c)
                hs = [h for t in enclosing_handlers(st, f) for h in t.handlers if handler_types(h) & {'Exception', 'BaseException', '*'}]
                chk.ob('C13.h', bool(hs), c, '`%s` in %s is inside try/except Exception' % (short(c), q), key='dir-contained|%s' % q)
                filt = [x for x in own_nodes(f) if isinstance(x, ast.Call) and call_name(x) == 'isinstance' and len(x.args) == 2 and norm(x.args[1]) == 'str']
                chk.ob('C13.h', bool(filt), c, 'names that are not str are dropped in %s' % q, key='dir-str|%s' % q)
    chk.floor('C13.h', n, 1, '(dir() of a live object)')


def rule_e(repo, chk):
    chk.clause('C13.e', 'MUST: names are complete: CompiledValueFilter.values iterates every key of get_dir_infos() (dir(obj) in full) and, '
                        'on that path, _get returns a non-empty list on every exit')
    v = repo.find(VALUE, 'CompiledValueFilter.values')
    loops = [n for n in own_nodes(v) if isinstance(n, ast.For) and isinstance(n.iter, ast.Name) and n.iter.id == 'dir_infos']
    # the comprehension form: [x for name in dir_infos for x in self._get(name, ...)] - no filter, the result returned
    comps = [n for n in own_nodes(v) if isinstance(n, (ast.ListComp, ast.GeneratorExp)) and n.generators
             and isinstance(n.generators[0].iter, ast.Name) and n.generators[0].iter.id == 'dir_infos']
    chk.ob('C13.e', bool(loops) or bool(comps), v, 'values() loops over all keys of dir_infos')
    for cp in comps:
        chk.ob('C13.e', not any(g_.ifs for g_ in cp.generators), cp, 'no name of dir() is filtered out in the comprehension')
        cs = [c for c in ast.walk(cp) if isinstance(c, ast.Call) and call_name(c) == '_get']
        ok = bool(cs) and all(kwarg(c, 'check_has_attribute') is None and len(c.args) <= 3 for c in cs)
        chk.ob('C13.e', ok, cp, 'values() calls _get without check_has_attribute (so missing static info never drops a name)')
        inner = [g_ for g_ in cp.generators[1:] if any(x in cs for x in ast.walk(g_.iter))]
        chk.ob('C13.e', bool(inner) and isinstance(cp.elt, ast.Name) and any(isinstance(g_.target, ast.Name) and g_.target.id == cp.elt.id for g_ in inner), cp,
               'every _get result is accumulated into the returned list')
    for lp in loops:
        bad = loop_escapes(lp)
        chk.ob('C13.e', not bad, lp, 'no break/continue/return inside the loop over dir() names')
        cs = [c for c in ast.walk(lp) if isinstance(c, ast.Call) and call_name(c) == '_get']
        ok = bool(cs) and all(kwarg(c, 'check_has_attribute') is None and len(c.args) <= 3 for c in cs)
        chk.ob('C13.e', ok, lp, 'values() calls _get without check_has_attribute (so missing static info never drops a name)')
        acc = [s for s in ast.walk(lp) if isinstance(s, ast.AugAssign) and isinstance(s.op, ast.Add) and any(x in cs for x in ast.walk(s.value))]
        chk.ob('C13.e', bool(acc), lp, 'every _get result is accumulated into the returned list')
    di = repo.find(ACCESS, 'DirectObjectAccess.get_dir_infos')
    ok = any(isinstance(n, ast.comprehension) and norm(n.iter) == 'self.dir()' and not n.ifs for n in ast.walk(di))
    chk.ob('C13.e', ok, di, 'get_dir_infos covers every name of self.dir() (no filter)')
    d = repo.find(ACCESS, 'DirectObjectAccess.dir')
    has_dir = any(isinstance(x, ast.Call) and isinstance(x.func, ast.Name) and x.func.id == 'dir' and x.args and norm(x.args[0]) == 'self._obj' for x in own_nodes(d))
    filters = [i_ for x in ast.walk(d) if isinstance(x, ast.comprehension) for i_ in x.ifs]
    only_str = all(isinstance(i_, ast.Call) and call_name(i_) == 'isinstance' and len(i_.args) == 2 and norm(i_.args[1]) == 'str' for i_ in filters)
    cut = [x for x in own_nodes(d) if isinstance(x, ast.Subscript)]
    chk.ob('C13.e', has_dir and only_str and not cut, d, 'dir() is dir(obj) in full (nothing but non-str entries is dropped, no truncation)',
           'filters: %s' % [norm(i_) for i_ in filters])
    # _get: with check_has_attribute False and in_dir true, every exit returns a non-empty list
    g = repo.find(VALUE, 'CompiledValueFilter._get')
    c = cfg_of(g)
    for r in stmts_in(g, ast.Return):
        empty = isinstance(r.value, ast.List) and not r.value.elts
        if not empty:
            continue
        ids = {n.id for n in c.nodes_of(r)}

        def blk(n, k, m):
            if n.kind != 'test':
                return False
            e = n.ast
            if isinstance(e, ast.Name) and e.id == 'check_has_attribute' and k == 'T':
                return True       # values() passes False
            if isinstance(e, ast.Call) and norm(e.func) == 'in_dir_callback' and k == 'F':
                return True       # the name came from dir_infos itself
            if isinstance(e, ast.Name) and e.id == 'values' and k == 'F':
                return False
            return False
        p = c.reach([c.entry], lambda n: n.id in ids, block_edge=blk)
        chk.ob('C13.e', p is None, r, 'on the values() path `return []` is unreachable', 'path: %s' % c.describe(p) if p else '')
    vals = repo.find(VALUE, 'CompiledValueFilter.values')
    # the callable handed to _get as in_dir_callback (third positional or keyword): a lambda, a local def or a method - resolved
    gets = [c_ for c_ in calls_in(vals, '_get', nested=True) if norm(c_.func) == 'self._get']
    ok = bool(gets)
    for c_ in gets:
        cb = kwarg(c_, 'in_dir_callback') or (c_.args[2] if len(c_.args) > 2 else None)
        kf = key_function(repo, vals, cb) if cb is not None else None
        ok = ok and kf is not None and kf[0] == ['%s in dir_infos' % kf[1]]
    chk.ob('C13.e', ok, vals, 'in_dir_callback on the values() path is membership in the same dir_infos')


def describe(chk):
    chk.undecided('that infer on an attribute/index path reports the right class (run-time values); user code run by protocols the property '
                  'does not list (__repr__, __dir__, __eq__, __getattr__/__getattribute__, arithmetic)')
    chk.assume('fetches of fixed dunder attributes of the live object by jedi\'s own introspection (o.__class__, o.__mro__, o.__module__, '
               'o.__name__, o.__doc__, o.__wrapped__, o.__annotations__, o.__file__, inspect.unwrap/getdoc/signature/getsourcefile ...) are not '
               'treated as sinks: a property NAMED like one of these dunders does run in safe mode (genuine, recorded in DESIGN 6.3, witness '
               'witness/c13_introspection_dunder_properties.py; no small patch exists)')
    chk.assume('live object = `<x>._obj`, its plain local aliases, and parameters named obj/python_object in compiled/access.py and compiled/mixed.py')


RULES = [('C13.a', rule_a), ('C13.b', rule_b), ('C13.c', rule_c), ('C13.d', rule_d), ('C13.e', rule_e), ('C13.f', rule_f), ('C13.g', rule_g), ('C13.h', rule_h)]
