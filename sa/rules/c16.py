"""C16 — results are deterministic and repeatable (mechanisms only).

Decided: result order at the API boundary never comes from iterating an identity-hashed set
(ValueSet / set()) without a sort; a first-wins de-duplication is not fed by such a source;
per-query bookkeeping is reset first; temporary switches are restored on all exits; the sort
key of definitions is total."""
import ast

from ..core import AnchorError, call_name, decorators, norm, short, own_nodes, kwarg, FUNC_TYPES
from ..cfg import cfg_of, can_raise
from ..lib import calls_in, stmts_in, gate, must_pass, node_has, paired, paired_correlated, params, key_function
from ..order import OrderAnalysis

API = 'jedi.api'
QUERIES = {
    'Script': ['complete', 'infer', 'goto', 'help', 'get_references', 'get_signatures', 'get_context', 'get_names', 'search',
               'complete_search', 'get_syntax_errors'],
    'Project': ['search', 'complete_search'],
}
ORDER_EXEMPT = {('Script', 'goto'): 'documented: the order of goto results is unspecified (the property only asks for the same set)'}


def _boundary_unordered(oa, f):
    """[(node, why)] return/yield sites of f whose value order may be address dependent"""
    out = []
    for kind, v in oa.returns(f):
        if kind == 'ret' and oa.is_unordered(v, f):
            out.append((v, 'returns `%s`, built by iterating an identity-hashed set without a sort' % short(v, 70)))
        elif kind == 'yieldfrom' and oa.is_unordered(v, f):
            out.append((v, 'yields from `%s` (address-dependent order)' % short(v, 70)))
        elif kind == 'yield' and oa.yield_in_unordered_loop(v, f):
            out.append((v, 'yields inside a loop over an identity-hashed set'))
    return out


def rule_a(repo, chk):
    chk.clause('C16.a', 'order at the API boundary: no query method returns a sequence obtained by iterating a ValueSet / set() / unite() '
                        '(identity-hashed, address-dependent order) without an intervening sort; a first-wins de-duplication is not fed '
                        'by such a source')
    oa = OrderAnalysis(repo)
    chk.notes['valueset_functions'] = len(oa.vs)
    chk.notes['unordered_functions'] = len(oa.unord)
    chk.notes['functions_analysed'] = len(oa.funcs)
    chk.floor('C16.a', len(oa.vs), 120, '(functions typed as returning ValueSet by the fixpoint)')
    n = 0
    for clsname, methods in sorted(QUERIES.items()):
        ci = repo.cls(API if clsname == 'Script' else 'jedi.api.project', clsname)
        for m in methods:
            f = repo.find_method(ci, m)
            if f is None:
                raise AnchorError('%s.%s not found' % (clsname, m))
            n += 1
            if (clsname, m) in ORDER_EXEMPT:
                chk.ob('C16.a', True, f, '%s.%s: order exempt (%s)' % (clsname, m, ORDER_EXEMPT[(clsname, m)]))
                continue
            bad = _boundary_unordered(oa, f)
            chk.ob('C16.a', not bad, f, '%s.%s returns its results in an address-independent order' % (clsname, m),
                   '; '.join(w for _, w in bad), key='order|%s.%s' % (clsname, m))
    chk.floor('C16.a', n, 13, '(boundary methods)')
    # first-wins de-duplication fed by an unordered source
    k = 0
    for mod in repo.modules.values():
        if not (mod.name == API or mod.name.startswith(API + '.')):
            continue
        for q, f in sorted(mod.defs.items()):
            if not isinstance(f, FUNC_TYPES):
                continue
            for loop in [x for x in own_nodes(f) if isinstance(x, ast.For)]:
                # pattern: `if k not in seen: ... seen.add/..[k]=..; yield/append`
                tests = [t for t in ast.walk(loop) if isinstance(t, ast.Compare) and len(t.ops) == 1 and isinstance(t.ops[0], (ast.NotIn, ast.In))
                         and isinstance(t.comparators[0], ast.Name)]
                for t in tests:
                    seen = t.comparators[0].id
                    adds = [c for c in ast.walk(loop) if isinstance(c, ast.Call) and isinstance(c.func, ast.Attribute) and c.func.attr == 'add'
                            and isinstance(c.func.value, ast.Name) and c.func.value.id == seen and c.args and norm(c.args[0]) == norm(t.left)]
                    adds += [s for s in ast.walk(loop) if isinstance(s, ast.Assign) and isinstance(s.targets[0], ast.Subscript)
                             and norm(s.targets[0].value) == seen and norm(s.targets[0].slice) == norm(t.left)]
                    if not adds:
                        continue
                    k += 1
                    src_unordered = oa.is_unordered(loop.iter, f)
                    chk.ob('C16.a', not src_unordered, loop, 'first-wins de-duplication over `%s` (key `%s`) is fed in an address-independent order' %
                           (short(loop.iter, 40), short(t.left, 40)),
                           'which of two equal-keyed entries survives depends on the iteration order of an identity-hashed set',
                           key='dedup|%s:%s|%s' % (mod.name, q, norm(t.left)))
    chk.floor('C16.a', k, 1, '(first-wins de-duplications in jedi/api)')
    # the sort of completions is the last step (after de-duplication)
    comp = repo.find('jedi.api.completion', 'Completion.complete')
    rets = [r for r in stmts_in(comp, ast.Return) if any(isinstance(x, ast.Call) and call_name(x) == 'sorted' for x in ast.walk(r))]
    chk.ob('C16.a', bool(rets), comp, 'Completion.complete sorts the filtered completions as its last step')


INFERENCE_FREE = {'debug', 'len', 'max', 'min', 'isinstance', 'str', 'Path', 'split_search_string', 'tuple', 'list', 'dict', 'set',
                  'increase_indent_cm', 'speed', 'dbg', 'warning'}


def rule_b(repo, chk):
    chk.clause('C16.b', 'per-query reset: every public query method of Script calls reset_recursion_limitations() before anything that '
                        'can reach inference, or starts by delegating to a Script method that does')
    ci = repo.cls(API, 'Script')
    resets = {}

    def first_relevant_call_ok(f, resetting):
        """every path from entry to the first package-relevant call passes a reset or a call of a resetting self-method"""
        c = cfg_of(f)

        def is_reset(n):
            return node_has(n, lambda x: isinstance(x, ast.Call) and call_name(x) == 'reset_recursion_limitations')

        def delegates(n):
            return node_has(n, lambda x: isinstance(x, ast.Call) and isinstance(x.func, ast.Attribute) and isinstance(x.func.value, ast.Name)
                            and x.func.value.id == 'self' and x.func.attr in resetting)

        def relevant(n):
            def rel(x):
                if not isinstance(x, ast.Call):
                    return False
                cn = call_name(x)
                if cn in INFERENCE_FREE or cn == 'reset_recursion_limitations':
                    return False
                if isinstance(x.func, ast.Attribute) and norm(x.func.value) in ('debug', 'self._module_node'):
                    return False
                if isinstance(x.func, ast.Attribute) and norm(x.func.value) == 'helpers' and cn in ('split_search_string', 'get_signature_details'):
                    return False
                return True
            return node_has(n, rel)
        p = c.reach([c.entry], lambda n: relevant(n) and not is_reset(n) and not delegates(n), block_node=lambda n: is_reset(n) or delegates(n))
        return None if p is None else c.describe(p)
    # fixpoint over "resetting" methods
    resetting = set()
    changed = True
    while changed:
        changed = False
        for name, f in ci.methods.items():
            if name in resetting:
                continue
            has = bool(calls_in(f, 'reset_recursion_limitations')) or any(
                isinstance(x, ast.Call) and isinstance(x.func, ast.Attribute) and isinstance(x.func.value, ast.Name) and x.func.value.id == 'self'
                and x.func.attr in resetting for x in own_nodes(f))
            if has and first_relevant_call_ok(f, resetting) is None:
                resetting.add(name)
                changed = True
    exempt = {'get_syntax_errors': 'no inference: converts parso\'s error list'}
    tree_only = {'get_context': 'builds contexts and names from the syntax tree only; no inference entry point is called'}
    INFER_ENTRY = {'infer', 'infer_node', 'goto', 'execute', 'execute_with_values', 'py__call__', 'py__getattribute__', 'get_signatures',
                   'complete', 'infer_call_of_leaf', 'get_references', 'py__getitem__', 'iterate'}
    n = 0
    for m in QUERIES['Script'] + ['rename', 'inline']:
        f = repo.find_method(ci, m)
        if f is None:
            raise AnchorError('Script.%s not found' % m)
        n += 1
        if m in exempt:
            calls = [c for c in calls_in(f) if call_name(c) not in INFERENCE_FREE]
            ok = all(call_name(c) in ('parso_to_jedi_errors',) for c in calls)
            chk.ob('C16.b', ok, f, 'Script.%s is exempt (%s) and calls nothing else' % (m, exempt[m]), str([short(c, 40) for c in calls]))
            continue
        if m in tree_only and m not in resetting:
            entry = [short(c, 40) for c in calls_in(f, nested=True) if call_name(c) in INFER_ENTRY]
            chk.ob('C16.b', not entry, f, 'Script.%s needs no reset (%s)' % (m, tree_only[m]), 'calls %s' % entry, key='reset|%s' % m)
            continue
        w = None if m in resetting else (first_relevant_call_ok(f, resetting) or 'no reset_recursion_limitations() on the way')
        chk.ob('C16.b', m in resetting, f, 'Script.%s resets the recursion bookkeeping before any inference' % m,
               'path to inference without reset: %s' % w if w else '', key='reset|%s' % m)
    chk.floor('C16.b', n, 12)
    chk.notes['resetting_methods'] = sorted(resetting)
    r = repo.find('jedi.inference', 'InferenceState.reset_recursion_limitations')
    news = [norm(s.value) for s in stmts_in(r, ast.Assign)]
    # either a fresh detector object is installed, or the detector's own reset() restores every field its __init__ sets
    for attr, cname in (('recursion_detector', 'RecursionDetector'), ('execution_recursion_detector', 'ExecutionRecursionDetector')):
        fresh = [s for s in stmts_in(r, ast.Assign) if norm(s.targets[0]) == 'self.' + attr and call_name(s.value) == cname]
        if fresh:
            chk.ob('C16.b', True, fresh[0], 'reset_recursion_limitations installs a fresh %s' % cname)
            continue
        calls = [c for c in calls_in(r) if isinstance(c.func, ast.Attribute) and norm(c.func.value) == 'self.' + attr]
        c = repo.cls('jedi.inference.recursion', cname)
        missing = None
        if calls and calls[0].func.attr in c.methods and c.methods.get('__init__') is not None:
            def sets(fn):
                return {t.attr: norm(a.value) for a in stmts_in(fn, ast.Assign) for t in a.targets
                        if isinstance(t, ast.Attribute) and isinstance(t.value, ast.Name) and t.value.id == 'self'}
            ini, rst = sets(c.methods['__init__']), sets(c.methods[calls[0].func.attr])
            # `del self.x[:]` / `self.x.clear()` restore an empty container
            for n_ in own_nodes(c.methods[calls[0].func.attr]):
                fld = None
                if isinstance(n_, ast.Delete):
                    for t in n_.targets:
                        if isinstance(t, ast.Subscript) and isinstance(t.slice, ast.Slice) and t.slice.lower is None and t.slice.upper is None \
                                and isinstance(t.value, ast.Attribute) and norm(t.value.value) == 'self':
                            fld = t.value.attr
                elif isinstance(n_, ast.Call) and isinstance(n_.func, ast.Attribute) and n_.func.attr == 'clear' and not n_.args \
                        and isinstance(n_.func.value, ast.Attribute) and norm(n_.func.value.value) == 'self':
                    fld = n_.func.value.attr
                if fld is not None and ini.get(fld) in ('[]', '{}', 'set()', 'dict()', 'list()'):
                    rst[fld] = ini[fld]
            pr = set(params(c.methods['__init__']))
            missing = sorted(k for k, v in ini.items() if rst.get(k) != v and not (v in pr))
        chk.ob('C16.b', missing == [], calls[0] if calls else r,
               'reset_recursion_limitations gives %s a clean slate (a fresh object, or a reset() restoring every field __init__ sets)' % cname,
               'no fresh object and no reset call' if missing is None else 'fields left from the previous query: %s' % missing)
    # every counter kept on the inference state that only grows is a per-query budget and must be re-initialised by the reset
    init = repo.find('jedi.inference', 'InferenceState.__init__')
    fields = {t.attr for a in stmts_in(init, ast.Assign) for t in a.targets if isinstance(t, ast.Attribute) and isinstance(t.value, ast.Name) and t.value.id == 'self'}
    reset_fields = {t.attr for a in stmts_in(r, ast.Assign) for t in a.targets if isinstance(t, ast.Attribute) and isinstance(t.value, ast.Name) and t.value.id == 'self'}
    grown, shrunk = {}, set()
    for m in repo.modules.values():
        for x in ast.walk(m.tree):
            if isinstance(x, ast.AugAssign) and isinstance(x.op, (ast.Add, ast.Sub)):
                tgt = x.target.value if isinstance(x.target, ast.Subscript) else x.target
                if isinstance(tgt, ast.Attribute) and tgt.attr in fields and 'self' not in norm(tgt.value).split('.')[:1] or \
                        (isinstance(tgt, ast.Attribute) and tgt.attr in fields and repo.qual_of(x).startswith('InferenceState')):
                    if isinstance(x.op, ast.Add):
                        grown.setdefault(tgt.attr, x)
                    else:
                        shrunk.add(tgt.attr)
    chk.floor('C16.b', len(grown), 1, '(growing counters on the inference state)')
    for fld, node in sorted(grown.items()):
        ok = fld in reset_fields or fld in shrunk
        chk.ob('C16.b', ok, node, 'counter InferenceState.%s (incremented here) is re-initialised by reset_recursion_limitations() or decremented symmetrically' % fld,
               'it only grows over the life of a Script: a limit that reads it makes answers depend on the query history', key='budget-reset|%s' % fld)
    # the detectors keep no class-level (shared) state
    for cname in ('RecursionDetector', 'ExecutionRecursionDetector'):
        c = repo.cls('jedi.inference.recursion', cname)
        shared = [a for a, st in c.attrs.items() if isinstance(getattr(st, 'value', None), (ast.List, ast.Dict, ast.Set, ast.Call))]
        chk.ob('C16.b', not shared, c.node, '%s has no class-level mutable state (a fresh object is a fresh budget)' % cname, str(shared))
        init = c.methods.get('__init__')
        if init is not None:
            for s in stmts_in(init, ast.Assign):
                for t in s.targets:
                    if isinstance(t, ast.Attribute) and isinstance(s.value, ast.Name) and s.value.id not in params(init):
                        chk.ob('C16.b', False, s, '%s.__init__ stores a non-fresh object in %s' % (cname, norm(t)))


SWITCHES = {'flow_analysis_enabled', 'is_analysis', 'dynamic_params_depth', 'allow_unsafe_executions', 'do_dynamic_params_search',
            'analysis_modules'}
TRIAGED_SWITCH = {
    ('jedi.api', 'Script._analysis', 'self._inference_state.analysis_modules'):
        'never restored by design: only read while is_analysis is true (private linter entry point)',
}
ACQUIRE_NOT_IN_TRY_OK = {
    ('jedi.api', 'Script._analysis', 'self._inference_state.is_analysis'):
        'private, test-only linter entry: one lookup (self._get_module_context()) happens between the write and the try; listed exception',
}


def rule_c(repo, chk):
    chk.clause('C16.c', 'temporary switches are restored on all exits: every write outside __init__ to an InferenceState switch, to a '
                        'context\'s predefined_names, or to an attribute of the global jedi.settings module is paired with the restoring '
                        'write in a finally that covers everything after the acquire')
    sites = {}
    for mod in repo.modules.values():
        for n in ast.walk(mod.tree):
            tgt = None
            if isinstance(n, ast.Attribute) and isinstance(n.ctx, ast.Store):
                if n.attr in SWITCHES:
                    tgt = norm(n)
                else:
                    r = repo.resolve(n)
                    if r and r.startswith('jedi.settings.') and mod.name != 'jedi.settings':
                        tgt = norm(n)
            if tgt is None:
                continue
            f = repo.enclosing_func(n)
            if f is None or f.name == '__init__':
                continue
            sites.setdefault((mod.name, repo.qual_of(n), tgt), []).append(n)
    n_pairs = 0
    for (modname, q, tgt), nodes in sorted(sites.items()):
        f = repo.enclosing_func(nodes[0])
        key = (modname, q, tgt)
        if key in TRIAGED_SWITCH:
            chk.ob('C16.c', True, nodes[0], 'write to `%s` is a listed exception: %s' % (tgt, TRIAGED_SWITCH[key]))
            continue
        stmts = sorted({id(repo.enclosing_stmt(x)): repo.enclosing_stmt(x) for x in nodes}.values(), key=lambda s: s.lineno)
        acquire = stmts[0]
        rest = stmts[1:]
        n_pairs += 1
        if not rest:
            chk.ob('C16.c', False, acquire, 'switch `%s` is written but never restored in %s' % (tgt, q), key='switch|%s:%s|%s' % key)
            continue

        def is_release(cn, rest=rest):
            return cn.ast in rest
        if key in ACQUIRE_NOT_IN_TRY_OK:
            # only require the release on every path that enters the try
            c = cfg_of(f)
            tries = [t for t in stmts_in(f, ast.Try) if t.finalbody and any(r in list(ast.walk(ast.Module(body=t.finalbody, type_ignores=[]))) for r in rest)]
            ok = bool(tries)
            chk.ob('C16.c', ok, acquire, '`%s` is restored in a finally (listed exception: %s)' % (tgt, ACQUIRE_NOT_IN_TRY_OK[key]))
            continue
        w = paired_correlated(f, acquire, is_release)
        chk.ob('C16.c', w is None, acquire, 'switch `%s` written in %s is restored on every exit (normal, return, exception)' % (tgt, q),
               'exit without restore: %s' % w if w else '', key='switch|%s:%s|%s' % key)
    chk.floor('C16.c', n_pairs, 3, '(temporary switch writes)')
    # predefine_names
    f = repo.find('jedi.inference.context', 'AbstractContext.predefine_names')
    chk.ob('C16.c', 'contextmanager' in decorators(f), f, 'predefine_names is a context manager')
    subs = [s for s in stmts_in(f, ast.Assign) if isinstance(s.targets[0], ast.Subscript)]
    dels = [s for s in stmts_in(f, ast.Delete)]
    saved = [s for s in stmts_in(f, ast.Assign) if isinstance(s.targets[0], ast.Name) and isinstance(s.value, ast.Call) and call_name(s.value) == 'get']
    saved_names = {s.targets[0].id for s in saved}
    stores = [s for s in subs if not (isinstance(s.value, ast.Name) and s.value.id in saved_names)]
    restores = [s for s in subs if s not in stores]
    chk.floor('C16.c', len(stores), 1, '(store in predefine_names)')
    for s in stores:
        tgt = norm(s.targets[0])
        w = paired(f, s, lambda cn: (cn.ast in dels and norm(cn.ast.targets[0]) == tgt) or (cn.ast in restores and norm(cn.ast.targets[0]) == tgt))
        chk.ob('C16.c', w is None, s, 'predefine_names removes/restores its entry on every exit, also when the consumer raises or abandons the generator',
               'exit without removal: %s' % w if w else '')
        # re-entrancy: nested use with the same key must give the outer user its entry back
        c_ = cfg_of(f)
        sn = c_.nodes_of(s)
        save_before = [x for x in saved if c_.reach([c_.entry], lambda n: n in sn, block_node=lambda n: n.ast is x) is None]
        ok = bool(save_before) and bool(restores) and all(
            gate(f, d, lambda e, pol: pol and isinstance(e, ast.Compare) and isinstance(e.ops[0], ast.Is) and norm(e.left) in saved_names) is None for d in dels)
        chk.ob('C16.c', ok, s, 'predefine_names is re-entrant for the same key: the previous entry is saved before the store and restored on exit '
               '(an unconditional `del` makes the outer user fail with KeyError)',
               'saved before the store: %s; restoring assignments: %d' % ([short(x) for x in save_before], len(restores)), key='predefine_names-reentrant')
    # monkeypatch
    f = repo.find('jedi.common', 'monkeypatch')
    sets = [c for c in calls_in(f, 'setattr')]
    chk.ob('C16.c', len(sets) == 2, f, 'monkeypatch sets and resets one attribute')
    if len(sets) == 2:
        a, r = repo.enclosing_stmt(sets[0]), repo.enclosing_stmt(sets[1])
        w = paired(f, a, lambda cn: cn.ast is r)
        chk.ob('C16.c', w is None, a, 'monkeypatch restores the old value on every exit', 'exit without restore: %s' % w if w else '')
        old = [s for s in stmts_in(f, ast.Assign) if isinstance(s.value, ast.Call) and call_name(s.value) == 'getattr']
        ok = bool(old) and norm(sets[1].args[2]) == norm(old[0].targets[0]) and old[0].lineno < a.lineno
        chk.ob('C16.c', ok, f, 'the value restored is the one read before patching')
    # users of predefined_names by assignment go through monkeypatch / predefine_names
    for mod in repo.modules.values():
        for n in ast.walk(mod.tree):
            if isinstance(n, ast.Attribute) and n.attr == 'predefined_names' and isinstance(n.ctx, ast.Store):
                f = repo.enclosing_func(n)
                ok = f is not None and f.name == '__init__'
                chk.ob('C16.c', ok, n, '`%s` is only assigned in a constructor (temporary changes use predefine_names/monkeypatch)' % short(repo.enclosing_stmt(n)))
            if isinstance(n, ast.Subscript) and isinstance(n.ctx, (ast.Store, ast.Del)) and 'predefined' in norm(n.value):
                f = repo.enclosing_func(n)
                ok = f is not None and f.name == 'predefine_names'
                chk.ob('C16.c', ok, n, 'entries of predefined_names are added/removed only inside predefine_names')


def rule_d(repo, chk):
    chk.clause('C16.d', 'sorted_definitions orders by (path, line, column, name) with None-safe fallbacks: a total key over everything a Name carries')
    f = repo.find('jedi.api.helpers', 'sorted_definitions')
    srt = calls_in(f, 'sorted', nested=True)
    chk.floor('C16.d', len(srt), 1)
    for c in srt:
        kf = key_function(repo, f, kwarg(c, 'key'))
        elts, arg = kf if kf is not None else (None, 'x')
        want = ["str(%s.module_path or '')" % arg, '%s.line or 0' % arg, '%s.column or 0' % arg, '%s.name' % arg]
        chk.ob('C16.d', elts == want, c, 'sort key is (str(module_path or ""), line or 0, column or 0, name)', 'key: %s' % elts)
        chk.ob('C16.d', kwarg(c, 'reverse') is None, c, 'ascending order')


ORDER_FREE = {'sorted', 'sorted_definitions', '_sort_names_by_start_pos', 'set', 'frozenset', 'len', 'any', 'all', 'sum', 'min', 'max', 'bool',
              'ValueSet', 'from_sets'}     # a ValueSet is a set again: the order of what goes in is immaterial
SET_SEQ_TRIAGED = {
    # construct key -> why the order of this in-place set does not reach a result
    'jedi.inference.references:find_references|{d.get_root_context() for d in found_names}':
        'only decides which modules are searched; every API method that reaches find_references sorts its result (sorted_definitions)',
}


def _is_set_expr(e, setvars=()):
    if (isinstance(e, ast.Call) and isinstance(e.func, ast.Name) and e.func.id in ('set', 'frozenset') and e.args) or \
            isinstance(e, ast.SetComp) or isinstance(e, ast.Set):
        return True
    if isinstance(e, ast.Name) and e.id in setvars:
        return True
    # filter()/map() hand the elements on in the iteration order of their argument
    if isinstance(e, ast.Call) and isinstance(e.func, ast.Name) and e.func.id in ('filter', 'map') and len(e.args) == 2:
        return _is_set_expr(e.args[1], setvars)
    return False


def _set_locals(f):
    """locals whose (textually) last binding is an in-place set"""
    last = {}
    for a in stmts_in(f, (ast.Assign, ast.AugAssign)):
        tg = a.targets if isinstance(a, ast.Assign) else [a.target]
        for t in tg:
            for x in ast.walk(t):
                if isinstance(x, ast.Name):
                    last[x.id] = isinstance(a, ast.Assign) and x is t and bool(_is_set_expr(a.value))
    return {k for k, v in last.items() if v}


def rule_e(repo, chk):
    chk.clause('C16.e', 'a set built in place (set(x), {..}, set comprehension: hash order = string-hash seed / addresses) is never turned back '
                        'into a sequence (list()/tuple()/iteration/unpacking) that leaves the function - returned, yielded or accumulated - '
                        'without passing sorted()/sorted_definitions(); package-wide')
    n = 0
    for mod in repo.modules.values():
        for q, f in sorted(mod.defs.items()):
            if not isinstance(f, FUNC_TYPES):
                continue
            sv = _set_locals(f)
            for node in own_nodes(f):
                hit = None
                if isinstance(node, ast.Call) and isinstance(node.func, ast.Name) and node.func.id in ('list', 'tuple', 'enumerate', 'iter', 'reversed') \
                        and node.args and _is_set_expr(node.args[0], sv):
                    hit, conv = node.args[0], node
                elif isinstance(node, (ast.For, ast.comprehension)) and _is_set_expr(node.iter, sv):
                    hit, conv = node.iter, node
                elif isinstance(node, ast.Starred) and _is_set_expr(node.value, sv) and isinstance(node.ctx, ast.Load):
                    hit, conv = node.value, node
                elif isinstance(node, ast.Call) and isinstance(node.func, ast.Attribute) and node.func.attr == 'join' and node.args \
                        and _is_set_expr(node.args[0], sv):
                    hit, conv = node.args[0], node
                if hit is None:
                    continue
                n += 1
                key = '%s:%s|%s' % (mod.name, q, norm(hit))
                if key in SET_SEQ_TRIAGED:
                    chk.ob('C16.e', True, hit, 'iteration of `%s`: triaged (%s)' % (short(hit, 50), SET_SEQ_TRIAGED[key]))
                    continue
                why = _escapes_unsorted(repo, f, conv)
                chk.ob('C16.e', why is None, hit, 'the hash order of `%s` in %s does not leave the function as a sequence' % (short(hit, 50), q),
                       why or '', key='set-seq|' + key)
    chk.floor('C16.e', n, 2, '(in-place sets turned into sequences, package-wide)')


def _escapes_unsorted(repo, f, conv):
    """None if the sequence made from the set is consumed order-free or sorted inside f; else a description"""
    # the expression that carries the order: climb to the statement
    node = conv
    if isinstance(conv, ast.comprehension):
        node = conv._parent                # ListComp/GeneratorExp/...
        if isinstance(node, (ast.SetComp, ast.DictComp)):
            return None
    if isinstance(conv, ast.For):
        carriers = [x for x in ast.walk(conv) if isinstance(x, (ast.Yield, ast.YieldFrom, ast.Return))
                    or (isinstance(x, ast.Call) and isinstance(x.func, ast.Attribute) and x.func.attr in ('append', 'extend', 'insert'))
                    or (isinstance(x, ast.AugAssign) and isinstance(x.op, ast.Add))]
        if carriers:
            return 'the loop body yields/returns/accumulates in iteration order (L%s)' % carriers[0].lineno
        return None
    p = node
    while p is not None and not isinstance(p, ast.stmt):
        par = getattr(p, '_parent', None)
        if isinstance(par, ast.Call) and call_name(par) in ORDER_FREE and p in par.args:
            return None
        if isinstance(par, ast.Compare) or isinstance(par, (ast.SetComp,)):
            return None
        p = par
    st = p
    if isinstance(st, ast.Return) or (isinstance(st, ast.Expr) and isinstance(st.value, (ast.Yield, ast.YieldFrom))):
        return 'returned/yielded directly at L%s' % st.lineno
    if isinstance(st, (ast.Assign, ast.AnnAssign, ast.AugAssign)):
        tg = st.targets if isinstance(st, ast.Assign) else [st.target]
        names = {x.id for t in tg for x in ast.walk(t) if isinstance(x, ast.Name)}
        attrs = [t for t in tg if isinstance(t, (ast.Attribute, ast.Subscript))]
        if attrs:
            return 'stored in `%s` at L%s' % (short(attrs[0]), st.lineno)
        for r in own_nodes(f):
            val = None
            if isinstance(r, ast.Return):
                val = r.value
            elif isinstance(r, (ast.Yield, ast.YieldFrom)):
                val = r.value
            if val is None:
                continue
            for x in ast.walk(val):
                if isinstance(x, ast.Name) and x.id in names:
                    q_ = x
                    clean = False
                    while q_ is not val and q_ is not None:
                        par = getattr(q_, '_parent', None)
                        if isinstance(par, ast.Call) and call_name(par) in ORDER_FREE:
                            clean = True
                            break
                        q_ = par
                    if not clean:
                        return 'assigned to `%s` and returned/yielded unsorted at L%s' % (x.id, r.lineno)
    return None


def describe(chk):
    chk.undecided('equality of result SETS across processes and repetitions (value dependent); order inside result objects\' own methods '
                  '(Name.infer/goto/get_signatures)')
    chk.assume('ValueSet typing is a may-analysis: exact for direct/self calls, majority vote over the implementations for duck-typed method calls')


RULES = [('C16.a', rule_a), ('C16.b', rule_b), ('C16.c', rule_c), ('C16.d', rule_d), ('C16.e', rule_e)]
