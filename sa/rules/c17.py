"""C17 — every reported source position is faithful to the text (jedi's side only).

Decided: jedi reports the parso token's own position (or the module convention / None), line and
column are components of it, definition ranges come from the defining node, get_line_code
looks the line up in the name's own module, get_names enumerates all tokens with the exact
definition/reference predicate."""
import ast
import itertools

from ..core import AnchorError, call_name, decorators, norm, short, own_nodes, kwarg, FUNC_TYPES
from ..cfg import cfg_of
from ..lib import calls_in, stmts_in, gate, must_pass, node_has, params, none_accept, effective_body, path_summaries, sorted_returns
from ..summaries import check_summary

NAMES = 'jedi.inference.names'
CLS = 'jedi.api.classes'


def rule_a(repo, chk):
    chk.clause('C17.a', 'every subclass of AbstractNameDefinition gets start_pos in one of three confirmed ways: the parso token\'s own start_pos '
                        '(AbstractTreeName), the module convention (1, 0), or None; LambdaName and MixedName are the two listed exceptions')
    base = repo.cls(NAMES, 'AbstractNameDefinition')
    triaged = {
        'jedi.inference.value.function:LambdaName': ('return self._lambda_value.tree_node.start_pos', 'a lambda has no name token: the position of the `lambda` keyword'),
        'jedi.inference.compiled.mixed:MixedName': (None, 'delegates to the position of the inferred value\'s name ((0, 0) when there is none)'),
    }
    n = 0
    kinds = {'token': 0, 'module': 0, 'none': 0, 'listed': 0}
    for ci in [base] + repo.subclasses(base) + [c for w in repo.classes_by_name.get('NameWrapper', []) for c in [w] + repo.subclasses(w)]:
        sp = ci.methods.get('start_pos')
        at = ci.attrs.get('start_pos')
        if sp is None and at is None:
            continue
        n += 1
        if ci.key in triaged:
            want = triaged[ci.key][0]
            body = '; '.join(norm(s) for s in effective_body(sp)) if sp is not None else norm(at)
            ok = want is None or body == want
            kinds['listed'] += 1
            chk.ob('C17.a', ok, sp if sp is not None else at, '%s.start_pos is a listed exception (%s)' % (ci.qual, triaged[ci.key][1]), body, key='start_pos|%s' % ci.key)
            continue
        if sp is not None:
            body = effective_body(sp)
            ok = len(body) == 1 and norm(body[0]) == 'return self.tree_name.start_pos' and 'property' in decorators(sp)
            kinds['token'] += ok
            chk.ob('C17.a', ok, sp, '%s.start_pos returns the parso token\'s own start_pos, unmodified' % ci.qual, '; '.join(norm(s) for s in body), key='start_pos|%s' % ci.key)
        else:
            v = getattr(at, 'value', None)
            if v is None:
                n -= 1
                continue
            is_none = isinstance(v, ast.Constant) and v.value is None
            is_mod = norm(v) == '(1, 0)'
            kinds['none' if is_none else 'module'] += 1
            chk.ob('C17.a', is_none or is_mod, at, '%s.start_pos is %s' % (ci.qual, 'None (no position)' if is_none else 'the module convention (1, 0)'),
                   'computed/other constant: %s' % norm(v), key='start_pos|%s' % ci.key)
    chk.floor('C17.a', n, 5, '(classes defining start_pos)')
    chk.notes['start_pos_kinds'] = kinds
    # nobody assigns start_pos on name objects
    for m in repo.modules.values():
        for x in ast.walk(m.tree):
            if isinstance(x, ast.Attribute) and x.attr == 'start_pos' and isinstance(x.ctx, ast.Store):
                chk.ob('C17.a', False, x, 'start_pos is assigned at run time: `%s`' % short(repo.enclosing_stmt(x)))
    tn = repo.cls(NAMES, 'AbstractTreeName')
    init = tn.methods['__init__']
    ok = any(norm(s) == 'self.tree_name = tree_name' for s in stmts_in(init, ast.Assign))
    chk.ob('C17.a', ok, init, 'AbstractTreeName keeps the parso token it was given')


def rule_b(repo, chk):
    chk.clause('C17.b', 'BaseName.line/column return the components of self._name.start_pos unchanged; definition ranges come from '
                        'tree_name.get_definition()\'s own start_pos/end_pos (function/class end excludes the trailing newline leaf)')
    for q in ('BaseName.line', 'BaseName.column', 'BaseName.get_definition_start_position', 'BaseName.get_definition_end_position'):
        check_summary(repo, chk, 'C17.b', CLS, q)


def rule_c(repo, chk):
    chk.clause('C17.c', 'get_line_code indexes the code_lines of the name\'s OWN root context with start_pos[0] - 1, and only when start_pos is not None')
    f = repo.find(CLS, 'BaseName.get_line_code')
    ls = [s for s in stmts_in(f, ast.Assign) if norm(s.targets[0]) == 'lines']
    ok = len(ls) == 1 and norm(ls[0].value) == 'self._name.get_root_context().code_lines'
    chk.ob('C17.c', ok, f, 'the lines are those of the name\'s own module (not the script\'s)', short(ls[0]) if ls else '')
    idx = [s for s in stmts_in(f, ast.Assign) if norm(s.targets[0]) == 'index']
    ok = len(idx) == 1 and norm(idx[0].value) in ('start_pos[0] - 1', 'self._name.start_pos[0] - 1')
    chk.ob('C17.c', ok, f, 'index = start_pos[0] - 1', short(idx[0]) if idx else '')
    for s in idx:
        text = 'start_pos' if norm(s.value).startswith('start_pos') else 'self._name.start_pos'
        w = gate(f, s, none_accept(text))
        chk.ob('C17.c', w is None, s, 'the position is only indexed when it is not None', w or '')
    rets = [r for r in stmts_in(f, ast.Return) if not isinstance(r.value, ast.Constant)]
    ok = len(rets) == 1 and norm(rets[0].value) == "''.join(lines[start_index:index + after + 1])"
    chk.ob('C17.c', ok, f, 'the result is lines[start_index : index + after + 1] joined')
    si = [s for s in stmts_in(f, ast.Assign) if norm(s.targets[0]) == 'start_index']
    chk.ob('C17.c', len(si) == 1 and norm(si[0].value) == 'max(index - before, 0)', f, 'start_index = max(index - before, 0)')


def _truth(expr, env):
    if isinstance(expr, ast.BoolOp):
        vals = [_truth(v, env) for v in expr.values]
        return all(vals) if isinstance(expr.op, ast.And) else any(vals)
    if isinstance(expr, ast.UnaryOp) and isinstance(expr.op, ast.Not):
        return not _truth(expr.operand, env)
    if isinstance(expr, ast.Name):
        return env[expr.id]
    if isinstance(expr, ast.Constant):
        return bool(expr.value)
    if isinstance(expr, ast.Call) and isinstance(expr.func, ast.Attribute) and expr.func.attr == 'is_definition' and not expr.args:
        return env['is_def']
    raise AnchorError('unexpected node in the def/ref predicate: %s' % norm(expr))


def rule_d(repo, chk):
    chk.clause('C17.d', 'get_names(definitions, references): the filter predicate is, as a boolean function, true for (T,T), is_def for (T,F) and '
                        'not is_def for (F,T); candidates are ALL value lists of get_used_names(); is_definition is the token\'s own '
                        'is_definition() without include_setitem')
    g0 = repo.find('jedi.api.helpers', 'get_module_names')
    flt = [c for c in calls_in(g0, 'filter') if len(c.args) == 2 and isinstance(c.args[0], ast.Name)]
    chk.floor('C17.d', len(flt), 1, '(filter(<predicate>, names) in get_module_names)')
    pred = None
    for x in ast.walk(g0):
        if isinstance(x, FUNC_TYPES) and flt and x.name == flt[0].args[0].id:
            pred = x
    if pred is None and flt:
        r_ = repo.resolve(flt[0].args[0])
        pred = repo.def_by_dotted(r_) if r_ else None
    if pred is None:
        raise AnchorError('the predicate handed to filter() in get_module_names was not found')
    f = pred
    summ = path_summaries(pred)
    chk.ob('C17.d', summ is not None, pred, 'the def/ref predicate is a loop-free function (decidable by its path summary)')
    if summ is not None:
        good, rows, why = True, [], ''
        try:
            for d, r, i in itertools.product([True, False], repeat=3):
                env = {'definitions': d, 'references': r, 'is_def': i}
                got = None
                for facts, res in summ:
                    if all(bool(_truth(ast.parse(t, mode='eval').body, env)) == v for t, v in facts):
                        got = bool(_truth(ast.parse(res, mode='eval').body, env)) if res != 'None' else False
                        break
                want = (d and i) or (r and not i)
                rows.append((d, r, i, got))
                good = good and got == want
        except (AnchorError, SyntaxError) as e_:
            good, why = False, str(e_)
        chk.ob('C17.d', good, pred, 'predicate == (definitions and is_def) or (references and not is_def) on all 8 rows of the truth table '
                                    '(is_def = the token\'s own is_definition())', why or str(rows), key='def-ref-predicate')
    isd_calls = [c for c in ast.walk(pred) if isinstance(c, ast.Call) and isinstance(c.func, ast.Attribute) and c.func.attr == 'is_definition']
    ok = bool(isd_calls) and all(not c.args and not c.keywords and isinstance(c.func.value, ast.Name) and c.func.value.id in params(pred) for c in isd_calls)
    chk.ob('C17.d', ok, pred, 'is_def is the token\'s own is_definition() (item assignments `x[k] = v` do not bind x)')
    g = repo.find('jedi.api.helpers', 'get_module_names')
    ns = [s for s in stmts_in(g, ast.Assign) if norm(s.targets[0]) == 'names']
    ok = bool(ns) and norm(ns[0].value) == 'list(chain.from_iterable(module.get_used_names().values()))'
    chk.ob('C17.d', ok, g, 'the candidates are all value lists of module.get_used_names() (every identifier token once)', short(ns[0]) if ns else '')
    chk.ob('C17.d', not g.decorator_list, g, 'get_module_names is recomputed per call (no cache keyed on a tree that the diff parser mutates in place)')
    rets = stmts_in(g, ast.Return)
    ok = len(rets) == 1 and isinstance(rets[0].value, ast.Call) and call_name(rets[0].value) == 'filter' and norm(rets[0].value.args[1]) == 'names'
    chk.ob('C17.d', ok, g, 'the result is filter(<predicate>, names)')
    check_summary(repo, chk, 'C17.d', CLS, 'Name.is_definition')
    nm = repo.find('jedi.api', 'Script._names')
    srt = sorted_returns(repo, nm)
    ok = bool(srt) and all(kf is not None and kf[0] == ['%s.start_pos' % kf[1]] for _r, kf in srt)
    chk.ob('C17.d', ok, nm, '_names returns the names sorted by position')
    gm = [c for c in calls_in(nm, 'get_module_names', nested=True)]
    ok = len(gm) == 1 and [k.arg for k in gm[0].keywords] == ['all_scopes', 'definitions', 'references'] and \
        all(norm(k.value) == k.arg for k in gm[0].keywords)
    chk.ob('C17.d', ok, nm, 'the three flags are passed through unchanged')


def rule_e(repo, chk):
    chk.clause('C17.e', 'the reported NAME is the text at the reported position: every tree-backed name class takes string_name from the very '
                        'token whose start_pos it reports (AbstractTreeName.string_name returns self.tree_name.value unmodified - no case '
                        'folding, no unicode normalisation: NFKC would make `ﬁle` at (1, 0) answer "file")')
    base = repo.cls(NAMES, 'AbstractTreeName')
    n = 0
    for ci in [base] + repo.subclasses(base):
        sn = ci.methods.get('string_name')
        if sn is None:
            continue
        n += 1
        body = effective_body(sn)
        ok = len(body) == 1 and isinstance(body[0], ast.Return) and norm(body[0].value) in ('self.tree_name.value', 'self._string_name')
        chk.ob('C17.e', ok, sn, '%s.string_name hands out the token text unmodified' % ci.qual, '; '.join(norm(x) for x in body), key='string_name|%s' % ci.key)
    chk.floor('C17.e', n, 1, '(string_name definitions of tree-backed name classes)')


def describe(chk):
    chk.undecided('that parso\'s token positions match the text in every layout (dependency); which definitions the engine reports')


RULES = [('C17.a', rule_a), ('C17.b', rule_b), ('C17.c', rule_c), ('C17.d', rule_d), ('C17.e', rule_e)]
