"""C12 — analysing sources with Script never executes them.

A negative over all paths: no route from a query to code execution of project files, and the
host's interpreter state is left as it was.  Decided by a full inventory of execution sinks
and host-state writers (resolved callee names, whole package), who-may-call rules on the one
real importer, and gate/flow rules on the safe-path filter."""
import ast
import sys

from ..core import AnchorError, call_name, dotted_text, names_in, norm, short, own_nodes, kwarg, FUNC_TYPES
from ..cfg import cfg_of
from ..lib import (calls_in, stmts_in, gate, must_pass, node_has, paired_correlated, params, param_default, effective_body,
                   attr_stores)

ACCESS = 'jedi.inference.compiled.access'
FUNCS = 'jedi.inference.compiled.subprocess.functions'
SUB = 'jedi.inference.compiled.subprocess'
IMPORTS = 'jedi.inference.imports'
COMPILED = 'jedi.inference.compiled'
PROJECT = 'jedi.api.project'

# ---------------------------------------------------------------------------------------------
# what counts as a code-execution sink
BUILTIN_SINKS = {'__import__', 'exec', 'eval', 'compile', 'execfile', 'breakpoint'}
# any call into these modules is a sink unless listed in HARMLESS
SINK_MODULES = {'importlib', 'runpy', 'imp', 'pkgutil', 'subprocess', 'pickle', 'cPickle', 'marshal', 'site', 'ctypes',
                'multiprocessing', 'code', 'codeop', 'shelve', 'dill', 'zipimport', 'pdb', 'pydoc', 'sysconfig_never',
                'pkg_resources', 'setuptools', 'distutils', 'pty', 'popen2', 'commands', 'doctest', 'timeit', 'trace',
                'cProfile', 'profile', 'bdb', 'modulefinder_never', 'webbrowser', 'concurrent', 'asyncio_subprocess'}
SINK_DOTTED = {'typing.get_type_hints', 'os.system', 'os.popen', 'os.startfile', 'os.fork', 'os.forkpty',
               'os.posix_spawn', 'os.posix_spawnp', 'inspect.getmembers_never', 'builtins.__import__',
               'typing_extensions.get_type_hints', 'inspect.get_annotations', 'annotationlib.get_annotations'}
SINK_DOTTED_PREFIX = ('os.exec', 'os.spawn')
# attribute-call names that execute module code whatever the receiver is
SINK_METHODS = {'exec_module', 'create_module', 'run_module', 'run_path', 'load_source', 'module_from_spec',
                'addsitedir', 'addpackage', 'execsitecustomize'}
HARMLESS = {
    'importlib.machinery.all_suffixes': 'returns the list of extension suffixes',
    'importlib.machinery.PathFinder.find_spec': 'locates a module; only checked for an undotted name (C12.e)',
    'importlib.util.find_spec': 'locates a module; imports parents only for a dotted name (C12.e)',
    'importlib.metadata.entry_points': 'reads installed distribution metadata of the environment; loads nothing',
    'pickle.dump': 'serialises towards the helper',
    'pickle.dumps': 'serialises',
    'zipimport.zipimporter': 'opens a zip archive directory; loads no module (only get_data/get_source are used)',
    'subprocess.PIPE': 'constant',
    'pdb.post_mortem': 'developer CLI in jedi/__main__.py only',
    'pdb.set_trace': 'developer CLI in jedi/__main__.py only',
}
# the triaged table: (module, enclosing def, sink) -> reason
EXPECTED_SINKS = {
    (ACCESS, 'load_module', 'builtins.__import__'): 'the one real importer; gated by C12.b/C12.c, sys.path swapped and restored (C12.f)',
    (ACCESS, 'DirectObjectAccess.getattr_paths', 'builtins.__import__'):
        'imports the module named by a live object\'s __module__ on the environment\'s own path (not inside a sys.path swap)',
    (ACCESS, 'DirectObjectAccess.get_return_annotation', 'typing.get_type_hints'): 'evaluates annotations of a live compiled object only',
    (SUB, '_GeneralizedPopen', 'subprocess.Popen'): 'starts the environment\'s interpreter on jedi\'s own __main__.py (checked below)',
    ('jedi._compatibility', 'pickle_load', 'pickle.Unpickler'): 'the pipe between jedi and its own helper',
    ('jedi', '<module>', 'jedi.__main__'): '',
}
# modules that are entry scripts / REPL support: not importable from a Script query (checked by the import graph)
CLI_ONLY = {'jedi.__main__': 'python -m jedi developer CLI',
            'jedi.utils': 'readline/REPL completer set-up',
            'jedi.api.replstartup': 'PYTHONSTARTUP file for the REPL',
            'jedi.inference.compiled.subprocess.__main__': 'entry script of the helper process'}


def classify_call(repo, c):
    """name of the sink a call is, or None."""
    f = c.func
    r = repo.resolve(f)
    if r:
        if r.startswith('builtins.') and r[9:] in BUILTIN_SINKS:
            return r
        if r in HARMLESS:
            return None
        if r in SINK_DOTTED or r.startswith(SINK_DOTTED_PREFIX):
            return r
        top = r.split('.')[0]
        if top in SINK_MODULES:
            return r
        d = repo.def_by_dotted(r)
        if d is not None and isinstance(d, ast.ClassDef):
            for b in d._ci.bases:
                if isinstance(b, str) and b.split('.')[0] in ('pickle',):
                    return b
    if isinstance(f, ast.Attribute) and f.attr in SINK_METHODS:
        return 'method:' + f.attr
    if isinstance(f, ast.Attribute) and f.attr == 'load' and isinstance(f.value, ast.Call) and \
            call_name(f.value) in ('Unpickler',):
        return None   # the Unpickler construction itself is the recorded sink
    if isinstance(f, ast.Attribute) and f.attr == 'load' and r is None:
        # entry_point.load() and friends: `.load()` on something derived from entry_points
        fn = repo.enclosing_func(c)
        if fn is not None and any(call_name(x) == 'entry_points' for x in calls_in(fn)):
            return 'method:load (entry point)'
    return None


def rule_a(repo, chk):
    chk.clause('C12.a', 'INVENTORY: the code-execution sinks in jedi/ (import/exec/eval/compile/runpy/loaders/get_type_hints/'
                        'subprocess/os.system/pickle.load/site...) are exactly the triaged table; none sits in a python-file loader')
    found = []
    n_calls = 0
    for c in repo.all_calls():
        n_calls += 1
        s = classify_call(repo, c)
        if s:
            found.append((c, s))
    # references to sink builtins that are not calls (aliasing: f = __import__)
    for m in repo.modules.values():
        for n in ast.walk(m.tree):
            if isinstance(n, ast.Name) and n.id in BUILTIN_SINKS and isinstance(n.ctx, ast.Load):
                p = getattr(n, '_parent', None)
                if not (isinstance(p, ast.Call) and p.func is n) and repo.resolve(n) == 'builtins.' + n.id:
                    found.append((n, 'alias of builtins.' + n.id))
            if isinstance(n, ast.ImportFrom) and n.module and n.level == 0:
                for a in n.names:
                    full = n.module + '.' + a.name
                    if full in SINK_DOTTED or full.startswith(SINK_DOTTED_PREFIX):
                        pass  # the call through the imported name resolves and is found above
    chk.notes['calls_scanned'] = n_calls
    n_exp = 0
    for node, sink in sorted(found, key=lambda t: (t[0]._mod.name, t[0].lineno)):
        mod = node._mod.name
        q = repo.qual_of(node)
        key = (mod, q, sink)
        if mod in CLI_ONLY:
            chk.ob('C12.a', True, node, 'sink %s in CLI/REPL-only module (%s)' % (sink, CLI_ONLY[mod]), key='%s|%s|%s' % key)
            continue
        ok = key in EXPECTED_SINKS
        n_exp += 1
        chk.ob('C12.a', ok, node, 'execution sink `%s` (%s) is in the triaged table' % (short(node, 50), sink),
               EXPECTED_SINKS.get(key, 'UNLISTED execution sink'), key='%s|%s|%s' % key)
    chk.floor('C12.a', n_exp, 4, '(triaged execution sinks found)')
    chk.exhaustive_rules.append('C12.a all %d call sites of the package classified' % n_calls)
    # import statements: only stdlib / jedi / parso (a project-controlled name must never be imported by jedi itself)
    std = set(getattr(sys, 'stdlib_module_names', ())) | {'jedi', 'parso', '__main__', 'colorama', 'typing_extensions'}
    optional = {'numpydoc': 'optional docstring helper, imported lazily by name (third-party library, not project code)',
                'docutils': 'optional', 'sphinx': 'optional', 'readline': 'REPL', 'winreg': 'windows registry'}
    n_imp = 0
    for m in repo.modules.values():
        for n in ast.walk(m.tree):
            if isinstance(n, ast.Import):
                tops = [a.name.split('.')[0] for a in n.names]
            elif isinstance(n, ast.ImportFrom) and n.level == 0 and n.module:
                tops = [n.module.split('.')[0]]
            else:
                continue
            for t in tops:
                n_imp += 1
                if t in std:
                    continue
                chk.ob('C12.a', t in optional, n, 'jedi itself imports only stdlib/jedi/parso modules: `%s`' % short(n, 60),
                       optional.get(t, 'imports a non-stdlib module %r' % t), key='import|%s|%s' % (m.name, t))
    chk.notes['import_statements_scanned'] = n_imp
    # the helper is started on jedi's own entry script
    gp = repo.find(SUB, 'CompiledSubprocess._get_process')
    pop = calls_in(gp, '_GeneralizedPopen')
    chk.floor('C12.a', len(pop), 1, '(helper start)')
    for c in pop:
        bad_kw = [k.arg for k in c.keywords if k.arg in ('cwd', 'shell', 'executable', 'preexec_fn')]
        chk.ob('C12.a', not bad_kw, c, 'helper is started without cwd=/shell=/executable= overrides', str(bad_kw))
        args = c.args[0] if c.args else None
        elts = None
        if isinstance(args, ast.Name):
            for s in stmts_in(gp, ast.Assign):
                if any(isinstance(t, ast.Name) and t.id == args.id for t in s.targets) and isinstance(s.value, (ast.Tuple, ast.List)):
                    elts = s.value.elts
        elif isinstance(args, (ast.Tuple, ast.List)):
            elts = args.elts
        ok = elts is not None and len(elts) >= 2 and norm(elts[0]) == 'self._executable' and repo.resolve(elts[1]) == SUB + '._MAIN_PATH'
        chk.ob('C12.a', ok, c, 'helper command line is (environment executable, jedi\'s own __main__.py, ...)',
               'argv: %s' % ([short(e, 30) for e in elts] if elts else None))
    mp = repo.toplevel(SUB, '_MAIN_PATH')
    txt = norm(mp.value)
    chk.ob('C12.a', '__file__' in txt and "'__main__.py'" in txt, mp, '_MAIN_PATH is built from this package\'s own directory', txt)


def rule_b(repo, chk):
    chk.clause('C12.b', 'WHO: compiled.load_module / functions.load_module / access.load_module are called only by each other and '
                        'by imports._load_builtin_module; _load_builtin_module only by import_module')
    allowed = {
        (IMPORTS, '_load_builtin_module'): 'jedi.inference.compiled.load_module',
        (COMPILED, 'load_module'): None,      # inference_state.compiled_subprocess.load_module -> functions.load_module
        (FUNCS, 'load_module'): 'jedi.inference.compiled.access.load_module',
    }
    sites = repo.calls_of('load_module')
    n = 0
    for c in sites:
        key = (c._mod.name, repo.qual_of(c))
        r = repo.resolve(c.func)
        ok = key in allowed and (allowed[key] is None or r == allowed[key])
        if key == (COMPILED, 'load_module'):
            ok = ok and isinstance(c.func, ast.Attribute) and isinstance(c.func.value, ast.Attribute) and c.func.value.attr == 'compiled_subprocess'
        n += 1
        chk.ob('C12.b', ok, c, 'call `%s` of a load_module is one of the three chained sites' % short(c, 60),
               'caller %s:%s resolves to %s' % (key[0], key[1], r))
    chk.floor('C12.b', n, 3, '(load_module chain)')
    # no aliasing of the loaders (value references that are not calls / defs / imports)
    for m in repo.modules.values():
        for x in ast.walk(m.tree):
            nm = x.id if isinstance(x, ast.Name) else x.attr if isinstance(x, ast.Attribute) else None
            if nm in ('load_module', '_load_builtin_module') and isinstance(getattr(x, 'ctx', None), ast.Load):
                p = getattr(x, '_parent', None)
                if isinstance(p, ast.Call) and p.func is x:
                    continue
                chk.ob('C12.b', False, x, 'loader `%s` is used as a value (alias/callback), escaping the who-may-call rule' % short(p, 60))
        for x in ast.walk(m.tree):
            if isinstance(x, ast.Constant) and x.value in ('load_module', '_load_builtin_module'):
                chk.ob('C12.b', False, x, 'loader name appears as a string constant (reflective call?)')
    # reflective dispatch sites stay as modelled
    gf = repo.find(SUB, '_get_function')
    ok = [norm(x) for x in effective_body(gf)] == ['return getattr(functions, name)']
    chk.ob('C12.b', ok, gf, 'compiled_subprocess.<name> dispatches to functions.<name> (model of the reflective call)')
    sites = repo.calls_of('_load_builtin_module')
    k = 0
    for c in sites:
        ok = (c._mod.name, repo.qual_of(c)) == (IMPORTS, 'import_module')
        k += 1
        chk.ob('C12.b', ok, c, '_load_builtin_module is called from import_module only')
    chk.floor('C12.b', k, 1, '(calls of _load_builtin_module)')
    chk.exhaustive_rules.append('C12.b every call site named load_module/_load_builtin_module in the package')
    # getattr with non-constant names in the sensitive modules (INVENTORY-reflect)
    table = {
        (SUB, '_get_function'): 'functions.<name>',
        (FUNCS, 'get_compiled_method_return'): 'DirectObjectAccess.<attribute>',
        (COMPILED, 'ExactValue.__getattribute__'): 'delegation to the wrapped compiled value (by-name resolution covers it)',
        (ACCESS, 'safe_getattr'): 'C13', (ACCESS, 'DirectObjectAccess.getattr_paths'): 'C13',
        (ACCESS, 'DirectObjectAccess.is_allowed_getattr'): 'C13',
        (ACCESS, 'DirectObjectAccess.get_signature_params'): 'data: getattr(Parameter, kind_name)',
        ('jedi.inference.compiled.value', 'CheckAttribute.__get__'): 'C13',
        ('jedi.inference.compiled.value', 'SignatureParamName.get_kind'): 'data: getattr(Parameter, kind_name)',
        ('jedi.inference.compiled.getattr_static', '_check_instance'): 'static lookup',
        ('jedi.inference.compiled.getattr_static', '_check_class'): 'static lookup',
        ('jedi.inference.compiled.getattr_static', '_shadowed_dict_newstyle'): 'static lookup',
        ('jedi.inference.compiled.getattr_static', '_safe_hasattr'): 'static lookup',
        ('jedi.inference.compiled.getattr_static', '_safe_is_data_descriptor'): 'static lookup',
        ('jedi.inference.compiled.getattr_static', 'getattr_static'): 'static lookup',
    }
    sens = [m for m in repo.modules.values() if m.name.startswith('jedi.inference.compiled') or
            m.name in (IMPORTS, 'jedi.api', 'jedi.api.environment')]
    for m in sens:
        for c in ast.walk(m.tree):
            if isinstance(c, ast.Call) and isinstance(c.func, ast.Name) and c.func.id == 'getattr' and len(c.args) >= 2 \
                    and not isinstance(c.args[1], ast.Constant):
                key = (m.name, repo.qual_of(c))
                chk.ob('C12.b', key in table, c, 'reflective `%s` is a modelled dispatch site' % short(c, 60),
                       table.get(key, 'unlisted getattr with a computed name in a sensitive module'))


def _is_unsafe_flag(e):
    return isinstance(e, ast.Attribute) and e.attr == '_load_unsafe_extensions'


def rule_c(repo, chk):
    chk.clause('C12.c', 'GATE/FLOW: the sys_path handed to compiled.load_module is, unless project._load_unsafe_extensions, '
                        'filtered down to members of project._get_base_sys_path(); the option defaults to False and is stored unmodified')
    f = repo.find(IMPORTS, '_load_builtin_module')
    calls = [c for c in calls_in(f, 'load_module')]
    chk.floor('C12.c', len(calls), 1)
    c = cfg_of(f)
    # names bound to the safe set
    safe_names = set()
    for s in stmts_in(f, ast.Assign):
        v = s.value
        while isinstance(v, ast.Call) and call_name(v) in ('set', 'frozenset', 'list', 'tuple') and v.args:
            v = v.args[0]
        if isinstance(v, ast.Call) and call_name(v) == '_get_base_sys_path':
            for t in s.targets:
                if isinstance(t, ast.Name):
                    safe_names.add(t.id)
    for s in stmts_in(f, ast.Assign):      # a safe name must have no other binding
        for t in s.targets:
            if isinstance(t, ast.Name) and t.id in safe_names:
                v = s.value
                while isinstance(v, ast.Call) and call_name(v) in ('set', 'frozenset', 'list', 'tuple') and v.args:
                    v = v.args[0]
                if not (isinstance(v, ast.Call) and call_name(v) == '_get_base_sys_path'):
                    safe_names.discard(t.id)

    def is_filter_value(v, var):
        if isinstance(v, ast.Call) and call_name(v) in ('list', 'tuple') and v.args:
            v = v.args[0]
        if isinstance(v, (ast.ListComp, ast.GeneratorExp)) and len(v.generators) == 1:
            g = v.generators[0]
            if isinstance(g.iter, ast.Name) and g.iter.id == var and isinstance(g.target, ast.Name) and \
                    isinstance(v.elt, ast.Name) and v.elt.id == g.target.id:
                for cond in g.ifs:
                    for e, pol in __import__('sa.core', fromlist=['atoms']).atoms(cond, True):
                        if pol and isinstance(e, ast.Compare) and len(e.ops) == 1 and isinstance(e.ops[0], ast.In) and \
                                isinstance(e.left, ast.Name) and e.left.id == g.target.id and \
                                isinstance(e.comparators[0], ast.Name) and e.comparators[0].id in safe_names:
                            return True
        if isinstance(v, ast.Call) and call_name(v) == 'filter' and len(v.args) == 2 and isinstance(v.args[1], ast.Name) and v.args[1].id == var:
            fn = v.args[0]
            if isinstance(fn, ast.Attribute) and fn.attr == '__contains__' and isinstance(fn.value, ast.Name) and fn.value.id in safe_names:
                return True
            if isinstance(fn, ast.Lambda) and isinstance(fn.body, ast.Compare) and len(fn.body.ops) == 1 and \
                    isinstance(fn.body.ops[0], ast.In) and isinstance(fn.body.comparators[0], ast.Name) and \
                    fn.body.comparators[0].id in safe_names:
                return True
        return False

    # the safe set is used for the membership test only (no widening through update()/|=/add())
    for nm in sorted(safe_names):
        for x in own_nodes(f):
            if isinstance(x, ast.Name) and x.id == nm:
                par = getattr(x, '_parent', None)
                is_def = isinstance(x.ctx, ast.Store) and isinstance(par, ast.Assign)
                is_member_test = isinstance(par, ast.Compare) and len(par.ops) == 1 and isinstance(par.ops[0], (ast.In, ast.NotIn)) and par.comparators[0] is x
                chk.ob('C12.c', is_def or is_member_test, x, 'the safe-path set `%s` is only defined from _get_base_sys_path and used in the membership test' % nm,
                       'other use: `%s`' % short(repo.enclosing_stmt(x), 70), key='safe-set-use|%s' % norm(repo.enclosing_stmt(x)))
    for call in calls:
        sp = kwarg(call, 'sys_path')
        if sp is None and len(call.args) >= 3:
            sp = call.args[2]
        ok = isinstance(sp, ast.Name)
        chk.ob('C12.c', ok, call, 'compiled.load_module receives its search path as a plain local (`%s`)' % short(sp, 30))
        if not ok:
            continue
        var = sp.id
        stores = [n for n in c.nodes if isinstance(n.ast, (ast.Assign, ast.AugAssign, ast.AnnAssign)) and
                  any(isinstance(t, ast.Name) and t.id == var for t in ast.walk(n.ast) if isinstance(getattr(t, 'ctx', None), ast.Store))]
        filt = [n for n in stores if isinstance(n.ast, ast.Assign) and is_filter_value(n.ast.value, var)]
        other = [n for n in stores if n not in filt]
        chk.ob('C12.c', bool(filt), f, 'a statement filters `%s` down to members of project._get_base_sys_path()' % var,
               'safe-set names: %s' % sorted(safe_names))
        ids = {n.id for n in c.nodes_containing(call)}

        def unsafe_optin(n, k, m):
            return n.kind == 'test' and _is_unsafe_flag(n.ast) and k == 'T'
        p = c.reach([c.entry], lambda n: n.id in ids, block_node=lambda n: n in filt, block_edge=unsafe_optin)
        chk.ob('C12.c', p is None, call, 'every path to the import passes the filter unless the project opted in to unsafe extensions',
               'unfiltered path: %s' % c.describe(p) if p else '')
        for o in other:
            p = c.reach([o], lambda n: n.id in ids, block_node=lambda n: n in filt, block_edge=unsafe_optin)
            chk.ob('C12.c', p is None, o.ast, 'an assignment of `%s` after/without the filter cannot reach the import' % var,
                   'path: %s' % c.describe(p) if p else '')
        dn = kwarg(call, 'dotted_name')
        chk.ob('C12.c', dn is not None, call, 'the module name is passed by keyword (the helper-side signature is **kwargs)')
    # the option
    init = repo.find(PROJECT, 'Project.__init__')
    d = param_default(init, 'load_unsafe_extensions')
    chk.ob('C12.c', isinstance(d, ast.Constant) and d.value is False, init, 'Project(load_unsafe_extensions=False) is the default')
    n_st = 0
    for m in repo.modules.values():
        for x in ast.walk(m.tree):
            if isinstance(x, ast.Attribute) and x.attr == '_load_unsafe_extensions' and isinstance(x.ctx, ast.Store):
                st = repo.enclosing_stmt(x)
                ok = repo.qual_of(x) == 'Project.__init__' and m.name == PROJECT and isinstance(st, ast.Assign) and \
                    isinstance(st.value, ast.Name) and st.value.id == 'load_unsafe_extensions'
                n_st += 1
                chk.ob('C12.c', ok, x, '_load_unsafe_extensions is only set from the constructor argument, unmodified: `%s`' % short(st))
            if isinstance(x, ast.Constant) and x.value in ('_load_unsafe_extensions', 'load_unsafe_extensions') and \
                    not isinstance(getattr(x, '_parent', None), ast.Expr):
                chk.ob('C12.c', False, x, 'the option name appears as a string (setattr/reflective write?)')
    chk.floor('C12.c', n_st, 1)
    # who can turn the option on: only the API caller.  Inside jedi no Project is built with the option set, and a project
    # file discovered next to the analysed sources must not be able to carry it
    n_ctor = 0
    for m in repo.modules.values():
        for c in ast.walk(m.tree):
            if isinstance(c, ast.Call) and ((call_name(c) == 'Project' and repo.resolve(c.func) in ('jedi.api.project.Project', 'jedi.Project')) or
                                             (call_name(c) == 'cls' and repo.qual_of(c).startswith('Project.'))):
                n_ctor += 1
                kw = kwarg(c, 'load_unsafe_extensions')
                star = [k for k in c.keywords if k.arg is None]
                if kw is not None:
                    chk.ob('C12.c', False, c, 'jedi itself constructs a Project with load_unsafe_extensions=%s' % short(kw))
                elif star:
                    # cls(**data): where does data come from?
                    f = repo.enclosing_func(c)
                    from_file = any(isinstance(x, ast.Call) and norm(x.func) in ('json.load', 'json.loads') for x in ast.walk(f))
                    dropped = any(isinstance(x, ast.Call) and call_name(x) == 'pop' and x.args and isinstance(x.args[0], ast.Constant)
                                  and x.args[0].value == 'load_unsafe_extensions' for x in ast.walk(f))
                    if from_file and not dropped:
                        # acceptable only if nobody loads project files from discovered (untrusted) directories
                        auto = [lc for lc in repo.calls_of('load') if repo.qual_of(lc) == 'get_default_project' and 'Project' in norm(lc.func)]
                        for lc in auto:
                            chk.ob('C12.c', False, lc, 'get_default_project loads .jedi/project.json found next to the analysed sources, and Project.load '
                                   'passes every key of that file (also load_unsafe_extensions) to the constructor',
                                   'an untrusted tree can opt itself in to unsafe extension loading', key='autoload-project-json')
                        if not auto:
                            chk.ob('C12.c', True, c, 'Project.load passes file keys to the constructor, but no discovered directory is loaded')
                    else:
                        chk.ob('C12.c', True, c, '`%s` cannot carry load_unsafe_extensions from a file' % short(c, 50))
                else:
                    chk.ob('C12.c', True, c, '`%s` leaves load_unsafe_extensions at its default' % short(c, 50))
    chk.floor('C12.c', n_ctor, 4, '(Project constructions inside jedi)')
    # the safe set is the environment's own path
    b = repo.find(PROJECT, 'Project._get_base_sys_path')
    rets = [r for r in stmts_in(b, ast.Return)]
    src_ok = any(isinstance(x, ast.Call) and call_name(x) == 'get_sys_path' and 'environment' in norm(x.func) for x in ast.walk(b))
    uses_project = [norm(x) for x in ast.walk(b) if isinstance(x, ast.Attribute) and isinstance(x.value, ast.Name) and x.value.id == 'self']
    chk.ob('C12.c', src_ok and not uses_project, b, '_get_base_sys_path is derived from environment.get_sys_path() only (no project-controlled entry)',
           'self attributes used: %s' % uses_project)
    # ... and the '' entry (= current directory, possibly the project) is dropped from the raw entries
    raw = [st for st in stmts_in(b, ast.Assign) if isinstance(st.value, ast.Call) and
           (call_name(st.value) == 'get_sys_path' or (call_name(st.value) in ('list', 'tuple') and st.value.args and
            isinstance(st.value.args[0], ast.Call) and call_name(st.value.args[0]) == 'get_sys_path'))]
    var = raw[0].targets[0].id if raw and isinstance(raw[0].targets[0], ast.Name) else None
    removes = [c for c in calls_in(b, 'remove') if isinstance(c.func.value, ast.Name) and c.func.value.id == var and c.args and
               isinstance(c.args[0], ast.Constant) and c.args[0].value == '']
    other_defs = [st for st in stmts_in(b, (ast.Assign, ast.AugAssign)) if st not in raw and
                  any(isinstance(t, ast.Name) and t.id == var and isinstance(t.ctx, ast.Store) for t in ast.walk(st))]
    ret_ok = all(isinstance(r.value, ast.Name) and r.value.id == var for r in rets)
    chk.ob('C12.c', bool(raw) and bool(removes) and not other_defs and ret_ok, b,
           "_get_base_sys_path removes the '' entry (current directory) from the environment's raw, untransformed entries and returns that list",
           'raw assignment: %s; remove(\'\') calls: %d; other definitions: %s' % ([short(x) for x in raw], len(removes), [short(x) for x in other_defs]))
    # auto_import_modules contains no file name a project commonly ships
    s = repo.toplevel('jedi.settings', 'auto_import_modules')
    vals = [e.value for e in s.value.elts] if isinstance(s.value, (ast.List, ast.Tuple)) else None
    chk.ob('C12.c', vals is not None and not (set(vals) & {'conftest', 'setup', 'sitecustomize', 'usercustomize', 'manage', 'settings'}), s,
           'auto_import_modules lists no conventional project file name', str(vals))


def rule_e(repo, chk):
    chk.clause('C12.e', 'FLOW: module discovery never imports parent packages: every find_spec in the helper is asked for the undotted '
                        '`string`, and import_module passes the last name component as `string`')
    n = 0
    for fn in ('_find_module', '_find_module_py33'):
        f = repo.find(FUNCS, fn)
        aliases = {'find_spec'}
        for s in stmts_in(f, ast.Assign):
            if isinstance(s.value, ast.Attribute) and s.value.attr == 'find_spec':
                aliases |= {t.id for t in s.targets if isinstance(t, ast.Name)}
        for c in calls_in(f, aliases):
            n += 1
            a0 = c.args[0] if c.args else kwarg(c, 'name') or kwarg(c, 'fullname')
            ok = isinstance(a0, ast.Name) and a0.id == 'string'
            chk.ob('C12.e', ok, c, '`%s` looks up the undotted name' % short(c, 60), 'first argument: %s' % short(a0))
        # `string` is never re-assigned
        st = [s for s in stmts_in(f, (ast.Assign, ast.AugAssign)) if any(isinstance(t, ast.Name) and t.id == 'string' and isinstance(t.ctx, ast.Store) for t in ast.walk(s))]
        chk.ob('C12.e', not st, f, '`string` is not re-assigned in %s' % fn)
    chk.floor('C12.e', n, 3, '(find_spec calls)')
    im = repo.find(IMPORTS, 'import_module')
    gi = calls_in(im, 'get_module_info')
    chk.floor('C12.e', len(gi), 1)
    for c in gi:
        s = kwarg(c, 'string')
        chk.ob('C12.e', s is not None and norm(s) == 'import_names[-1]', c, 'import_module asks for the last name component only',
               'string=%s' % short(s))
    # anything else calling get_module_info?
    for c in repo.calls_of('get_module_info'):
        chk.ob('C12.e', (c._mod.name, repo.qual_of(c)) == (IMPORTS, 'import_module'), c, 'get_module_info is requested by import_module only')
    for c in repo.calls_of('_find_module') + repo.calls_of('_find_module_py33'):
        chk.ob('C12.e', c._mod.name == FUNCS, c, '_find_module* are helper-internal')


HOST_STATE = {'sys.path', 'sys.modules', 'sys.meta_path', 'sys.path_hooks', 'sys.path_importer_cache', 'sys.stdout',
              'sys.stderr', 'sys.stdin', 'sys.argv', 'os.environ', 'sys.flags', 'sys.dont_write_bytecode'}
MUTATORS = {'insert', 'append', 'extend', 'remove', 'pop', 'clear', 'sort', 'reverse', 'update', 'setdefault', 'popitem',
            '__setitem__', '__delitem__'}
HOST_CALLS = {'os.chdir', 'os.putenv', 'os.unsetenv', 'os.fchdir', 'os.chroot', 'os.umask', 'sys.setprofile', 'sys.settrace',
              'site.addsitedir', 'importlib.invalidate_caches_never'}
EXPECTED_HOST = {
    (ACCESS, 'load_module', 'sys.path'): 'swap, restored in finally (checked as PAIR)',
    (FUNCS, 'get_module_info', 'sys.path'): 'swap in the helper, restored in finally (checked as PAIR)',
    (SUB, 'Listener.listen', 'sys.stdout'): 'helper process only: stdout is the IPC channel',
}


def host_writes(repo):
    out = []
    for m in repo.modules.values():
        for n in ast.walk(m.tree):
            tgt = None
            if isinstance(n, (ast.Attribute, ast.Name)) and isinstance(n.ctx, (ast.Store, ast.Del)):
                r = repo.resolve(n)
                if r in HOST_STATE:
                    tgt = r
            elif isinstance(n, ast.Subscript) and isinstance(n.ctx, (ast.Store, ast.Del)):
                r = repo.resolve(n.value)
                if r in HOST_STATE:
                    tgt = r
            elif isinstance(n, ast.Call):
                r = repo.resolve(n.func)
                if r in HOST_CALLS:
                    tgt = r
                elif isinstance(n.func, ast.Attribute) and n.func.attr in MUTATORS:
                    rb = repo.resolve(n.func.value)
                    if rb in HOST_STATE:
                        tgt = rb
                    elif isinstance(n.func.value, ast.Name):
                        # local alias: p = sys.path; p.append(..)
                        fn = repo.enclosing_func(n)
                        if fn is not None:
                            for s in stmts_in(fn, ast.Assign):
                                if any(isinstance(t, ast.Name) and t.id == n.func.value.id for t in s.targets) and \
                                        repo.resolve(s.value) in HOST_STATE:
                                    tgt = repo.resolve(s.value)
            elif isinstance(n, ast.ImportFrom) and n.level == 0 and n.module in ('sys', 'os'):
                for a in n.names:
                    if n.module + '.' + a.name in HOST_STATE:
                        out.append((n, n.module + '.' + a.name + ' (imported by name: writes through the alias are invisible)'))
            if tgt:
                out.append((n, tgt))
    return out


def rule_f(repo, chk):
    chk.clause('C12.f', 'PAIR/WHO: writes to sys.path/sys.modules/sys.meta_path/os.environ/cwd/std streams occur only at the triaged '
                        'sites; the two sys.path swaps restore the saved value on every exit; the rest live in helper/REPL-only modules')
    found = host_writes(repo)
    n_exp = 0
    for node, what in sorted(found, key=lambda t: (t[0]._mod.name, t[0].lineno)):
        mod, q = node._mod.name, repo.qual_of(node)
        if mod in CLI_ONLY:
            chk.ob('C12.f', True, node, 'host-state write to %s in CLI/REPL/helper-entry module (%s)' % (what, CLI_ONLY[mod]),
                   key='%s|%s|%s' % (mod, q, what))
            continue
        ok = (mod, q, what) in EXPECTED_HOST
        n_exp += 1
        chk.ob('C12.f', ok, node, 'host-state write `%s` (%s) is a triaged site' % (short(repo.enclosing_stmt(node), 60), what),
               EXPECTED_HOST.get((mod, q, what), 'UNLISTED write to interpreter-global state'), key='%s|%s|%s' % (mod, q, what))
    chk.floor('C12.f', n_exp, 4, '(sys.path swap statements + stdout)')
    chk.exhaustive_rules.append('C12.f every store/mutating call on host interpreter state in the package')
    # the swaps are paired
    for modname, fn in ((ACCESS, 'load_module'), (FUNCS, 'get_module_info')):
        f = repo.find(modname, fn)
        swaps = []
        for s in stmts_in(f, ast.Assign):
            tg = s.targets[0]
            pairs = list(zip(tg.elts, s.value.elts)) if isinstance(tg, ast.Tuple) and isinstance(s.value, ast.Tuple) and len(tg.elts) == len(s.value.elts) else [(tg, s.value)]
            saved = None
            new = None
            for t, v in pairs:
                if repo.resolve(v) == 'sys.path' and isinstance(t, ast.Name):
                    saved = t.id
                if repo.resolve(t) == 'sys.path':
                    new = v
            if new is not None:
                swaps.append((s, saved, new))
        acquires = [(s, saved) for s, saved, new in swaps if saved is not None]
        if not acquires:
            # the two-statement form: `old = sys.path` and then `sys.path = new`, the save dominating the install
            saves = [a for a in stmts_in(f, ast.Assign) if len(a.targets) == 1 and isinstance(a.targets[0], ast.Name) and repo.resolve(a.value) == 'sys.path']
            for sv in saves:
                for s, _, new in swaps:
                    if isinstance(new, ast.Name) and new.id == sv.targets[0].id:
                        continue            # that is the restore
                    cfg_ = cfg_of(f)
                    svn = cfg_.nodes_of(sv)
                    p_ = cfg_.reach([cfg_.entry], lambda n, s=s: n in cfg_.nodes_of(s), block_node=lambda n: n in svn)
                    if p_ is None:
                        acquires.append((s, sv.targets[0].id))
        chk.ob('C12.f', len(acquires) == 1, f, '%s saves the old sys.path when it installs the new one (one swap statement, or a save that dominates the install)' % fn,
               'swap statements: %s' % [short(s) for s, _, _ in swaps])
        for s, saved in acquires:
            def is_release(n, saved=saved):
                a = n.ast
                return isinstance(a, ast.Assign) and len(a.targets) == 1 and repo.resolve(a.targets[0]) == 'sys.path' and \
                    isinstance(a.value, ast.Name) and a.value.id == saved
            w = paired_correlated(f, s, is_release)
            chk.ob('C12.f', w is None, s, 'sys.path is restored from `%s` on every exit (return, exception) after the swap' % saved,
                   'exit without restore: %s' % w if w else '')
            # the saved name is not clobbered in between
            clob = [x for x in stmts_in(f, (ast.Assign, ast.AugAssign)) if x is not s and
                    any(isinstance(t, ast.Name) and t.id == saved and isinstance(t.ctx, ast.Store) for t in ast.walk(x))
                    and not (isinstance(x, ast.Assign) and repo.resolve(x.value) == 'sys.path')]      # the save itself (two-statement form)
            chk.ob('C12.f', not clob, s, 'the saved path `%s` is not overwritten before the restore' % saved)
    # CLI-only modules really are not imported by library modules
    for m in repo.modules.values():
        if m.name in CLI_ONLY:
            continue
        for n in ast.walk(m.tree):
            if isinstance(n, (ast.Import, ast.ImportFrom)):
                for local, target in repo.import_bindings(m, n):
                    for cli in CLI_ONLY:
                        if cli in ('jedi.__main__', 'jedi.inference.compiled.subprocess.__main__'):
                            continue
                        if target == cli or target.startswith(cli + '.'):
                            inside_func = repo.enclosing_func(n) is not None
                            chk.ob('C12.f', False, n, 'library module imports REPL-only module %s' % cli)
    # Listener.listen is entered from the helper entry script only
    for c in repo.calls_of('listen'):
        chk.ob('C12.f', c._mod.name == SUB + '.__main__', c, 'Listener.listen() is started by the helper entry script only')


def rule_d(repo, chk):
    chk.clause('C12.d', 'derived: python files are only read and parsed — the loaders contain no execution sink and hand file contents '
                        'to the parser only (follows from the C12.a inventory; re-stated per loader for the evidence)')
    loaders = [(IMPORTS, '_load_python_module'), (IMPORTS, 'load_module_from_path'), ('jedi.inference.references', '_check_fs'),
               ('jedi.plugins.pytest', '_iter_pytest_modules'), ('jedi.plugins.pytest', '_load_pytest_plugins'),
               ('jedi.inference.sys_path', '_get_paths_from_buildout_script'),
               ('jedi.api.project', 'Project._search_func'), ('jedi.inference.gradual.typeshed', 'parse_stub_module'),
               ('jedi.inference.compiled.mixed', '_load_module')]
    n = 0
    for modname, q in loaders:
        f = repo.find_opt(modname, q)
        if f is None:
            continue
        n += 1
        bad = [(short(c, 40), classify_call(repo, c)) for c in calls_in(f, nested=True) if classify_call(repo, c)]
        chk.ob('C12.d', not bad, f, 'loader %s contains no execution sink' % q, str(bad))
    chk.floor('C12.d', n, 7, '(source loaders)')
    # file contents of project files reach only the parser: open()/read() results in jedi/inference are not passed to sinks
    # (sinks are absent outside the table, so this is implied); record the parse entry points
    parses = [c for c in repo.calls_of('parse') + repo.calls_of('parse_and_get_code')]
    chk.notes['parse_call_sites'] = len(parses)


def describe(chk):
    chk.undecided('that the environment\'s own sys.path/PYTHONPATH does not contain the analysed project (outside jedi\'s control); '
                  'behaviour of importlib finders and of parso (dependencies); *.pth/sitecustomize processing done by the target '
                  'interpreter itself at start-up of the helper')
    chk.assume('parso only parses; importlib.machinery.PathFinder.find_spec / importlib.util.find_spec with an undotted name execute no project code')
    chk.assume('call resolution: exact for module-level names/imports; a sink reached through a local alias of a module object would be missed '
               '(aliases of the sink builtins themselves are detected)')


RULES = [('C12.a', rule_a), ('C12.b', rule_b), ('C12.c', rule_c), ('C12.d', rule_d), ('C12.e', rule_e), ('C12.f', rule_f)]
