"""C18 — get_context, parent() and full_name describe the lexical nesting (mechanisms).

Decided: the header rule in Script.get_context, that parent() climbs the syntax tree over all
enclosing function/class/module scopes and skips name-less contexts, how qualified names are
assembled (class-level: parent + own; module-level: (name,); in a function: None) and that the
pretty-name mapping only touches the first (module) component.  The sibling agreement of the
header rule is C03.g."""
import ast

from ..core import AnchorError, call_name, decorators, norm, short, own_nodes, kwarg, FUNC_TYPES
from ..cfg import cfg_of
from ..lib import calls_in, stmts_in, gate, must_pass, node_has, params, none_accept, none_safe_chain, if_test_texts
from . import c03


def rule_a(repo, chk):
    chk.clause('C18.a', 'siblings: TreeContextMixin.create_context and parser_utils.get_parent_scope implement the same "header belongs to the '
                        'enclosing scope" rule (checked as C03.g; re-run here)')
    c03.rule_g(repo, _Proxy(chk, 'C18.a'))


class _Proxy:
    """re-labels obligations of a shared rule"""
    def __init__(self, chk, rule):
        self._chk, self._rule = chk, rule

    def ob(self, rule, *a, **k):
        return self._chk.ob(self._rule, *a, **k)

    def clause(self, *a, **k):
        pass

    def __getattr__(self, n):
        return getattr(self._chk, n)


def rule_b(repo, chk):
    chk.clause('C18.b', 'BaseName.parent() for functions, classes and params climbs the TREE to the nearest funcdef/classdef/file_input (all three, '
                        'for every kind of name) rather than parent_context, and skips every name-less (comprehension) context')
    f = repo.find('jedi.api.classes', 'BaseName.parent')
    sa = [c for c in calls_in(f, 'search_ancestor')]
    chk.ob('C18.b', len(sa) == 1, f, 'one tree climb in parent()')
    for c in sa:
        args = []
        for a in c.args:
            if isinstance(a, ast.Constant):
                args.append(a.value)
            else:
                args.append(None)
        ok = set(args) == {'funcdef', 'classdef', 'file_input'}
        chk.ob('C18.b', ok, c, 'the climb stops at the nearest funcdef, classdef or file_input — the same set for functions, classes and params '
               '(a lambda parameter in a class body belongs to the class)', 'arguments: %s' % [norm(a) for a in c.args])
        w = gate(f, c, lambda e, pol: pol and norm(e) == "self.type in ('function', 'class', 'param')")
        chk.ob('C18.b', w is None, c, 'tree climbing is used for functions, classes and params', w or '')
        src = [s for s in stmts_in(f, ast.Assign) if norm(s.targets[0]) == norm(c.func.value)]
        chk.ob('C18.b', len(src) == 1 and norm(src[0].value) == 'self._name.tree_name.get_definition()', f, 'the climb starts at the name\'s own definition node')
    loops = [n for n in own_nodes(f) if isinstance(n, ast.While)]
    ok = len(loops) == 1 and norm(loops[0].test) == 'context.name is None' and [norm(s) for s in loops[0].body][-1] == 'context = context.parent_context'
    chk.ob('C18.b', ok, f, 'name-less contexts (comprehensions, also nested ones) are skipped with a loop', str([norm(l.test) for l in loops]))
    rets = [r for r in stmts_in(f, ast.Return) if call_name(r.value) == 'Name']
    for r in rets:
        w = none_safe_chain(f, r.value, 'context.name')
        chk.ob('C18.b', w is None, r, 'the returned parent always has a name', w or '')
    chk.floor('C18.b', len(rets), 1)


def rule_c(repo, chk):
    chk.clause('C18.c', 'qualified names: class-level -> parent\'s names + own name; module-level -> (name,); inside a function -> None; methods use '
                        'the class context; full_name prepends the module\'s string_names, maps only the FIRST component through the stdlib '
                        'pretty-name table and is None whenever any part is None')
    f = repo.find('jedi.inference.value.function', 'FunctionAndClassBase.get_qualified_names')
    rets = stmts_in(f, ast.Return)
    for r in rets:
        v = norm(r.value)
        if v == 'n + (self.py__name__(),)':
            w = gate(f, r, lambda e, pol: pol and norm(e) == 'self.parent_context.is_class()')
            chk.ob('C18.c', w is None, r, 'class level: parent names + own name', w or '')
        elif v == '(self.py__name__(),)':
            w = gate(f, r, lambda e, pol: pol and norm(e) == 'self.parent_context.is_module()')
            chk.ob('C18.c', w is None, r, 'module level: (name,)', w or '')
    vals = sorted(norm(r.value) for r in rets)
    ok = vals == sorted(['None', 'None', 'n + (self.py__name__(),)', '(self.py__name__(),)'])
    chk.ob('C18.c', ok, f, 'exactly these cases; everything defined inside a function has no qualified name', str(vals))
    m = repo.find('jedi.inference.value.function', 'MethodValue.get_qualified_names')
    vals = sorted(norm(r.value) for r in stmts_in(m, ast.Return))
    ok = vals == sorted(['None', 'names + (self.py__name__(),)']) and any(norm(s) == 'names = self.class_context.get_qualified_names()' for s in stmts_in(m, ast.Assign))
    chk.ob('C18.c', ok, m, 'methods: the class context\'s names + own name', str(vals))
    tn = repo.find('jedi.inference.names', 'AbstractTreeName._get_qualified_names')
    vals = sorted(norm(r.value) for r in stmts_in(tn, ast.Return))
    ok = vals == sorted(['None', 'parent_names + (self.tree_name.value,)'])
    chk.ob('C18.c', ok, tn, 'a tree name: the parent context\'s names + the token text', str(vals))
    gq = repo.find('jedi.inference.names', 'AbstractNameDefinition.get_qualified_names')
    pre = [r for r in stmts_in(gq, ast.Return) if norm(r.value) == 'module_names + qualified_names']
    ok = len(pre) == 1 and any(norm(a) == 'module_names = self.get_root_context().string_names' for a in stmts_in(gq, ast.Assign))
    if ok:
        ok = gate(gq, pre[0], lambda e, pol: pol and norm(e) == 'include_module_names') is None and \
            gate(gq, pre[0], none_accept('qualified_names')) is None and gate(gq, pre[0], none_accept('module_names')) is None
    chk.ob('C18.c', ok, gq, 'with include_module_names the module\'s string_names are prepended; None parts propagate')
    fn = repo.find('jedi.api.classes', 'BaseName.full_name')
    c = cfg_of(fn)
    rets = stmts_in(fn, ast.Return)
    join = [r for r in rets if isinstance(r.value, ast.Call) and norm(r.value.func) == "'.'.join"]
    ok = len(join) == 1 and norm(join[0].value.args[0]) == 'names'
    chk.ob('C18.c', ok, fn, 'full_name joins the qualified names with dots', str([norm(r.value) for r in rets]))
    maps = [x for x in own_nodes(fn) if isinstance(x, ast.Subscript) and norm(x.value) == 'self._mapping'] + \
        [x for x in own_nodes(fn) if isinstance(x, ast.Call) and norm(x.func) == 'self._mapping.get']
    ok = False
    if len(maps) == 1 and isinstance(getattr(maps[0], '_parent', None), ast.Assign) and norm(maps[0]._parent.targets[0]) == 'names[0]':
        if isinstance(maps[0], ast.Subscript):
            ok = norm(maps[0].slice) == 'names[0]'
        else:       # self._mapping.get(names[0], names[0]): unknown modules keep their name
            ok = [norm(a) for a in maps[0].args] == ['names[0]', 'names[0]']
    chk.ob('C18.c', ok, fn, 'the stdlib pretty-name mapping is applied to the first (module) component only: names[0] = self._mapping[names[0]]',
           str([short(repo.enclosing_stmt(x)) for x in maps]))
    for r in join:
        w = gate(fn, r, lambda e, pol: (not pol) and norm(e) == 'names is None')
        chk.ob('C18.c', w is None, r, 'full_name is None when any part is None', w or '')
    src = [s for s in stmts_in(fn, ast.Assign) if norm(s.targets[0]) == 'names' and isinstance(s.value, ast.Call) and call_name(s.value) == 'get_qualified_names']
    ok = len(src) == 1 and isinstance(kwarg(src[0].value, 'include_module_names'), ast.Constant) and kwarg(src[0].value, 'include_module_names').value is True
    chk.ob('C18.c', ok, fn, 'the names come from get_qualified_names(include_module_names=True)')


def rule_d(repo, chk):
    chk.clause('C18.d', 'Script.get_context moves to the previous leaf when the cursor is before the leaf or on the end marker, applies the header '
                        'special case (n.start_pos < pos <= n.children[-1].start_pos) before falling back to create_context, and walks to a named context')
    f = repo.find('jedi.api', 'Script.get_context')
    tests = if_test_texts(f)
    ok = "leaf.start_pos > pos or leaf.type == 'endmarker'" in tests
    chk.ob('C18.d', ok, f, 'the previous leaf is taken when the cursor is in a prefix OR on the end marker (an indented empty last line belongs to its block)', str(tests))
    own_ctx = [c for c in calls_in(f, 'create_value')]
    ok = len(own_ctx) == 1 and gate(f, own_ctx[0], lambda e, pol: pol and norm(e) == 'n.start_pos < pos <= n.children[-1].start_pos') is None and \
        gate(f, own_ctx[0], none_accept('n')) is None
    chk.ob('C18.d', ok, f, 'header special case: between the start of a def/class and its suite (n.start_pos < pos <= n.children[-1].start_pos, n not None) '
                           'the context is the definition\'s own context')
    sa = [c for c in calls_in(f, 'search_ancestor')]
    ok = len(sa) == 1 and {a.value for a in sa[0].args if isinstance(a, ast.Constant)} == {'funcdef', 'classdef'}
    chk.ob('C18.d', ok, f, 'the enclosing definition is the nearest funcdef/classdef of the leaf')
    cc = [c for c in calls_in(f, 'create_context')]
    cv = [c for c in calls_in(f, 'create_value')]
    chk.ob('C18.d', len(cc) == 1 and len(cv) == 1, f, 'either the definition\'s own context or create_context(leaf)')
    loops = [n for n in own_nodes(f) if isinstance(n, ast.While) and norm(n.test) == 'context.name is None']
    chk.ob('C18.d', len(loops) == 1, f, 'name-less contexts are skipped with a loop')
    names = [c for c in calls_in(f, 'Name')]
    for c in names:
        w = none_safe_chain(f, c, 'context.name')
        chk.ob('C18.d', w is None, c, 'the reported context always has a name', w or '')
    lf = [s for s in stmts_in(f, ast.Assign) if norm(s.targets[0]) == 'leaf' and isinstance(s.value, ast.Call) and call_name(s.value) == 'get_leaf_for_position']
    ok = len(lf) == 1 and isinstance(kwarg(lf[0].value, 'include_prefixes'), ast.Constant) and kwarg(lf[0].value, 'include_prefixes').value is True
    chk.ob('C18.d', ok, f, 'the leaf is looked up with include_prefixes=True (never None)')


def rule_e(repo, chk):
    chk.clause('C18.e', 'the context of a `self.x` name is the innermost scope around it: every return of create_instance_context descends from '
                        'the bound method\'s context to the name with create_context(node) (nested functions/lambdas/comprehensions inside a '
                        'method are not collapsed into the method); SelfName.parent_context is that context')
    f = None
    for q in ('TreeInstance.create_instance_context', '_BaseTreeInstance.create_instance_context', 'AbstractInstanceValue.create_instance_context'):
        try:
            f = repo.find('jedi.inference.value.instance', q)
            break
        except AnchorError:
            continue
    if f is None:
        raise AnchorError('create_instance_context not found')
    node_param = params(f)[-1]
    rets = stmts_in(f, ast.Return)
    chk.floor('C18.e', len(rets), 1, '(returns of create_instance_context)')
    w = must_pass(f, lambda n: node_has(n, lambda x: isinstance(x, ast.Call) and call_name(x) == 'create_context' and len(x.args) == 1
                                        and norm(x.args[0]) == node_param))
    chk.ob('C18.e', w is None, f, 'every return of create_instance_context has descended with <method context>.create_context(%s)' % node_param, w or '')
    sn = repo.find('jedi.inference.value.instance', 'SelfName.parent_context')
    ok = any(call_name(c) == 'create_instance_context' and len(c.args) == 2 and norm(c.args[1]) == 'self.tree_name' for c in calls_in(sn))
    chk.ob('C18.e', ok, sn, 'SelfName.parent_context asks for the context of its own tree name')


def rule_f(repo, chk):
    chk.clause('C18.f', 'qualified names follow the lexical nesting of CLASSES: create_value gives a nested class the context it lexically sits '
                        'in (only functions skip enclosing class bodies, in FunctionValue.from_context - C03.e); no climbing of '
                        'parent_context in front of the ClassValue constructor, else Outer drops out of Outer.Inner.method')
    f = repo.find('jedi.inference.context', 'TreeContextMixin.create_value')
    ctors = [c for c in calls_in(f, 'ClassValue')]
    chk.floor('C18.f', len(ctors), 1, '(ClassValue constructor in create_value)')
    pc = [a for a in stmts_in(f, ast.Assign) if norm(a.targets[0]) == 'parent_context']
    ok = len(pc) == 1 and norm(pc[0].value) == 'self.create_context(node)'
    chk.ob('C18.f', ok, f, 'the parent context of a new value is bound once: create_context(node), the lexical context', str([norm(a.value) for a in pc]))
    for c in ctors:
        ok = len(c.args) >= 2 and norm(c.args[1]) == 'parent_context'
        chk.ob('C18.f', ok, c, 'the class value is built with that lexical parent context', norm(c))
    loops = [x for x in own_nodes(f) if isinstance(x, (ast.While, ast.For))]
    chk.ob('C18.f', not loops, f, 'create_value itself climbs nothing (the class-skipping climb lives in FunctionValue.from_context only)')


def rule_g(repo, chk):
    chk.clause('C18.g', 'the dotted name of the analysed file (the prefix of every full_name in it) is computed against the search path WITHOUT the '
                        'buffer\'s own ancestor directories: Script._get_module asks get_sys_path(add_parent_paths=False), so that namespace directories '
                        'between the project root and the file stay part of the name (`services.billing.invoice`, not `billing.invoice`)')
    f = repo.find('jedi.api', 'Script._get_module')
    calls = [c for c in calls_in(f, 'transform_path_to_dotted')]
    chk.floor('C18.g', len(calls), 1, 'transform_path_to_dotted in Script._get_module')
    from ..lib import xnorm
    for c in calls:
        a0 = c.args[0] if c.args else None
        src = None
        if a0 is not None:
            e = a0
            if isinstance(e, ast.Name):
                binds = [s_ for s_ in stmts_in(f, ast.Assign) if any(isinstance(t, ast.Name) and t.id == e.id for t in s_.targets)]
                e = binds[0].value if len(binds) == 1 else e
            src = e
        ok = isinstance(src, ast.Call) and call_name(src) == 'get_sys_path' and isinstance(kwarg(src, 'add_parent_paths'), ast.Constant) \
            and kwarg(src, 'add_parent_paths').value is False
        chk.ob('C18.g', ok, c, 'the search path handed to transform_path_to_dotted is get_sys_path(add_parent_paths=False)', short(src) if src is not None else '')
        ok = len(c.args) >= 2 and norm(c.args[1]) == 'self.path'
        chk.ob('C18.g', ok, c, 'the path named is the script\'s own path')
    g = repo.find('jedi.api.project', 'Project._get_sys_path')
    d = [a for a, dflt in zip(reversed(g.args.args), reversed(g.args.defaults)) if a.arg == 'add_parent_paths' and isinstance(dflt, ast.Constant) and dflt.value is True]
    chk.ob('C18.g', bool(d), g, 'Project._get_sys_path adds the ancestors by default (add_parent_paths=True), hence the explicit False above is needed')


def rule_h(repo, chk):
    chk.clause('C18.h', 'parent()/get_context answers are computed from the name\'s own definition node every time: the per-state memo table '
                        '(InferenceState.memoize_cache) is touched only by the memo decorators of jedi/inference/cache.py, whose keys contain the '
                        'object itself - no hand-written key (name text, position) can alias definitions of different modules')
    n = 0
    for mod in repo.modules.values():
        for x in ast.walk(mod.tree):
            if isinstance(x, ast.Attribute) and x.attr == 'memoize_cache':
                n += 1
                ok = mod.name == 'jedi.inference.cache' or (mod.name == 'jedi.inference' and isinstance(x.ctx, ast.Store))
                chk.ob('C18.h', ok, x, '`%s` in %s: the memo table is used by the memo decorators only' % (short(x), repo.qual_of(x) or mod.name),
                       'hand-written access to the memo table', key='%s|memoize_cache|%s' % (mod.name, repo.qual_of(x)))
    chk.floor('C18.h', n, 4, '(accesses to memoize_cache)')
    f = repo.find('jedi.api.classes', 'BaseName.parent')
    calls = [c for c in calls_in(f) if call_name(c) in ('setdefault', 'get') and 'cache' in norm(c.func.value)]
    chk.ob('C18.h', not calls, f, 'BaseName.parent keeps no table of earlier answers', str([short(c) for c in calls]))


def describe(chk):
    chk.undecided('the position -> scope mapping over all files (e.g. async def bodies); __qualname__ equality for everything the engine reports')


RULES = [('C18.a', rule_a), ('C18.b', rule_b), ('C18.c', rule_c), ('C18.d', rule_d), ('C18.e', rule_e), ('C18.f', rule_f), ('C18.g', rule_g), ('C18.h', rule_h)]
