"""C06 — extract and inline keep the program valid and equivalent (one table clause + wiring).

Decided: WHEN inline parenthesises.  From the grammar the checker derives every nonterminal
in which a name can sit in an operand position that binds tighter than a general expression
(`test`); each must trigger parenthesisation in inline() or hold only assignment targets.
The condition in inline() must depend on the use site alone (not on the shape of the inlined
expression).  Also: everything extract_variable accepts exists in every supported grammar."""
import ast

from ..core import AnchorError, atoms, call_name, decorators, norm, short, own_nodes, kwarg, FUNC_TYPES
from ..cfg import cfg_of
from ..lib import calls_in, stmts_in, gate, must_pass, node_has, params, raised_name, xnorm, decision_table, dominating_facts, atom_key
from .. import grammar as G
from .c01 import supported_versions

REF = 'jedi.api.refactoring'
EXT = 'jedi.api.refactoring.extract'
CHAIN = ['test', 'or_test', 'and_test', 'not_test', 'comparison', 'expr', 'xor_expr', 'and_expr', 'shift_expr', 'arith_expr', 'term',
         'factor', 'power', 'atom_expr', 'atom']
TARGET_ONLY = {
    'exprlist': 'the expr positions of an exprlist are assignment/deletion targets (for-targets, del): definitions, never references that inline replaces',
    'with_item': 'the tight position is the `as` target (a definition); the context expression itself is a test',
}


def _string_table(repo, modname, name, seen=None):
    """list of strings a module-level table evaluates to: '...'.split(), tuple/list literals, A + B"""
    st = repo.toplevel(modname, name)

    def ev(e):
        if isinstance(e, ast.Call) and isinstance(e.func, ast.Attribute) and e.func.attr == 'split' and not e.args:
            return ev_str(e.func.value).split()
        if isinstance(e, (ast.Tuple, ast.List)):
            return [x.value for x in e.elts]
        if isinstance(e, ast.BinOp) and isinstance(e.op, ast.Add):
            return list(ev(e.left)) + list(ev(e.right))
        if isinstance(e, ast.Name):
            r = repo.resolve(e)
            if r:
                m, _, n = r.rpartition('.')
                return _string_table(repo, m, n)
        raise AnchorError('cannot evaluate table %s.%s: %s' % (modname, name, norm(e)))

    def ev_str(e):
        if isinstance(e, ast.Constant) and isinstance(e.value, str):
            return e.value
        if isinstance(e, ast.BinOp) and isinstance(e.op, ast.Add):
            return ev_str(e.left) + ev_str(e.right)
        raise AnchorError('cannot evaluate string in table %s.%s' % (modname, name))
    return ev(st.value)


def rule_a(repo, chk, all_versions=False):
    chk.clause('C06.a', 'TABLE: inline wraps the replacement in parentheses whenever the use site\'s parent nonterminal can hold a name in an operand '
                        'position tighter than `test` (derived from the grammar: every rule that mentions a member of the chain or_test..atom), '
                        'unless that position only holds assignment targets; the decision depends on the use site alone')
    versions = supported_versions(repo)
    use = versions if all_versions else versions[:1]
    f = repo.find(REF, 'inline')
    # which table does inline consult for the parent type?
    tests = [x for x in own_nodes(f) if isinstance(x, ast.Compare) and xnorm(x.left, f) in ('tree_name.parent.type', 'use_site.type') and isinstance(x.ops[0], ast.In)]
    site = 'use_site' if tests and xnorm(tests[0].left, f) == 'use_site.type' else 'tree_name.parent'
    chk.ob('C06.a', len(tests) == 1 and isinstance(tests[0].comparators[0], ast.Name), f, 'inline tests the use site\'s parent type against one table')
    if not tests or not isinstance(tests[0].comparators[0], ast.Name):
        return
    tname = tests[0].comparators[0].id
    wrap = set(_string_table(repo, REF, tname))
    chk.notes['inline_wrap_table'] = sorted(wrap)
    for v in use:
        g = G.Grammar(v)
        chk.trust('parso grammar%s.txt sha256=%s' % (v.replace('.', ''), g.digest[:16]))
        for a, b in zip(CHAIN, CHAIN[1:]):
            if b not in g.symbols(a):
                raise AnchorError('grammar %s: operand chain broken at %s -> %s' % (v, a, b))
        tight = set(CHAIN[1:])
        P = sorted(r for r in g.rules if set(g.symbols(r)) & tight)
        chk.floor('C06.a', len(P), 15, '(grammar rules with tight operand positions)')
        for r in P:
            if r in TARGET_ONLY:
                chk.ob('C06.a', True, tests[0], 'grammar %s: `%s` needs no parentheses: %s' % (v, r, TARGET_ONLY[r]), key='tight|%s' % r)
                continue
            chk.ob('C06.a', r in wrap, tests[0], 'grammar %s: a name inside `%s` can be an operand that binds tighter than an expression, so `%s` must be in %s'
                   % (v, r, r, tname), 'inlining a ternary/boolean/lambda right-hand side there changes the meaning or is a syntax error', key='tight|%s' % r)
    # the wrapping condition: (rhs is a tuple) or (parent in table) or (name is a trailer that is followed by another trailer)
    wraps = [s for s in stmts_in(f, ast.Assign) if norm(s.value) == "'(' + replace_code + ')'"]
    chk.ob('C06.a', len(wraps) == 1, f, 'one place wraps the replacement in parentheses')
    for s in wraps:
        cond = None
        for a in repo.ancestors(s):
            if isinstance(a, ast.If) and s in a.body:
                cond = a.test
                break
        disj = cond.values if isinstance(cond, ast.BoolOp) and isinstance(cond.op, ast.Or) else [cond]
        texts = [xnorm(d, f) for d in disj]
        ok = any(t == '%s.type in %s' % (site, tname) for t in texts)
        chk.ob('C06.a', ok, s, 'the parent-type test is a top-level disjunct of the wrapping condition (it is not weakened by a conjunct about the inlined expression)', str(texts))
        ok = any(t == "rhs.type == 'testlist_star_expr'" for t in texts)
        chk.ob('C06.a', ok, s, 'a tuple right-hand side is always wrapped')
        ok = any("tree_name.parent.type == 'trailer'" in t and 'get_next_sibling() is not None' in t for t in texts)
        chk.ob('C06.a', ok, s, 'a name inside a trailer chain (a.x.y) is wrapped')
    # the whole decision, however it is written: for every assignment of the four facts the reference is wrapped exactly when
    # (tuple) or (parent in table) or (trailer followed by a sibling); a test of anything else in front of it is explored both ways
    # and shows up as a second outcome
    c = cfg_of(f)
    heads = [n for n in c.nodes if n.kind == 'for' and isinstance(n.ast, ast.For) and norm(n.ast.iter) == 'references']
    if len(heads) == 1 and wraps:
        def label(n):
            if n.kind == 'stmt' and isinstance(n.ast, ast.Assign) and norm(n.ast.value) == "'(' + replace_code + ')'":
                return 'wrap'
            if n.kind == 'stmt' and 'file_to_node_changes.setdefault' in norm(n.ast):
                return 'plain'
            return None
        bad = decision_table(f, heads[0], [('tuple', "rhs.type == 'testlist_star_expr'"), ('in_table', '%s.type in %s' % (site, tname)),
                                           ('trailer', "tree_name.parent.type == 'trailer'"), ('followed', 'tree_name.parent.get_next_sibling() is not None')]
                             + ([('us_trailer', "use_site.type == 'trailer'"), ('us_dot', "use_site.children[0] == '.'"),
                                 ('us_last', 'use_site.get_next_sibling() is None')] if site == 'use_site' else []),     # which node is asked (decided below) does not change the table
                             label, lambda fc: 'wrap' if fc['tuple'] or fc['in_table'] or (fc['trailer'] and fc['followed']) else 'plain')
        chk.ob('C06.a', not bad, heads[0].ast, 'decision table of the parenthesisation (4 facts): wrapped exactly when the value is a bare tuple, the use site\'s '
               'parent is in the table, or the name is a trailer followed by a sibling - nothing about the inlined value can switch it off',
               '; '.join(bad[:3]), key='inline-wrap-table')
    else:
        chk.ob('C06.a', False, f, 'decision table of the parenthesisation: one loop over `references` and one wrapping statement', key='inline-wrap-table')
    # WHICH node is the use site: a name that is the last attribute of a chain (`a.x` with nothing behind it) is replaced together with the
    # chain, so the table must be asked about the parent of the chain (`a.x * 2` sits in a term), not about the trailer
    lifts = [s_ for s_ in stmts_in(f, ast.Assign) if norm(s_.targets[0]) == 'use_site' and norm(s_.value) == 'use_site.parent.parent']
    starts = [s_ for s_ in stmts_in(f, ast.Assign) if norm(s_.targets[0]) == 'use_site' and norm(s_.value) == 'tree_name.parent']
    ok = len(lifts) == 1 and len(starts) == 1 and site == 'use_site'
    chk.ob('C06.a', ok, f, 'the use site of a name that ends an attribute chain is the parent of the whole chain (use_site = use_site.parent.parent)',
           'inline judges `a.x` by the trailer of x: `self.x = 1 + 2; self.x * 2` becomes `1 + 2 * 2`', key='inline-use-site-of-attribute')
    for l_ in lifts:
        facts = {atom_key(e, None)[0]: (atom_key(e, None)[1] == pol) for e, pol in dominating_facts(f, l_) if 'use_site' in norm(e)}
        want_f = {atom_key(ast.parse(t, mode='eval').body, None)[0]: True for t in ("use_site.type == 'trailer'", "use_site.children[0] == '.'")}
        k_none, p_none = atom_key(ast.parse('use_site.get_next_sibling() is None', mode='eval').body, None)
        ok = all(facts.get(k) is True for k in want_f) and facts.get(k_none) is True and set(facts) <= set(want_f) | {k_none}
        chk.ob('C06.a', ok, l_, 'the lift happens exactly for a `.name` trailer without a following sibling', str(sorted(facts.items())))
    # everything else about the replacement text
    rc = [s for s in stmts_in(f, ast.Assign) if norm(s.targets[0]) == 'replace_code']
    chk.ob('C06.a', len(rc) == 1 and norm(rc[0].value) == 'rhs.get_code(include_prefix=False)', f, 'the replacement is the right-hand side\'s own code')
    rh = [s for s in stmts_in(f, ast.Assign) if norm(s.targets[0]) == 'rhs']
    chk.ob('C06.a', len(rh) == 1 and norm(rh[0].value) == 'expr_stmt.get_rhs()', f, 'rhs is the assignment\'s right-hand side')
    # preconditions
    msgs = [norm(r.exc) for r in stmts_in(f, ast.Raise)]
    want = ['multiple definitions', 'No definition found', 'no references', 'Cannot inline a %s', 'defined by an annotation', 'Cannot inline a statement with']
    for w in want:
        chk.ob('C06.a', any(w.lower() in m.lower() for m in msgs), f, 'inline refuses: %s' % w)
    chk.ob('C06.a', all(raised_name(r) == 'RefactoringError' for r in stmts_in(f, ast.Raise)), f, 'refusals are RefactoringError')


def rule_b(repo, chk, all_versions=False):
    chk.clause('C06.b', 'TABLE: everything extract_variable accepts as an expression (_VARIABLE_EXCTRACTABLE) is a nonterminal of every supported grammar '
                        'or a leaf type parso produces; EXPRESSION_PARTS is the operator chain of the grammar')
    versions = supported_versions(repo)
    use = versions if all_versions else versions[:1]
    tbl = _string_table(repo, EXT, '_VARIABLE_EXCTRACTABLE')
    parts = _string_table(repo, REF, 'EXPRESSION_PARTS')
    leaves = {'keyword', 'name', 'number', 'string', 'fstring', 'operator', 'strings'}
    chk.floor('C06.b', len(tbl), 15)
    for v in use:
        g = G.Grammar(v)
        for t in sorted(set(tbl)):
            ok = t in g.rules or t in leaves
            if not ok and t in ('lambdef_nocond', 'test_nocond', 'old_lambdef', 'old_test'):
                ok = True      # nonterminals of older grammars; harmless extra entries
            chk.ob('C06.b', ok, None, 'grammar %s: extractable type %r exists' % (v, t), key='extractable|%s|%s' % (v, t))
        for t in sorted(set(parts)):
            chk.ob('C06.b', t in CHAIN and t in g.rules, None, 'grammar %s: EXPRESSION_PARTS member %r is a rule of the operator chain' % (v, t), key='part|%s|%s' % (v, t))
        missing = [t for t in CHAIN[1:-1] if t not in parts]
        chk.ob('C06.b', not missing, None, 'grammar %s: EXPRESSION_PARTS covers the whole chain or_test..atom_expr' % v, 'missing: %s' % missing, key='chain|%s' % v)
    # extract: async/decorated wrappers are climbed with a loop when looking for the insertion point
    ins = repo.find(EXT, '_get_code_insertion_node')
    loops = [n for n in own_nodes(ins) if isinstance(n, ast.While)]
    ok = any("'async_funcdef'" in norm(l.test) and "'decorated'" in norm(l.test) and "'async_stmt'" in norm(l.test) for l in loops)
    chk.ob('C06.b', ok, ins, 'the insertion point climbs async_funcdef/decorated/async_stmt wrappers repeatedly (while), so new code lands before `async def` / decorators')


def rule_c(repo, chk):
    chk.clause('C06.c', 'extract_function parameter analysis: every name read inside the extracted range is resolved with context.goto and classified by '
                        '_is_name_input unless it already is an input — no shortcut that treats a name as local because it is (also) assigned in the range')
    f = repo.find(EXT, '_find_inputs_and_outputs')
    c = cfg_of(f)
    loops = [n for n in c.nodes if n.kind == 'for' and call_name(n.ast.iter) == '_find_non_global_names']
    chk.ob('C06.c', len(loops) >= 1, f, 'one loop over all names of the extracted nodes')
    resolved = [n for n in c.nodes if node_has(n, lambda x: isinstance(x, ast.Call) and call_name(x) == 'goto')]
    chk.ob('C06.c', bool(resolved), f, 'read names are resolved with goto')

    def decided(n, k, m):
        e = n.ast
        if n.kind != 'test':
            return False
        if norm(e) == 'name.is_definition()' and k == 'T':
            return True          # a binding, not a read
        if isinstance(e, ast.Compare) and isinstance(e.ops[0], ast.NotIn) and norm(e.left) == 'name.value' and norm(e.comparators[0]) == 'inputs' and k == 'F':
            return True          # already an input
        return False
    if loops:
        starts = [m for h in loops[:1] for m, k in h.succ if k == 'T']
        p = c.reach(starts, lambda n: n in loops, block_node=lambda n: n in resolved, block_edge=decided, kinds={'n', 'T', 'F'})
        chk.ob('C06.c', p is None, loops[0].ast, 'a read name reaches the next iteration only through the goto-based classification',
               'shortcut path: %s' % c.describe(p) if p else '')
    ii = [x for x in calls_in(f, '_is_name_input')]
    chk.ob('C06.c', len(ii) == 1 and [norm(a) for a in ii[0].args] == ['module_context', 'name_definitions', 'first', 'last'], f,
           'classification is _is_name_input(module_context, definitions, first, last) over the whole range')
    fl = [s_ for s_ in stmts_in(f, ast.Assign) if norm(s_.targets[0]) in ('first', 'last')]
    ok = sorted(norm(s_.value) for s_ in fl) == ['nodes[-1].end_pos', 'nodes[0].start_pos']
    chk.ob('C06.c', ok, f, 'the range is nodes[0].start_pos .. nodes[-1].end_pos')
    rp = repo.find(EXT, '_replace')
    full = [s_ for s_ in stmts_in(rp, ast.Assign) if norm(s_.value) == 'first_node_leaf.prefix']
    ok = bool(full) and all(gate(rp, s_, lambda e, pol: pol and norm(e) == 'remaining_prefix is None') is None for s_ in full)
    chk.ob('C06.c', ok, rp, 'without a remaining prefix the replaced expression keeps the WHOLE prefix of its first leaf (comments, blank lines and line '
           'breaks in front of it are preserved)', 'no assignment from first_node_leaf.prefix under `remaining_prefix is None`')


def thorough(repo, chk):
    rule_a(repo, chk, all_versions=True)
    rule_b(repo, chk, all_versions=True)


def describe(chk):
    chk.undecided('compiles-or-refuses and equivalence over all selections (needs compiling and running): input/output analysis of extract_function, '
                  'prefix/indentation handling of _replace, side conditions of inline (global statements, await, integer literals with trailers)')


RULES = [('C06.a', rule_a), ('C06.b', rule_b), ('C06.c', rule_c)]
