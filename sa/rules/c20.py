"""C20 — project settings round-trip and shape sys.path as documented.

Decided: writer/reader agreement of save()/load() (keys written == constructor keywords, every
value JSON-serialisable, nothing dropped), the ordered composition prefixed + base + suffixed
with order-preserving de-duplication on private copies, and that import resolution reads the
host's sys.path only at the two environment entry points."""
import ast

from ..core import AnchorError, call_name, decorators, norm, short, own_nodes, kwarg, FUNC_TYPES
from ..cfg import cfg_of
from ..lib import calls_in, stmts_in, gate, must_pass, node_has, params, attr_stores, effective_body, xnorm, decision_table

PROJ = 'jedi.api.project'


def _ctor_keywords(init):
    a = init.args
    return [x.arg for x in a.args[1:]] + [x.arg for x in a.kwonlyargs]


def _const_strings(repo, func, e):
    """the string constants of a tuple/list/set display, directly or through a module-level name bound to one"""
    if isinstance(e, ast.Name):
        b = repo.toplevel(func._mod.name, e.id) if getattr(func, '_mod', None) is not None else None
        e = getattr(b, 'value', None)
    if isinstance(e, (ast.Tuple, ast.List, ast.Set)) and all(isinstance(x, ast.Constant) and isinstance(x.value, str) for x in e.elts):
        return [x.value for x in e.elts]
    return None


def rule_a(repo, chk):
    chk.clause('C20.a', 'writer/reader agreement: the keys save() writes (instance attributes assigned on a Project anywhere, minus the keys '
                        'save() pops, underscores stripped) equal the keywords __init__ accepts (what load()\'s cls(**data) needs); save drops '
                        'no value; load accepts exactly the version save writes')
    ci = repo.cls(PROJ, 'Project')
    init = ci.methods['__init__']
    kws = set(_ctor_keywords(init))
    attrs = set()
    for x in ast.walk(ci.node):
        if isinstance(x, ast.Attribute) and isinstance(x.ctx, ast.Store) and isinstance(x.value, ast.Name) and x.value.id == 'self':
            attrs.add(x.attr)
    # attributes set on Project instances from outside the class (project._django = True)
    for m in repo.modules.values():
        for x in ast.walk(m.tree):
            if isinstance(x, ast.Attribute) and isinstance(x.ctx, ast.Store) and isinstance(x.value, ast.Name) and x.value.id == 'project' and m.name == PROJ:
                attrs.add(x.attr)
    save = ci.methods['save']
    # keys left out of the file: popped from the copy, or excluded by a membership test of the KEY in the comprehension that builds
    # the data (both spellings of "not serialised"); a filter on anything else (the value!) loses falsy settings
    popped = {c.args[0].value for c in calls_in(save, 'pop') if c.args and isinstance(c.args[0], ast.Constant)}
    comp = [s for s in stmts_in(save, ast.Assign) if norm(s.targets[0]) == 'data' and isinstance(s.value, ast.DictComp)]
    excluded, other_filters = set(), []
    for cst in comp:
        g0 = cst.value.generators[0]
        kvar = g0.target.elts[0].id if isinstance(g0.target, ast.Tuple) and len(g0.target.elts) == 2 and isinstance(g0.target.elts[0], ast.Name) else None
        for t in g0.ifs:
            consts = None
            if isinstance(t, ast.Compare) and len(t.ops) == 1 and isinstance(t.ops[0], ast.NotIn) and isinstance(t.left, ast.Name) and t.left.id == kvar:
                consts = _const_strings(repo, save, t.comparators[0])
            elif isinstance(t, ast.Compare) and len(t.ops) == 1 and isinstance(t.ops[0], ast.NotEq) and isinstance(t.left, ast.Name) and t.left.id == kvar \
                    and isinstance(t.comparators[0], ast.Constant):
                consts = [t.comparators[0].value]
            if consts is None:
                other_filters.append(norm(t))
            else:
                excluded |= set(consts)
    left_out = popped | excluded
    class_level = set(ci.attrs)      # class attributes are not in __dict__ unless assigned on the instance
    written = {a.lstrip('_') for a in attrs if a not in left_out}
    chk.ob('C20.a', written == kws, save, 'keys written by save() == keyword parameters of __init__', 'written only: %s; accepted only: %s' % (sorted(written - kws), sorted(kws - written)))
    for p in sorted(left_out):
        chk.ob('C20.a', p.lstrip('_') not in kws, save, 'left-out key %r is not a constructor setting' % p)
    # what is dumped derives from the instance dictionary, which save() only reads: a copy that is popped from, or a comprehension
    # over the items of the dictionary / of the copy
    d0 = [s for s in stmts_in(save, ast.Assign) if norm(s.value) == 'dict(self.__dict__)' and isinstance(s.targets[0], ast.Name)]
    v0 = d0[0].targets[0].id if len(d0) == 1 else None
    src_ok = len(comp) == 1 and norm(comp[0].value.generators[0].iter) in ((v0 + '.items()') if v0 else '', 'self.__dict__.items()')
    ok = (src_ok or v0 == 'data') and all(norm(c.func.value) == v0 for c in calls_in(save, 'pop')) and len(d0) <= 1 and \
        not [x for x in own_nodes(save) if isinstance(x, (ast.Subscript, ast.Attribute)) and isinstance(x.ctx, (ast.Store, ast.Del)) and 'self.__dict__' in norm(x)]
    chk.ob('C20.a', ok, save, 'save() derives the data from the instance dictionary and only reads it (a copy is what keys are popped from)')
    def kv(cst):
        t = cst.value.generators[0].target
        return (t.elts[0].id, t.elts[1].id) if isinstance(t, ast.Tuple) and len(t.elts) == 2 and all(isinstance(e, ast.Name) for e in t.elts) else (None, None)
    ok = len(comp) == 1 and not other_filters and kv(comp[0])[0] is not None and norm(comp[0].value.key) == "%s.lstrip('_')" % kv(comp[0])[0] \
        and norm(comp[0].value.value) == kv(comp[0])[1]
    chk.ob('C20.a', ok, save, 'every entry is written under its name without leading underscores; nothing is filtered by value (falsy settings such as '
           'smart_sys_path=False survive)', (short(comp[0]) if comp else '') + (' filters: %s' % other_filters if other_filters else ''))
    dump = calls_in(save, 'dump')
    ok = len(dump) == 1 and norm(dump[0].args[0]) == '(_SERIALIZER_VERSION, data)'
    chk.ob('C20.a', ok, save, 'what is dumped is (_SERIALIZER_VERSION, data)')
    load = ci.methods['load']
    ok = any(isinstance(x, ast.Call) and norm(x.func) == 'cls' and [k.arg for k in x.keywords] == [None] and norm(x.keywords[0].value) == 'data' for x in ast.walk(load))
    chk.ob('C20.a', ok, load, 'load() builds the project with cls(**data)')
    ver = repo.toplevel(PROJ, '_SERIALIZER_VERSION')
    tests = [x for x in own_nodes(load) if isinstance(x, ast.Compare) and norm(x.left) == 'version']
    ok = len(tests) == 1 and isinstance(tests[0].ops[0], (ast.Eq, ast.NotEq)) and (norm(tests[0].comparators[0]) == '_SERIALIZER_VERSION' or
                                                                                   (isinstance(tests[0].comparators[0], ast.Constant) and tests[0].comparators[0].value == ver.value.value))
    chk.ob('C20.a', ok, load, 'load compares the stored version with the version save writes (%s)' % norm(ver.value))
    # which way the comparison goes, and that nothing else is accepted: the function's path summary equals the pinned one
    from ..summaries import check_summary
    check_summary(repo, chk, 'C20.a', PROJ, 'Project.load')
    ok = any(isinstance(s, ast.Assign) and isinstance(s.targets[0], ast.Tuple) and norm(s.targets[0]) == '(version, data)' for s in stmts_in(load, ast.Assign))
    chk.ob('C20.a', ok, load, 'load unpacks (version, data) as written')
    ok = norm(calls_in(save, 'open')[0].args[0]) == 'self._get_json_path(self._path)' and 'cls._get_json_path(path)' in norm(load)
    chk.ob('C20.a', ok, save, 'save and load use the same file location')


def rule_b(repo, chk):
    chk.clause('C20.b', 'every saved value is JSON-serialisable for every documented argument type: each path-like constructor parameter is coerced '
                        'to str / list of str when stored or in save(); path is made absolute on every branch')
    ci = repo.cls(PROJ, 'Project')
    init = ci.methods['__init__']
    save = ci.methods['save']
    c = cfg_of(init)

    def coerced_to_str(expr):
        t = norm(expr)
        return t.startswith('str(') or t.startswith('list(map(str,') or t.startswith('[str(')
    # path
    ps = attr_stores(init, '_path')
    chk.ob('C20.b', len(ps) == 1, init, 'one store of _path')
    for s in ps:
        ok = norm(s.value) in ('path.absolute()', 'Path(path).absolute()') or norm(s.value) == 'path'
        absolute = '.absolute()' in norm(s.value)
        if not absolute:
            # then every assignment of `path` must be absolute
            defs = [a for a in stmts_in(init, ast.Assign) if norm(a.targets[0]) == 'path']
            p = c.reach([c.entry], lambda n: n.ast is s, block_node=lambda n: n.ast in defs and '.absolute()' in norm(n.ast.value))
            absolute = p is None
        chk.ob('C20.b', absolute, s, 'the project path is made absolute whatever type it was given as (str or Path)', short(s))
    sv = [a for a in stmts_in(save, ast.Assign) if norm(a.targets[0]) == "data['path']"]
    chk.ob('C20.b', len(sv) == 1 and norm(sv[0].value) == "str(data['path'])", save, 'save() writes the path as str')
    # environment_path, sys_path, added_sys_path
    for attr, param in (('_environment_path', 'environment_path'), ('_sys_path', 'sys_path'), ('added_sys_path', 'added_sys_path')):
        st = attr_stores(init, attr)
        chk.ob('C20.b', len(st) == 1, init, 'one store of %s' % attr)
        for s in st:
            v = s.value
            ok = coerced_to_str(v)
            if not ok and isinstance(v, ast.Name):
                # every non-None definition of that local that reaches the store is a coercion
                defs = [a for a in stmts_in(init, ast.Assign) if norm(a.targets[0]) == v.id]
                good = [a for a in defs if coerced_to_str(a.value)]

                def is_none_edge(n, k, m, name=v.id):
                    e = n.ast
                    return n.kind == 'test' and isinstance(e, ast.Compare) and norm(e.left) == name and isinstance(e.comparators[0], ast.Constant) and \
                        e.comparators[0].value is None and ((isinstance(e.ops[0], ast.IsNot) and k == 'F') or (isinstance(e.ops[0], ast.Is) and k == 'T'))
                p = c.reach([c.entry], lambda n: n.ast is s, block_node=lambda n: n.ast in good, block_edge=is_none_edge)
                ok = bool(good) and p is None
            in_save = any(norm(a.targets[0]) == "data['%s']" % param and coerced_to_str(a.value) for a in stmts_in(save, ast.Assign))
            chk.ob('C20.b', ok or in_save, s, '%s is stored (or saved) as str / list of str unless it is None' % param, short(s))
    # plain settings stored unmodified
    for attr, param in (('_smart_sys_path', 'smart_sys_path'), ('_load_unsafe_extensions', 'load_unsafe_extensions')):
        st = attr_stores(init, attr)
        ok = len(st) == 1 and norm(st[0].value) == param
        chk.ob('C20.b', ok, init, '%s is stored unmodified' % param)


def rule_c(repo, chk):
    chk.clause('C20.c', 'composition: _get_sys_path returns prefixed + base + suffixed through an order-preserving first-wins de-duplication; the '
                        'project directory is prepended only under smart_sys_path; suffixed is a private copy of added_sys_path extended by '
                        'buildout paths and the buffer\'s ancestor directories inside the project')
    f = repo.find(PROJ, 'Project._get_sys_path')
    rets = stmts_in(f, ast.Return)
    ok = len(rets) == 1 and xnorm(rets[0].value, f) == 'list(_remove_duplicates_from_path(prefixed + sys_path + suffixed))'
    chk.ob('C20.c', ok, f, 'the result is list(_remove_duplicates_from_path(prefixed + sys_path + suffixed)) (in this order)', short(rets[0]) if rets else '')
    su = [s for s in stmts_in(f, ast.Assign) if norm(s.targets[0]) == 'suffixed']
    ok = len(su) == 1 and norm(su[0].value) == 'list(self.added_sys_path)'
    chk.ob('C20.c', ok, f, 'suffixed starts as a COPY of added_sys_path (extending it must not change the project setting)', short(su[0]) if su else '')
    sp = [s for s in stmts_in(f, ast.Assign) if norm(s.targets[0]) == 'sys_path']
    ok = len(sp) == 2 and all(call_name(s.value) == 'list' for s in sp)
    chk.ob('C20.c', ok, f, 'the base path is a copy of the explicit sys_path or of the environment\'s path', str([short(s) for s in sp]))
    for s in sp:
        if '_get_base_sys_path' in norm(s.value):
            w = gate(f, s, lambda e, pol: pol and norm(e) == 'self._sys_path is None')
            chk.ob('C20.c', w is None, s, 'the environment\'s path is used only when no sys_path was given', w or '')
    pre = [c for c in calls_in(f, 'append') if norm(c.func.value) == 'prefixed']
    for c in pre:
        w = gate(f, c, lambda e, pol: pol and norm(e) in ('self._smart_sys_path', 'self._django'))
        chk.ob('C20.c', w is None and norm(c.args[0]) == 'str(self._path)', c, 'the project directory is prepended only under smart_sys_path (or django)', w or norm(c.args[0]))
    chk.floor('C20.c', len(pre), 1)
    # ancestor walk: stops at the project dir by PATH relation (not by string prefix)
    lp = [n for n in own_nodes(f) if isinstance(n, ast.For) and xnorm(n.iter, f) == 'inference_state.script_path.parents' and isinstance(n.target, ast.Name)]
    chk.ob('C20.c', len(lp) == 1, f, 'the buffer\'s ancestor directories are walked upward')
    if lp:
        v = lp[0].target.id
        c = cfg_of(f)
        head = [n for n in c.nodes if n.kind == 'for' and n.ast is lp[0]]

        def label(n):
            if n.kind == 'stmt' and isinstance(n.ast, ast.Break):
                return 'stop'
            if n.kind == 'stmt' and isinstance(n.ast, ast.Expr) and isinstance(n.ast.value, ast.Call) and norm(n.ast.value.func).endswith('.append') \
                    and norm(n.ast.value.args[0]) == 'str(%s)' % v:
                return 'take'
            return None
        bad = decision_table(f, head[0], [('is_project', '%s == self._path' % v), ('inside', 'self._path in %s.parents' % v),
                                          ('add_init', 'add_init_paths'), ('is_package', "%s.joinpath('__init__.py').is_file()" % v)],
                             label, lambda t: 'stop' if t['is_project'] or not t['inside'] else ('<loop>' if t['is_package'] and not t['add_init'] else 'take'))
        chk.ob('C20.c', not bad, lp[0], 'the walk stops at the project directory or as soon as the directory is not inside the project (path containment, '
               'not a string prefix); below it package directories (__init__.py) are skipped unless add_init_paths and every other directory is '
               'taken (decision table over 4 facts)', '; '.join(bad[:3]), key='ancestor-walk')
    ok = any(isinstance(s, ast.AugAssign) and norm(s.target) == 'suffixed' and norm(s.value) == 'reversed(traversed)' for s in stmts_in(f, ast.AugAssign))
    chk.ob('C20.c', ok, f, 'ancestor directories are appended after added_sys_path and buildout paths')
    d = repo.find(PROJ, '_remove_duplicates_from_path')
    ys = [y for y in own_nodes(d) if isinstance(y, ast.Yield)]
    lp = [n for n in own_nodes(d) if isinstance(n, ast.For)]
    ok = len(ys) == 1 and len(lp) == 1 and norm(lp[0].iter) == params(d)[0] and norm(ys[0].value) == norm(lp[0].target) and \
        gate(d, ys[0], lambda e, pol: (not pol) and isinstance(e, ast.Compare) and isinstance(e.ops[0], ast.In)) is None
    chk.ob('C20.c', ok, d, '_remove_duplicates_from_path yields in iteration order and skips members already seen (first occurrence kept)')
    ok = not any(isinstance(x, ast.Call) and call_name(x) in ('sorted', 'set') and x.args and norm(x.args[0]) == params(d)[0] for x in ast.walk(d))
    chk.ob('C20.c', ok, d, 'the path is not sorted or turned into a set')
    # the memo of _get_sys_path must not hand out a list that callers extend
    for c in repo.calls_of('get_sys_path') + repo.calls_of('_get_sys_path'):
        fn = repo.enclosing_func(c)
        st = repo.enclosing_stmt(c)
        if fn is None or not isinstance(st, ast.Assign) or st.value is not c or not isinstance(st.targets[0], ast.Name):
            continue
        var = st.targets[0].id
        for x in own_nodes(fn):
            mut = None
            if isinstance(x, ast.AugAssign) and norm(x.target) == var:
                mut = x
            if isinstance(x, ast.Call) and isinstance(x.func, ast.Attribute) and norm(x.func.value) == var and x.func.attr in ('append', 'extend', 'insert', 'remove', 'pop', 'sort', 'reverse', 'clear'):
                mut = x
            if mut is not None:
                chk.ob('C20.c', False, mut, 'the memoised list returned by get_sys_path() is mutated in place (`%s`): the change leaks into every later lookup of the Script' % short(mut, 60))


def rule_d(repo, chk):
    chk.clause('C20.d', 'this path is what resolution uses: inside jedi/inference/** and jedi/api/** the host\'s sys.path is read only by '
                        'InterpreterEnvironment.get_sys_path and the helper\'s functions.get_sys_path (and the two swap sites of C12.f)')
    allowed = {('jedi.api.environment', 'InterpreterEnvironment.get_sys_path'), ('jedi.inference.compiled.subprocess.functions', 'get_sys_path'),
               ('jedi.inference.compiled.access', 'load_module'), ('jedi.inference.compiled.subprocess.functions', 'get_module_info')}
    n = 0
    for m in repo.modules.values():
        if not (m.name.startswith('jedi.inference') or m.name.startswith('jedi.api') or m.name.startswith('jedi.plugins')):
            continue
        for x in ast.walk(m.tree):
            if isinstance(x, (ast.Attribute, ast.Name)) and isinstance(getattr(x, 'ctx', None), ast.Load) and repo.resolve(x) == 'sys.path':
                n += 1
                key = (m.name, repo.qual_of(x))
                chk.ob('C20.d', key in allowed, x, 'read of the host interpreter\'s sys.path in %s is an environment entry point' % key[1],
                       'import resolution must use inference_state.get_sys_path()', key='sys.path-read|%s:%s' % key)
    chk.floor('C20.d', n, 2, '(reads of sys.path)')
    g = repo.find('jedi.inference', 'InferenceState.get_sys_path')
    eb = effective_body(g)
    ok = len(eb) == 1 and 'self.project._get_sys_path(self, **kwargs)' in norm(eb[-1])
    chk.ob('C20.d', ok, g, 'InferenceState.get_sys_path is project._get_sys_path(self, ...)')
    imp = repo.find('jedi.inference.imports', 'Importer._sys_path_with_modifications')
    ok = any(call_name(c) == 'get_sys_path' for c in calls_in(imp))
    chk.ob('C20.d', ok, imp, 'the importer starts from inference_state.get_sys_path()')


def rule_e(repo, chk):
    chk.clause('C20.e', 'a saved project is found again: in get_default_project every directory of the upward walk is first offered to '
                        'Project.load (no iteration moves on - continue, or the next heuristic - before the load was attempted), and a loaded '
                        'project is returned as is')
    f = repo.find('jedi.api.project', 'get_default_project')
    c = cfg_of(f)
    heads = [n for n in c.nodes if n.kind == 'for']
    chk.floor('C20.e', len(heads), 1, '(directory walk in get_default_project)')
    loads = [x for x in calls_in(f, 'load') if norm(x.func) == 'Project.load']
    chk.floor('C20.e', len(loads), 1, '(Project.load in get_default_project)')

    def is_load(n):
        return node_has(n, lambda x: x in loads)
    for h in heads:
        body = [m for m, k in h.succ if k == 'T']
        if any(is_load(m) for m in body):
            p = None
        else:
            p = c.reach(body, lambda n: n.kind == 'for' or n is c.exit, block_node=is_load, kinds={'n', 'T', 'F'})
            if p is None and any(m.kind == 'for' or m is c.exit for m in body):
                p = [(body[0], None)]
        chk.ob('C20.e', p is None, h.ast, 'every directory is offered to Project.load before anything else decides about it',
               'a directory is passed over without the load: %s' % c.describe(p) if p else '')
    for x in loads:
        st = repo.enclosing_stmt(x)
        ok = isinstance(st, ast.Return) and st.value is x
        if not ok and isinstance(st, ast.Assign) and st.value is x and isinstance(st.targets[0], ast.Name):
            ok = any(isinstance(r.value, ast.Name) and r.value.id == st.targets[0].id for r in stmts_in(f, ast.Return))
        chk.ob('C20.e', ok, x, 'the loaded project is returned unchanged')


def rule_f(repo, chk):
    chk.clause('C20.f', 'type discipline of paths: a pathlib.Path is never compared (==, !=) with a path in string form - such a test is '
                        'constantly false/true and silently switches off what it guards (here: "skip the project directory, it was searched '
                        'already"); package-wide, with the project path known to be a Path from Project.__init__')
    from ..lib import str_path_comparisons, path_kind
    sites, sa = str_path_comparisons(repo)
    chk.ob('C20.f', sa.get(('jedi.api.project', '_path')) == 'path', repo.find('jedi.api.project', 'Project.__init__'),
           'Project._path is a pathlib.Path (assigned from Path(..).absolute())', str(sa.get(('jedi.api.project', '_path'))))
    for f, q, c, a, b in sites:
        chk.ob('C20.f', False, c, 'comparison `%s` in %s relates values of one kind' % (short(c, 60), q),
               'left is a %s, right is a %s: a Path never equals a str' % (a, b), key='str-path|%s|%s' % (q, norm(c)))
    # the detector itself must still recognise the idiom (the expected count on a healthy tree is zero)
    probe = ast.parse("def probe(self, sys_path):\n    path = Path(x).absolute()\n    return [p for p in sys_path if p != path]\n").body[0]
    for n in ast.walk(probe):
        for ch in ast.iter_child_nodes(n):
            if not isinstance(ch, (ast.expr_context, ast.operator, ast.boolop, ast.unaryop, ast.cmpop)):     # process-wide singletons
                ch._parent = n
    from ..core import own_nodes as _own
    hit = [c for c in ast.walk(probe) if isinstance(c, ast.Compare) and path_kind(probe, c.left) == 'str' and path_kind(probe, c.comparators[0]) == 'path']
    chk.ob('C20.f', bool(hit), None, 'self-check: the detector classifies `p != path` (p from sys_path, path = Path(..).absolute()) as str vs Path', key='probe')
    chk.notes['C20.f comparisons examined'] = len(sites)


def describe(chk):
    chk.undecided('which of two same-named modules an import resolves to (run-time); default project discovery heuristics')


RULES = [('C20.a', rule_a), ('C20.b', rule_b), ('C20.c', rule_c), ('C20.d', rule_d), ('C20.e', rule_e), ('C20.f', rule_f)]
