"""C08 — answers do not depend on the editing history of a buffer (mechanisms only).

Decided: WHAT state can survive from one Script to the next (full inventory of process-
lifetime mutable stores) and that each such store has its invalidation wired."""
import ast

from ..core import AnchorError, call_name, decorators, decorator_node, norm, short, own_nodes, kwarg, FUNC_TYPES
from ..cfg import cfg_of
from ..lib import calls_in, stmts_in, gate, must_pass, node_has, params, param_default, attr_stores, none_accept, value_cases, xnorm
from ..stores import find_stores, is_container_expr

EXPECTED_STORES = {
    'jedi.cache._time_caches': 'registry of the time caches; purged of expired entries by clear_time_caches() at every Script construction (C08.b)',
    'jedi.cache:signature_time_cache._temp:dct': 'the call-signature time cache (settings.call_signatures_validity, 3 s), registered in _time_caches and so purged',
    'jedi.cache:time_cache.decorator:cache': 'time_cache closure; one use: the default environment (10 min) — holds no source-derived data',
    'jedi.inference.filters._definition_name_cache': 'WeakKeyDictionary keyed on parso\'s cache entry, bypassed for path-less buffers (C08.c)',
    'jedi.parser_utils:_get_parent_scope_cache:cache': 'WeakKeyDictionary keyed on parso\'s cache entry, bypassed for path-less buffers (C08.c)',
    'jedi.api.completion_cache._cache': 'docstring/type cache used only for numpy/tensorflow/matplotlib/pandas completions',
    'jedi.inference.gradual.typeshed._version_cache': 'directory listing of the bundled (immutable) typeshed, keyed by version',
    'jedi.inference.flow_analysis.Status.lookup_table': 'three constants registered at import',
    'jedi.inference.docstrings._numpy_doc_string_cache': 'the imported numpydoc class object',
    'jedi.debug._debug_indent': 'debug output indentation', 'jedi.debug._inited': 'colorama initialisation flag',
    'jedi.debug._start_time': 'debug timing', 'jedi.debug.*': 'debug switches set by set_debug_function',
    'jedi.settings.*': 'global setting flipped temporarily and restored in finally (C16.c)',
}

# classes whose instances outlive a Script (held by a time cache, a module global or the user)
LONG_LIVED_MODULES = ('jedi.api.environment', 'jedi.api.project', 'jedi.plugins', 'jedi.inference.compiled.subprocess')
MEMOIZE_ON_LONG_LIVED = {
    ('jedi.api.environment', '_BaseEnvironment.get_grammar'): 'grammar of the environment\'s Python version (immutable)',
    ('jedi.api.environment', 'Environment.get_sys_path'): 'sys.path of the environment; lifetime of the Environment object (10 min default-environment cache)',
    ('jedi.inference.compiled.subprocess', 'CompiledSubprocess._get_process'): 'the child process handle of this helper object',
    ('jedi.inference.compiled.subprocess', 'AccessHandle._cached_results'): 'AccessHandle objects belong to one InferenceStateSubprocess (per Script)',
}


def rule_a(repo, chk):
    chk.clause('C08.a', 'INVENTORY: the process-lifetime mutable stores of the package (module/class-level containers mutated by function '
                        'code, closures of import-time factories, `global` rebinding, functools caches, writes to other modules\' '
                        'attributes) are exactly the triaged table')
    stores = find_stores(repo)
    n = 0
    for s in stores:
        ok = s['key'] in EXPECTED_STORES
        n += 1
        chk.ob('C08.a', ok, s['node'], 'process-lifetime store %s (%s) is triaged' % (s['key'], s['kind']),
               EXPECTED_STORES.get(s['key'], 'UNLISTED state that survives from one Script to the next: %s' % '; '.join(s['why'][:2])),
               key='store|%s' % s['key'])
    chk.floor('C08.a', n, 10, '(triaged stores found)')
    chk.exhaustive_rules.append('C08.a every module/class-level container, import-time closure, global rebinding and functools cache of the package')
    chk.notes['stores'] = [s['key'] for s in stores]
    # each *use* of the time-cache factories creates one more store: enumerate them
    uses = {('jedi.api.environment', '_get_cached_default_environment', 'time_cache'): 'default environment, 10 minutes; no source-derived data',
            ('jedi.api.helpers', 'cache_signatures', 'signature_time_cache'): 'call signatures; key must be unique per call (C08.b)'}
    k = 0
    for m, q, f in repo.funcs:
        for dname in ('time_cache', 'signature_time_cache'):
            if dname in decorators(f):
                k += 1
                key = (m.name, q, dname)
                chk.ob('C08.a', key in uses, f, '@%s on %s is a triaged time cache' % (dname, q), uses.get(key, 'UNLISTED time cache: results survive into later Scripts until they expire'),
                       key='timecache|%s:%s' % (m.name, q))
    for c in repo.calls_of('time_cache') + repo.calls_of('signature_time_cache'):
        if not any(isinstance(a, FUNC_TYPES) and c in [getattr(d, 'func', d) if False else d for d in a.decorator_list] or
                   (isinstance(a, FUNC_TYPES) and any(d is c for d in a.decorator_list)) for a in repo.ancestors(c)):
            par = getattr(c, '_parent', None)
            if not (isinstance(par, FUNC_TYPES) and c in par.decorator_list):
                chk.ob('C08.a', False, c, 'time cache factory `%s` is applied outside a decorator position (untracked store)' % short(c, 50))
    chk.floor('C08.a', k, 1, '(time cache uses)')
    # mutable default arguments are stores as well
    for _, q, f in repo.funcs:
        a = f.args
        for d in a.defaults + [x for x in a.kw_defaults if x is not None]:
            if isinstance(d, (ast.Dict, ast.List, ast.Set)) or (isinstance(d, ast.Call) and call_name(d) in ('dict', 'list', 'set')):
                mutated = False
                pname = None
                pos = a.posonlyargs + a.args
                for i, x in enumerate(pos):
                    j = i - (len(pos) - len(a.defaults))
                    if j >= 0 and a.defaults[j] is d:
                        pname = x.arg
                for x, dd in zip(a.kwonlyargs, a.kw_defaults):
                    if dd is d:
                        pname = x.arg
                for n_ in own_nodes(f):
                    if isinstance(n_, ast.Subscript) and isinstance(n_.ctx, (ast.Store, ast.Del)) and norm(n_.value) == pname:
                        mutated = True
                    if isinstance(n_, ast.Call) and isinstance(n_.func, ast.Attribute) and norm(n_.func.value) == pname and \
                            n_.func.attr in ('add', 'append', 'update', 'setdefault', 'pop', 'clear', 'extend', 'insert'):
                        mutated = True
                    if isinstance(n_, ast.Assign) and any(isinstance(t, ast.Attribute) for t in n_.targets) and norm(n_.value) == pname:
                        mutated = True     # stored on an object: shared between all of them
                if mutated:
                    chk.ob('C08.a', False, f, 'mutable default argument `%s=%s` of %s is mutated or stored (shared across calls)' % (pname, short(d), q))


def rule_b(repo, chk):
    chk.clause('C08.b', 'time caches are purged at Script construction: Script.__init__ calls cache.clear_time_caches() on every path to its normal exit')
    f = repo.find('jedi.api', 'Script.__init__')
    w = must_pass(f, lambda n: node_has(n, lambda x: isinstance(x, ast.Call) and repo.resolve(x.func) == 'jedi.cache.clear_time_caches'))
    chk.ob('C08.b', w is None, f, 'Script.__init__ calls clear_time_caches() on every normal path', 'path without it: %s' % w if w else '')
    # Interpreter goes through Script.__init__
    it = repo.find('jedi.api', 'Interpreter.__init__')
    w = must_pass(it, lambda n: node_has(n, lambda x: isinstance(x, ast.Call) and norm(x.func) == 'super().__init__'))
    chk.ob('C08.b', w is None, it, 'Interpreter.__init__ runs Script.__init__ on every normal path', w or '')
    c = repo.find('jedi.cache', 'clear_time_caches')
    # expired entries of *every* registered cache are dropped
    loops = [n for n in own_nodes(c) if isinstance(n, ast.For) and '_time_caches.values()' in norm(n.iter)]
    chk.ob('C08.b', len(loops) >= 1, c, 'clear_time_caches walks all registered time caches')
    dels = [n for n in own_nodes(c) if isinstance(n, ast.Delete)]
    chk.floor('C08.b', len(dels), 1, '(expiry delete)')
    for d in dels:
        w = gate(c, d, lambda e, pol: pol and isinstance(e, ast.Compare) and len(e.ops) == 1 and isinstance(e.ops[0], (ast.Lt, ast.LtE)) and 'time.time()' in norm(e.comparators[0]))
        chk.ob('C08.b', w is None, d, 'an entry is dropped when its expiry time has passed', w or '')
    # every signature_time_cache registers its dict
    t = repo.find('jedi.cache', 'signature_time_cache._temp')
    reg = [s for s in stmts_in(t, ast.Assign) if isinstance(s.targets[0], ast.Subscript) and norm(s.targets[0].value) == '_time_caches']
    chk.ob('C08.b', bool(reg), t, 'signature_time_cache registers its dictionary in _time_caches')
    w = repo.find('jedi.cache', 'signature_time_cache._temp.wrapper')
    # a cached value is served only while not expired
    rets = [r for r in stmts_in(w, ast.Return) if isinstance(r.value, ast.Name) and r.value.id == 'value' and
            any(isinstance(a, ast.Try) for a in repo.ancestors(r))]
    for r in rets:
        wit = gate(w, r, lambda e, pol: pol and isinstance(e, ast.Compare) and 'time.time()' in norm(e) and isinstance(e.ops[0], (ast.Gt, ast.GtE)))
        chk.ob('C08.b', wit is None, r, 'a cached signature is served only before its expiry', wit or '')
    # a None key is never stored
    st = [s for s in stmts_in(w, ast.Assign) if isinstance(s.targets[0], ast.Subscript) and norm(s.targets[0].value) == 'dct']
    for s in st:
        wit = gate(w, s, none_accept('key'))
        chk.ob('C08.b', wit is None, s, 'results for a None key (path-less buffer) are not cached', wit or '')
    cs = repo.find('jedi.api.helpers', 'cache_signatures')
    ys = [n for n in own_nodes(cs) if isinstance(n, ast.Yield)]
    # the cached values belong to one Script's inference state: the key must be unique per call so that a later Script never
    # receives them (on this tree: a re.Match object, which compares by identity)
    keys = [y.value for y in ys if isinstance(y.value, ast.Tuple)]
    chk.floor('C08.b', len(keys), 1, '(cache key of cache_signatures)')
    for kx in keys:
        unique = False
        for e in kx.elts:
            if isinstance(e, ast.Name):
                if e.id in ('inference_state', 'context'):
                    unique = True
                binds = [a for a in stmts_in(cs, (ast.Assign, ast.AugAssign, ast.AnnAssign))
                         if any(isinstance(t, ast.Name) and t.id == e.id and isinstance(t.ctx, ast.Store) for t in ast.walk(a))]
                if binds and all(isinstance(a, ast.Assign) and isinstance(a.value, ast.Call) and
                                 repo.resolve(a.value.func) in ('re.match', 're.search', 're.fullmatch') for a in binds):
                    unique = True
        # ... and that component must not degenerate to None (re.match finds nothing when the cursor is on a later line than the bracket)
        uniq_names = []
        for e in kx.elts:
            if isinstance(e, ast.Name):
                binds = [a for a in stmts_in(cs, (ast.Assign, ast.AugAssign, ast.AnnAssign))
                         if any(isinstance(t, ast.Name) and t.id == e.id and isinstance(t.ctx, ast.Store) for t in ast.walk(a))]
                if binds and all(isinstance(a, ast.Assign) and isinstance(a.value, ast.Call) and
                                 repo.resolve(a.value.func) in ('re.match', 're.search', 're.fullmatch') for a in binds):
                    uniq_names.append(e.id)
        if unique and uniq_names and not any(isinstance(e, ast.Name) and e.id in ('inference_state', 'context') for e in kx.elts):
            yn = [y for y in ys if y.value is kx]
            guarded = all(any(gate(cs, y, none_accept(nm)) is None for nm in uniq_names) for y in yn)
            chk.ob('C08.b', guarded, kx, 'the per-call unique key component (`%s`, a regex match) cannot be None when a key is cached' % '/'.join(uniq_names),
                   'when nothing matches the key is (path, None, position): it compares equal between Scripts and a later Script receives the earlier '
                   'Script\'s signatures for up to settings.call_signatures_validity seconds', key='signature-key-none')
        chk.ob('C08.b', unique, kx, 'the signature cache key `%s` has a component that is unique per call/Script (identity-compared), so values '
               'holding an old inference state are never served to a later Script' % short(kx, 70),
               'every component compares by value: a later Script within the validity window gets the old Script\'s signatures')
    ok = any(isinstance(y.value, ast.Constant) and y.value.value is None and
             gate(cs, y, lambda e, pol: none_accept('module_path')(e, not pol)) is None for y in ys)
    chk.ob('C08.b', ok, cs, 'cache_signatures yields a None key for buffers without a path')


def rule_c(repo, chk):
    chk.clause('C08.c', 'the two tree-derived caches are keyed weakly on parso\'s cache entry and bypassed for path-less buffers; the parent-scope '
                        'memo (keyed on the node only) is never asked with include_flows')
    d = repo.toplevel('jedi.inference.filters', '_definition_name_cache')
    ok = isinstance(d.value, ast.Call) and call_name(d.value) == 'WeakKeyDictionary'
    chk.ob('C08.c', ok, d, '_definition_name_cache is a WeakKeyDictionary', norm(d.value))
    f = repo.find('jedi.parser_utils', '_get_parent_scope_cache')
    cs = [s for s in stmts_in(f, ast.Assign) if any(isinstance(t, ast.Name) and t.id == 'cache' for t in s.targets)]
    ok = bool(cs) and all(isinstance(s.value, ast.Call) and call_name(s.value) == 'WeakKeyDictionary' for s in cs)
    chk.ob('C08.c', ok, f, 'the parent-scope cache is a WeakKeyDictionary')
    # bypass
    for modname, q in (('jedi.inference.filters', '_get_definition_names'), ('jedi.parser_utils', '_get_parent_scope_cache.wrapper')):
        g = repo.find(modname, q)
        store_name = '_definition_name_cache' if 'filters' in modname else 'cache'
        uses = [n for n in own_nodes(g) if isinstance(n, ast.Subscript) and norm(n.value) == store_name]
        chk.floor('C08.c', len(uses), 1, '(cache accesses in %s)' % q)
        for u in uses:
            w = gate(g, u, none_accept('parso_cache_node'))
            chk.ob('C08.c', w is None, u, '%s touches the cache only when parso_cache_node is not None' % q, w or '')
        key_ok = all(norm(u.slice) == 'parso_cache_node' for u in uses)
        chk.ob('C08.c', key_ok, g, '%s keys the outer cache on the parso cache node itself' % q)
    init = repo.find('jedi.inference.filters', '_AbstractUsedNamesFilter.__init__')
    sts = attr_stores(init, '_parso_cache_node')
    none_for_pathless = [s_ for s_ in sts if isinstance(s_.value, ast.Constant) and s_.value.value is None
                         and gate(init, s_, lambda e, pol: none_accept('path')(e, not pol)) is None]
    chk.ob('C08.c', bool(none_for_pathless), init, 'buffers without a path get no cache node')
    chk.floor('C08.c', len(sts), 2, '(assignments of _parso_cache_node)')
    for s in sts:
        if isinstance(s.value, ast.Constant) and s.value.value is None:
            # giving the cache node up is always safe (no memoisation); what matters is that a node is only KEPT for a real path
            chk.ob('C08.c', True, s, 'no cache node is kept on this path (always safe)')
        else:
            w = gate(init, s, none_accept('path'))
            ok = isinstance(s.value, ast.Call) and call_name(s.value) == 'get_parso_cache_node'
            if not ok and isinstance(s.value, ast.Name):
                # through a local: every binding of that local is the call
                defs = [a for a in stmts_in(init, ast.Assign) if any(isinstance(t, ast.Name) and t.id == s.value.id for t in a.targets)]
                ok = bool(defs) and all(isinstance(a.value, ast.Call) and call_name(a.value) == 'get_parso_cache_node' for a in defs)
            chk.ob('C08.c', ok and w is None, s, 'the cache node comes from get_parso_cache_node(grammar, path) for a real path', w or norm(s.value))
            if ok:
                callv = s.value if isinstance(s.value, ast.Call) else defs[0].value
                g0 = callv.args[0] if callv.args else None
                cases = value_cases(init, g0) if g0 is not None else []
                stub = [v for c, v in cases if len(c) == 1 and 'is_stub()' in c[0][0] and c[0][1]]
                plain = [v for c, v in cases if len(c) == 1 and 'is_stub()' in c[0][0] and not c[0][1]]
                ok2 = len(cases) == 2 and len(stub) == 1 and len(plain) == 1 and xnorm(stub[0], init).endswith('.latest_grammar') \
                    and xnorm(plain[0], init).endswith('.grammar')
                chk.ob('C08.c', ok2, s, 'the grammar used to find the cache node matches the module kind (stub: latest grammar)', short(g0))
    pv = [s for s in stmts_in(init, ast.Assign) if any(isinstance(t, ast.Name) and t.id == 'path' for t in s.targets)]
    chk.ob('C08.c', bool(pv) and all('py__file__()' in norm(s.value) for s in pv), init, '`path` is the module\'s py__file__()')
    gp = repo.find('jedi.parser_utils', 'get_parso_cache_node')
    ok = any(isinstance(n, ast.Subscript) and 'parser_cache' in norm(n) for n in ast.walk(gp))
    chk.ob('C08.c', ok, gp, 'get_parso_cache_node reads parso\'s parser_cache[hash][path]')
    # include_flows never passed to the cached variant
    sites = repo.calls_of('get_cached_parent_scope')
    chk.floor('C08.c', len(sites), 1)
    for c in sites:
        ok = kwarg(c, 'include_flows') is None and len(c.args) <= 2
        chk.ob('C08.c', ok, c, 'get_cached_parent_scope is called without include_flows (the memo is keyed on the node only)')
    w = repo.find('jedi.parser_utils', '_get_parent_scope_cache.wrapper')
    inner = [n for n in own_nodes(w) if isinstance(n, ast.Subscript) and norm(n.value) == 'for_module']
    chk.ob('C08.c', bool(inner) and all(norm(n.slice) == 'node' for n in inner), w, 'the per-module memo is keyed on the node')


def rule_d(repo, chk):
    chk.clause('C08.d', 'all inference memoisation is per Script: Script.__init__ builds a new InferenceState whose container fields are fresh; '
                        'the memo decorators store in the inference state reached from their arguments; memoize_method (instance __dict__) '
                        'on long-lived objects is triaged')
    s = repo.find('jedi.api', 'Script.__init__')
    st = attr_stores(s, '_inference_state')
    ok = len(st) == 1 and isinstance(st[0].value, ast.Call) and repo.resolve(st[0].value.func) == 'jedi.inference.InferenceState'
    chk.ob('C08.d', ok, s, 'Script.__init__ constructs a new InferenceState')
    w = must_pass(s, lambda n: n.ast in st)
    chk.ob('C08.d', w is None, s, '... on every path', w or '')
    for m in repo.modules.values():
        for x in ast.walk(m.tree):
            if isinstance(x, ast.Attribute) and x.attr == '_inference_state' and isinstance(x.ctx, ast.Store) and isinstance(x.value, ast.Name) and x.value.id == 'self':
                q = repo.qual_of(x)
                cls = q.split('.')[0]
                if m.name == 'jedi.api' and cls in ('Script', 'Interpreter'):
                    chk.ob('C08.d', q == 'Script.__init__', x, 'Script._inference_state is only assigned in Script.__init__')
    init = repo.find('jedi.inference', 'InferenceState.__init__')
    fields = 0
    for a in stmts_in(init, ast.Assign):
        for t in a.targets:
            if isinstance(t, ast.Attribute) and isinstance(t.value, ast.Name) and t.value.id == 'self':
                v = a.value
                if isinstance(v, (ast.Dict, ast.List, ast.Set)) or (isinstance(v, ast.Call) and call_name(v) in ('dict', 'list', 'set', 'ModuleCache')):
                    fields += 1
                    fresh = (isinstance(v, (ast.Dict, ast.List, ast.Set)) and not (getattr(v, 'keys', None) or getattr(v, 'elts', None))) or \
                        (isinstance(v, ast.Call) and not v.args and not v.keywords)
                    chk.ob('C08.d', fresh, a, 'InferenceState.%s starts from a fresh empty container' % t.attr, norm(v))
                elif isinstance(v, ast.Name) and v.id not in params(init):
                    chk.ob('C08.d', False, a, 'InferenceState.%s is initialised from a shared object `%s`' % (t.attr, v.id))
    chk.floor('C08.d', fields, 6, '(container fields of InferenceState)')
    for want in ('memoize_cache', 'module_cache', 'stub_module_cache', 'compiled_cache', 'mixed_cache', 'access_cache'):
        chk.ob('C08.d', bool(attr_stores(init, want)), init, 'InferenceState.__init__ creates %s' % want)
    mc = repo.cls('jedi.inference.imports', 'ModuleCache')
    shared = [a for a, st_ in mc.attrs.items() if is_container_expr(repo, getattr(st_, 'value', None))]
    chk.ob('C08.d', not shared, mc.node, 'ModuleCache keeps no class-level state', str(shared))
    # memo decorators
    w = repo.find('jedi.inference.cache', '_memoize_default.func.wrapper')
    cs = [a for a in stmts_in(w, ast.Assign) if any(isinstance(t, ast.Name) and t.id == 'cache' for t in a.targets)]
    ok = len(cs) >= 3 and all(norm(a.value).endswith('.memoize_cache') for a in cs)
    chk.ob('C08.d', ok, w, '_memoize_default stores in <obj|args[0]|obj.inference_state>.memoize_cache only', str([norm(a.value) for a in cs]))
    g = repo.find('jedi.inference.cache', 'inference_state_method_generator_cache.func.wrapper')
    cs = [a for a in stmts_in(g, ast.Assign) if any(isinstance(t, ast.Name) and t.id == 'cache' for t in a.targets)]
    chk.ob('C08.d', bool(cs) and all(norm(a.value) == 'obj.inference_state.memoize_cache' for a in cs), g,
           'the generator cache stores in obj.inference_state.memoize_cache')
    mm = repo.find('jedi.cache', 'memoize_method.wrapper')
    ok = any("self.__dict__.setdefault('_memoize_method_dct'" in norm(a.value) for a in stmts_in(mm, ast.Assign))
    chk.ob('C08.d', ok, mm, 'memoize_method stores in the instance __dict__')
    n_mm = 0
    for m, q, f in repo.funcs:
        if 'memoize_method' in decorators(f):
            n_mm += 1
            if m.name.startswith(LONG_LIVED_MODULES):
                key = (m.name, q)
                chk.ob('C08.d', key in MEMOIZE_ON_LONG_LIVED, f, 'memoize_method on %s (object may outlive a Script) is triaged' % q,
                       MEMOIZE_ON_LONG_LIVED.get(key, 'UNLISTED memo on a long-lived object'), key='memoize_method|%s:%s' % key)
    chk.floor('C08.d', n_mm, 6, '(memoize_method uses)')
    chk.notes['memoize_method_uses'] = n_mm
    n_is = sum(1 for _, _, f in repo.funcs if any(d.startswith('inference_state_') for d in decorators(f)))
    chk.notes['inference_state_cache_uses'] = n_is
    chk.floor('C08.d', n_is, 40, '(inference_state_*_cache uses)')


def rule_e(repo, chk):
    chk.clause('C08.e', 'the buffer is parsed incrementally but never from the disk cache: the parse in Script.__init__ passes cache=False and '
                        'diff_cache=settings.fast_parser')
    s = repo.find('jedi.api', 'Script.__init__')
    ps = calls_in(s, 'parse_and_get_code') + calls_in(s, 'parse')
    chk.floor('C08.e', len(ps), 1)
    for p in ps:
        c = kwarg(p, 'cache')
        d = kwarg(p, 'diff_cache')
        chk.ob('C08.e', isinstance(c, ast.Constant) and c.value is False, p, 'the buffer is parsed with cache=False (no pickled/in-memory tree is reused as-is)', 'cache=%s' % short(c))
        chk.ob('C08.e', d is not None and repo.resolve(d) == 'jedi.settings.fast_parser', p, 'diff_cache follows settings.fast_parser', 'diff_cache=%s' % short(d))
        chk.ob('C08.e', kwarg(p, 'code') is not None and norm(kwarg(p, 'code')) == 'code', p, 'the text parsed is the buffer handed in')
    pg = repo.find('jedi.inference', 'InferenceState.parse_and_get_code')
    ok = any(isinstance(c, ast.Call) and call_name(c) == 'parse' and any(k.arg is None for k in c.keywords) or
             (isinstance(c, ast.Call) and call_name(c) == 'parse' and kwarg(c, 'code') is not None) for c in ast.walk(pg))
    chk.ob('C08.e', ok, pg, 'parse_and_get_code forwards its keyword arguments to the grammar\'s parse')


def rule_f(repo, chk):
    chk.clause('C08.f', 'per-tree memo keyed by path: the parso cache item consulted by the name filters (definition names are memoised on it) is '
                        'used only if it exists and holds THE tree being analysed (identity test on .node): with settings.fast_parser off, or '
                        'after the file was imported from disk before the buffer was opened, the item for that path is absent or belongs '
                        'to another tree')
    from ..lib import enclosing_handlers, handler_types
    n = 0
    for m in sorted(repo.modules.values(), key=lambda m: m.name):
        for q, f in sorted(m.defs.items()):
            if not isinstance(f, FUNC_TYPES):
                continue
            for c in calls_in(f, 'get_parso_cache_node'):
                st = repo.enclosing_stmt(c)
                if not isinstance(st, ast.Assign):
                    continue
                # the result is kept on the object: directly (`self.x = call`) or through a local that is stored later (`v = call` ... `self.x = v`)
                holders = []
                t0 = st.targets[0]
                if isinstance(t0, ast.Attribute):
                    holders = [norm(t0)]
                elif isinstance(t0, ast.Name):
                    kept = [a for a in stmts_in(f, ast.Assign) if isinstance(a.targets[0], ast.Attribute) and isinstance(a.value, ast.Name) and a.value.id == t0.id]
                    if kept:
                        holders = [t0.id] + [norm(a.targets[0]) for a in kept]
                if not holders:
                    continue        # a plain read of .lines (code_lines of a module that was just parsed through the cache)
                n += 1
                hs = [h for t in enclosing_handlers(st, f) for h in t.handlers if handler_types(h) & {'KeyError', 'LookupError', 'Exception'}]
                chk.ob('C08.f', bool(hs), c, 'a missing cache item (KeyError) is tolerated when %s keeps the parso cache node' % q)
                ident = [x for x in own_nodes(f) if isinstance(x, ast.Compare) and len(x.ops) == 1 and isinstance(x.ops[0], (ast.Is, ast.IsNot))
                         and any(norm(x.left) == h_ + '.node' for h_ in holders) and 'tree_node' in norm(x.comparators[0])]
                chk.ob('C08.f', bool(ident), c, 'the kept cache node is checked to hold the analysed tree (`<node>.node is <module>.tree_node`)')
    chk.floor('C08.f', n, 1, '(cache nodes kept for memoisation)')


def describe(chk):
    chk.undecided('equality with a fresh process over all edit histories (depends on parso\'s diff parser and on run-time values); that parso '
                  'replaces its cache entry on every re-parse')
    chk.assume('module-level instances whose own methods fill instance fields once at import (plugins.plugin_manager) hold no source-derived data')
    chk.assume('a container bound at module level and only mutated by module top-level statements is a constant table, not a store')


RULES = [('C08.a', rule_a), ('C08.b', rule_b), ('C08.c', rule_c), ('C08.d', rule_d), ('C08.e', rule_e), ('C08.f', rule_f)]
