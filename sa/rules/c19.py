"""C19 — project search finds every definition and honours ignore rules (pruning and pre-filter).

Decided: the ignore table, in-place pruning of the directory walk, that files are filtered by
the same ignore sets with matching types and after the folder's .gitignore was read, the
.gitignore line parsing order, the regex pre-filter, the three search steps and the identity
based de-duplication."""
import ast

from ..core import AnchorError, call_name, decorators, norm, short, own_nodes, kwarg, FUNC_TYPES
from ..cfg import cfg_of
from ..lib import calls_in, stmts_in, gate, must_pass, node_has, params, enclosing_handlers, handler_types, effective_body, fact_accept

REFS = 'jedi.inference.references'
PROJ = 'jedi.api.project'
WANT_IGNORED = {'.tox', '.venv', 'venv', '.mypy_cache', '__pycache__'}


def rule_a(repo, chk):
    chk.clause('C19.a', '_IGNORE_FOLDERS is the documented set {.tox, .venv, venv, .mypy_cache, __pycache__} and is consulted by base name for every directory of the walk')
    t = repo.toplevel(REFS, '_IGNORE_FOLDERS')
    vals = {e.value for e in t.value.elts} if isinstance(t.value, (ast.Tuple, ast.List, ast.Set)) else None
    chk.ob('C19.a', vals is not None and WANT_IGNORED <= vals, t, 'the ignore table contains %s' % sorted(WANT_IGNORED), 'missing: %s' % sorted(WANT_IGNORED - (vals or set())))
    f = repo.find(REFS, 'recurse_find_python_folders_and_files')
    uses = [x for x in own_nodes(f) if isinstance(x, ast.Compare) and norm(x.comparators[0]) == '_IGNORE_FOLDERS']
    ok = len(uses) == 1 and isinstance(uses[0].ops[0], ast.NotIn) and call_name(uses[0].left) == 'get_base_name'
    chk.ob('C19.a', ok, f, 'a folder is dropped when its base name is in _IGNORE_FOLDERS')
    b = repo.find('jedi.file_io', 'FolderIO.get_base_name')
    ok = [norm(x) for x in effective_body(b)] == ['return os.path.basename(self.path)']
    chk.ob('C19.a', ok, b, 'get_base_name is the last path component')
    # nobody rebinds or mutates the table
    for m in repo.modules.values():
        for x in ast.walk(m.tree):
            if isinstance(x, ast.Name) and x.id == '_IGNORE_FOLDERS' and isinstance(x.ctx, ast.Store) and x is not t.targets[0]:
                chk.ob('C19.a', False, x, '_IGNORE_FOLDERS is re-bound')


def rule_b(repo, chk):
    chk.clause('C19.b', 'pruning is in place: the folder list yielded by walk() is narrowed by SLICE ASSIGNMENT with all three exclusions (absolute '
                        'ignores, expanded relative ignores, ignored base names) before sub-folders are yielded; FolderIO.walk propagates '
                        'removals into os.walk\'s dirs')
    f = repo.find(REFS, 'recurse_find_python_folders_and_files')
    c = cfg_of(f)
    loops = [n for n in own_nodes(f) if isinstance(n, ast.For) and call_name(n.iter) == 'walk']
    chk.ob('C19.b', len(loops) == 1 and isinstance(loops[0].target, ast.Tuple) and len(loops[0].target.elts) == 3, f, 'one loop over folder_io.walk() yielding (root, folders, files)')
    if not loops:
        return
    fvar = norm(loops[0].target.elts[1])
    prune = [s for s in ast.walk(loops[0]) if isinstance(s, ast.Assign) and isinstance(s.targets[0], ast.Subscript) and norm(s.targets[0].value) == fvar
             and isinstance(s.targets[0].slice, ast.Slice) and s.targets[0].slice.lower is None and s.targets[0].slice.upper is None]
    rebinding = [s for s in ast.walk(loops[0]) if isinstance(s, ast.Assign) and isinstance(s.targets[0], ast.Name) and s.targets[0].id == fvar]
    chk.ob('C19.b', len(prune) == 1 and not rebinding, loops[0], 'the walked folder list is narrowed with `%s[:] = ...` (a plain re-binding would prune nothing)' % fvar,
           'slice assignments: %d, re-bindings: %s' % (len(prune), [short(s) for s in rebinding]))
    for p in prune:
        comp = p.value if isinstance(p.value, ast.ListComp) else None
        conds = []
        if comp is not None:
            for g in comp.generators:
                for cnd in g.ifs:
                    from ..core import atoms
                    conds += [norm(e) for e, pol in atoms(cnd, True) if pol]
        want = ['not in except_paths', 'not in except_paths_relative_expanded', 'not in _IGNORE_FOLDERS']
        ok = comp is not None and all(any(w in cnd for cnd in conds) for w in want) and norm(comp.generators[0].iter) == fvar and norm(comp.elt) == norm(comp.generators[0].target)
        chk.ob('C19.b', ok, p, 'kept folders pass all three exclusions: absolute ignores, expanded relative ignores, ignored base names', str(conds))
        pn = c.nodes_of(p)
        ys = [n for n in c.nodes if node_has(n, lambda x: isinstance(x, ast.Yield) and isinstance(x.value, ast.Tuple) and isinstance(x.value.elts[1], ast.Constant))]
        lh = [n for n in c.nodes if n.kind == 'for' and n.ast is loops[0]]
        starts = [m for h in lh for m, k in h.succ if k == 'T']
        path = c.reach(starts, lambda n: n in ys, block_node=lambda n: n in pn, kinds={'n', 'T', 'F'}) if ys else None
        chk.ob('C19.b', bool(ys) and path is None, p, 'sub-folders are yielded only after the list was pruned', 'path: %s' % c.describe(path) if path else '')
    w = repo.find('jedi.file_io', 'FolderIO.walk')
    dels = [x for x in own_nodes(w) if isinstance(x, ast.Delete) and norm(x.targets[0]) == 'dirs[i]']
    chk.ob('C19.b', len(dels) == 1, w, 'FolderIO.walk removes pruned folders from os.walk\'s own `dirs` list (del dirs[i])')
    ok = any(isinstance(x, ast.Call) and repo.resolve(x.func) == 'os.walk' for x in ast.walk(w))
    chk.ob('C19.b', ok, w, 'the walk is os.walk (top-down, so pruning takes effect)')
    ok = not any(isinstance(x, ast.Call) and repo.resolve(x.func) == 'os.walk' and (kwarg(x, 'topdown') is not None) for x in ast.walk(w))
    chk.ob('C19.b', ok, w, 'top-down order is not switched off')


def rule_c(repo, chk):
    chk.clause('C19.c', 'the pre-filter cannot lose a hit: the regex is \\b + re.escape(name) + (\\b unless completing) applied to DECODED text '
                        '(errors=\'replace\'); a vanished file is skipped, not fatal; the two limits are positive constants')
    f = repo.find(REFS, 'search_in_file_ios')
    rc = [c for c in calls_in(f) if repo.resolve(c.func) == 're.compile']
    chk.floor('C19.c', len(rc), 1)
    for c in rc:
        a = c.args[0]
        txt = norm(a)
        ok = isinstance(a, ast.BinOp) and txt == "'\\\\b' + re.escape(name) + ('' if complete else '\\\\b')"
        chk.ob('C19.c', ok, c, 'the pattern is r"\\b" + re.escape(name) + ("" if complete else r"\\b") on str', txt)
        flags = c.args[1:] or [k.value for k in c.keywords]
        chk.ob('C19.c', not flags, c, 'no flags (case-sensitive, unicode word boundaries)')
    cf = repo.find(REFS, '_check_fs')
    dec = [s for s in stmts_in(cf, ast.Assign) if isinstance(s.value, ast.Call) and call_name(s.value) == 'python_bytes_to_unicode']
    ok = len(dec) == 1 and isinstance(kwarg(dec[0].value, 'errors'), ast.Constant) and kwarg(dec[0].value, 'errors').value == 'replace'
    chk.ob('C19.c', ok, cf, 'file contents are decoded with errors=\'replace\' (undecodable files are searched, not skipped)')
    srch = [c for c in calls_in(cf, 'search')]
    ok = len(srch) == 1 and dec and norm(srch[0].args[0]) == norm(dec[0].targets[0])
    chk.ob('C19.c', ok, cf, 'the regex runs on the decoded text (unicode \\b), not on raw bytes', str([short(s) for s in srch]))
    if srch and dec:
        c = cfg_of(cf)
        dn = c.nodes_of(dec[0])
        sn = c.nodes_containing(srch[0])
        p = c.reach([c.entry], lambda n: n in sn, block_node=lambda n: n in dn)
        chk.ob('C19.c', p is None, srch[0], 'decoding precedes the regex search')
        # MUST: a file is given up only because it vanished (the handler of read()) or because the regex did not match the
        # decoded text: no other pre-filter in front of the search
        w = must_pass(cf, lambda n: n in sn or n.kind == 'handler')
        chk.ob('C19.c', w is None, cf, 'no file is dismissed before the regex has searched its decoded text (except a vanished one)', w or '')
    rd = [c for c in calls_in(cf, 'read')]
    ok = bool(rd) and all(any(handler_types(h) & {'FileNotFoundError', 'OSError', 'IOError', 'Exception'} for t in enclosing_handlers(repo.enclosing_stmt(c), cf) for h in t.handlers) for c in rd)
    chk.ob('C19.c', ok, cf, 'a file that vanished between listing and reading is skipped')
    for name in ('_OPENED_FILE_LIMIT', '_PARSED_FILE_LIMIT'):
        t = repo.toplevel(REFS, name)
        ok = isinstance(t.value, ast.Constant) and isinstance(t.value.value, int) and t.value.value > 0
        chk.ob('C19.c', ok, t, '%s is a positive constant' % name)
    ok = any(isinstance(s, ast.Assign) and norm(s.value) == 'KnownContentFileIO(file_io.path, code)' for s in stmts_in(cf, ast.Assign))
    chk.ob('C19.c', ok, cf, 'the module is parsed from the text that matched')


def rule_d(repo, chk):
    chk.clause('C19.d', 'Project._search_func searches (1) modules/packages named like the first component, (2) identifiers in every walked file via '
                        'search_in_file_ios, (3) sys.path modules, and the whole generator passes through _try_to_skip_duplicates, which '
                        'identifies a duplicate by the identity of its defining tree name; Script.search and get_names share _names/get_module_names')
    f = repo.find(PROJ, 'Project._search_func')
    chk.ob('C19.d', '_try_to_skip_duplicates' in decorators(f), f, '_search_func is wrapped by _try_to_skip_duplicates')
    walk = [c for c in calls_in(f, 'recurse_find_python_folders_and_files')]
    ok = len(walk) == 1 and 'self._path' in norm(walk[0].args[0])
    chk.ob('C19.d', ok, f, 'the walk starts at the project path')
    sm = calls_in(f, 'search_in_module')
    chk.ob('C19.d', len(sm) >= 3, f, 'three search_in_module steps (named modules, identifiers in files, sys.path modules)', '%d found' % len(sm))
    sf = calls_in(f, 'search_in_file_ios')
    ok = len(sf) == 1 and norm(sf[0].args[1]) == 'file_ios' and norm(kwarg(sf[0], 'complete')) == 'complete'
    chk.ob('C19.d', ok, f, 'every walked file is handed to search_in_file_ios')
    app = [c for c in calls_in(f, 'append') if norm(c.func.value) == 'file_ios']
    ok = len(app) == 1 and not any(isinstance(a, ast.If) for a in list(repo.ancestors(app[0]))[:1]) and \
        gate(f, app[0], lambda e, pol: (not pol) and norm(e) == 'file_io is None') is None
    chk.ob('C19.d', ok, f, 'every yielded file io is collected (unconditionally) for the identifier search')
    gm = [c for c in calls_in(f, 'get_module_names')]
    ok = len(gm) == 1 and norm(kwarg(gm[0], 'all_scopes')) == 'all_scopes'
    chk.ob('C19.d', ok, f, 'all_scopes is honoured when listing a file\'s names')
    w = repo.find(PROJ, '_try_to_skip_duplicates.wrapper')
    tn = [s for s in stmts_in(w, ast.Assign) if norm(s.value) == 'definition._name.tree_name']
    ok = len(tn) == 1
    chk.ob('C19.d', ok, w, 'a definition is identified by its defining tree name (identity), not by a (module name, position) key — '
           'same-named modules such as x.py / x.pyi / x/__init__.py must not collide')
    if tn:
        var = norm(tn[0].targets[0])
        tests = [x for x in own_nodes(w) if isinstance(x, ast.Compare) and isinstance(x.ops[0], ast.In) and norm(x.left) == var]
        lists = {norm(x.comparators[0]) for x in tests}
        inits = [s for s in stmts_in(w, ast.Assign) if norm(s.targets[0]) in lists]
        ok = bool(tests) and all(isinstance(s.value, ast.List) for s in inits)
        chk.ob('C19.d', ok, w, 'seen tree names are kept in a list (parso nodes are compared by identity)')
    ys = [y for y in own_nodes(w) if isinstance(y, ast.Yield)]
    chk.ob('C19.d', len(ys) == 1 and norm(ys[0].value) == 'definition', w, 'every non-duplicate is passed on unchanged')
    s = repo.find('jedi.api', 'Script._search_func')
    ok = bool(calls_in(s, '_names')) and bool(calls_in(s, 'search_in_module'))
    chk.ob('C19.d', ok, s, 'Script.search filters the same name list get_names returns (self._names)')
    gn = repo.find('jedi.api', 'Script.get_names')
    chk.ob('C19.d', bool(calls_in(gn, '_names')), gn, 'get_names is built on _names')
    nm = repo.find('jedi.api', 'Script._names')
    chk.ob('C19.d', bool(calls_in(nm, 'get_module_names', nested=True)), nm, '_names lists the module through get_module_names')


def rule_e(repo, chk):
    chk.clause('C19.e', 'files honour the ignore rules too: a folder\'s .gitignore is read before any of its files is yielded, and a file is '
                        'compared with both ignore sets in their own type (the sets hold strings, file paths are Path objects)')
    f = repo.find(REFS, 'recurse_find_python_folders_and_files')
    c = cfg_of(f)
    gi = [n for n in c.nodes if node_has(n, lambda x: isinstance(x, ast.Call) and call_name(x) == 'gitignored_paths')]
    fy = [n for n in c.nodes if node_has(n, lambda x: isinstance(x, ast.Yield) and isinstance(x.value, ast.Tuple) and isinstance(x.value.elts[0], ast.Constant))]
    chk.ob('C19.e', len(gi) == 1 and len(fy) >= 1, f, 'the walk reads .gitignore files and yields python files')
    if gi and fy:
        loops = [n for n in c.nodes if n.kind == 'for' and call_name(n.ast.iter) == 'walk']
        starts = [m for h in loops for m, k in h.succ if k == 'T']
        # within one folder: can a file be yielded and the .gitignore read afterwards?
        p = c.reach(fy, lambda n: n in gi, block_node=lambda n: n in loops, kinds={'n', 'T', 'F'})
        chk.ob('C19.e', p is None, fy[0].ast, 'no file of a folder is yielded before that folder\'s .gitignore was read',
               'path: %s' % c.describe(p) if p else '')
        for y in fy:
            # GATE (either spelling, also through a flag variable): the yield is reached only with these three facts
            def fact(text):
                return gate(f, y.ast, fact_accept(f, text))
            w1, w2, w3 = fact('str(file_io.path) not in except_paths'), fact('str(file_io.path) not in except_paths_relative_expanded'), \
                fact("file_io.path.suffix in ('.py', '.pyi')")
            chk.ob('C19.e', w1 is None, y.ast, 'a python file is yielded only if its string path is not an absolute ignore entry', w1 or '')
            chk.ob('C19.e', w2 is None, y.ast, 'a python file is yielded only if its string path is not an expanded relative ignore entry', w2 or '')
            chk.ob('C19.e', w3 is None, y.ast, 'both .py and .pyi files are searched', w3 or '')
    g = repo.find(REFS, 'gitignored_paths')
    cg = cfg_of(g)
    strip = [n for n in cg.nodes if isinstance(n.ast, ast.Assign) and 'rstrip(\'/\')' in norm(n.ast.value)]
    from ..lib import atom_key
    slash = [n for n in cg.nodes if n.kind == 'test' and atom_key(n.ast, None)[0] == atom_key(ast.parse("'/' in p", mode='eval').body, None)[0]]     # either polarity
    chk.ob('C19.e', len(strip) == 1 and len(slash) == 1, g, 'gitignored_paths strips a trailing slash and distinguishes anchored from bare patterns')
    if strip and slash:
        p = cg.reach([cg.entry], lambda n: n in slash, block_node=lambda n: n in strip)
        chk.ob('C19.e', p is None, slash[0].ast, 'the trailing "/" of a directory pattern is stripped BEFORE the "contains a slash" test (so `build/` stays a bare name that matches at every depth)',
               'path: %s' % cg.describe(p) if p else '')
    ok = any(isinstance(x, ast.Call) and call_name(x) == 'add' and 'ignored_paths_rel' in norm(x.func) and norm(x.args[0]) == '(folder_io.path, name)' for x in own_nodes(g))
    chk.ob('C19.e', ok, g, 'a bare pattern is remembered with the folder of its .gitignore (applies below that folder)')
    ex = repo.find(REFS, 'expand_relative_ignore_paths')
    ok = any(isinstance(x, ast.Call) and isinstance(x.func, ast.Attribute) and x.func.attr == 'startswith' and norm(x.func.value) == 'curr_path'
             and 'p[0]' in norm(x.args[0]) for x in ast.walk(ex))
    chk.ob('C19.e', ok, ex, 'a bare pattern applies to every folder below its .gitignore')


PREFIX_TRIAGED = {
    ('jedi.inference.references', '_find_python_files_in_sys_path', 'path.startswith(p)'):
        'only decides how far up the folder walk of the reference search climbs: a false match searches MORE folders (never fewer)',
}


def rule_f(repo, chk):
    chk.clause('C19.f', 'ignore rules and search roots relate paths by whole components: in references.py no string-prefix test between '
                        'two paths decides that a folder lies below another one (a/.gitignore must not reach ab/)')
    from ..lib import path_prefix_check
    path_prefix_check(repo, chk, 'C19.f', ['jedi.inference.references'], triaged=PREFIX_TRIAGED, floor=2)


def rule_g(repo, chk):
    chk.clause('C19.g', 'the project directory is searched once: the test that drops it from the sys.path part of the search compares values of '
                        'one kind (str with str): a Path-vs-str comparison is constantly true, the folder is then searched twice and ignored '
                        'top-level modules come back through the second route (checked as C20.f; re-run here)')
    from . import c20
    from ..report import Relabel
    c20.rule_f(repo, Relabel(chk, 'C19.g'))


def describe(chk):
    chk.undecided('completeness of the hits (depends on the engine); glob patterns and negations in .gitignore (deliberately skipped by jedi); '
                  'the documented file limits')


RULES = [('C19.a', rule_a), ('C19.b', rule_b), ('C19.c', rule_c), ('C19.d', rule_d), ('C19.e', rule_e), ('C19.f', rule_f), ('C19.g', rule_g)]
