"""C04 — completions extend what is typed, are ordered, unique and complete (the algebra).

Decided: the yield of a Completion is gated by the match predicate and the (name, complete)
de-duplication; the prefix length is the length of the very string that was matched; complete
is None exactly when fuzzy and is name_with_symbols minus the prefix; the documented sort key;
match() is startswith / subsequence; every attribute source is consulted."""
import ast

from ..core import AnchorError, call_name, norm, short, own_nodes, kwarg, FUNC_TYPES
from ..cfg import cfg_of
from ..lib import calls_in, stmts_in, gate, must_pass, node_has, params, dominating_facts, effective_body, key_function, loop_escapes

COMP = 'jedi.api.completion'
CLS = 'jedi.api.classes'
HELP = 'jedi.api.helpers'


def rule_a(repo, chk):
    chk.clause('C04.a', 'in filter_names the yield of a Completion is control-dependent on helpers.match(string, like_name, fuzzy=fuzzy), with '
                        'both sides lowered under the same settings.case_insensitive_completion test')
    f = repo.find(COMP, 'filter_names')
    ys = [y for y in own_nodes(f) if isinstance(y, ast.Yield)]
    chk.floor('C04.a', len(ys), 1)

    def is_match(e, pol):
        return pol and isinstance(e, ast.Call) and repo.resolve(e.func) == HELP + '.match' and \
            [norm(a) for a in e.args] == ['string', 'like_name'] and norm(kwarg(e, 'fuzzy')) == 'fuzzy'
    for y in ys:
        w = gate(f, y, is_match)
        chk.ob('C04.a', w is None, y, 'a completion is offered only if match(string, like_name, fuzzy=fuzzy) holds', w or '')
    lows = [s for s in stmts_in(f, ast.Assign) if isinstance(s.value, ast.Call) and call_name(s.value) == 'lower']
    got = sorted(norm(s.targets[0]) for s in lows)
    ok = got == ['like_name', 'string'] and all(norm(s.value.func.value) == norm(s.targets[0]) for s in lows)
    chk.ob('C04.a', ok, f, 'both the candidate and the fragment are lower-cased', str(got))
    for s in lows:
        w = gate(f, s, lambda e, pol: pol and repo.resolve(e) == 'jedi.settings.case_insensitive_completion')
        chk.ob('C04.a', w is None, s, '`%s` happens exactly under settings.case_insensitive_completion' % short(s), w or '')
    st = [s for s in stmts_in(f, ast.Assign) if norm(s.targets[0]) == 'string' and not isinstance(s.value, ast.Call)]
    ok = len(st) == 1 and norm(st[0].value) == 'name.string_name'
    chk.ob('C04.a', ok, f, 'the string matched is the candidate\'s own string_name')
    # the fragment comes from get_on_completion_name, which answers for names AND keywords
    g = repo.find(HELP, 'get_on_completion_name')
    tests = [norm(x) for x in own_nodes(g) if isinstance(x, ast.Compare) and 'leaf.type' in norm(x)]
    ok = "leaf.type not in ('name', 'keyword')" in tests
    chk.ob('C04.a', ok, g, 'the fragment is the typed part of a name OR keyword leaf (a fragment spelled like a keyword is still a fragment)', str(tests))
    rets = [r for r in stmts_in(g, ast.Return)]
    ok = any(norm(r.value) == 'leaf.value[:position[1] - leaf.start_pos[1]]' for r in rets)
    chk.ob('C04.a', ok, g, 'the fragment is the leaf text up to the cursor')


def rule_b(repo, chk):
    chk.clause('C04.b', 'uniqueness: the yield is control-dependent on `k not in comp_dct` with k = (new.name, new.complete) of the object yielded, '
                        'and k is added on that path')
    f = repo.find(COMP, 'filter_names')
    ys = [y for y in own_nodes(f) if isinstance(y, ast.Yield)]
    for y in ys:
        yv = norm(y.value)
        ks = [s for s in stmts_in(f, ast.Assign) if norm(s.targets[0]) == 'k']
        ok = len(ks) == 1 and isinstance(ks[0].value, ast.Tuple) and [norm(e) for e in ks[0].value.elts] == ['%s.name' % yv, '%s.complete' % yv]
        chk.ob('C04.b', ok, ks[0] if ks else f, 'the de-duplication key is (name, complete) of the completion that is yielded', short(ks[0]) if ks else '')
        w = gate(f, y, lambda e, pol: pol and isinstance(e, ast.Compare) and isinstance(e.ops[0], ast.NotIn) and norm(e.left) == 'k')
        chk.ob('C04.b', w is None, y, 'the yield is gated by `k not in <seen>`', w or '')
        c = cfg_of(f)
        yn = c.nodes_containing(y)
        adds = [n for n in c.nodes if node_has(n, lambda x: isinstance(x, ast.Call) and call_name(x) == 'add' and x.args and norm(x.args[0]) == 'k')]
        tests = [n for n in c.nodes if n.kind == 'test' and isinstance(n.ast, ast.Compare) and isinstance(n.ast.ops[0], ast.NotIn) and norm(n.ast.left) == 'k']
        for t in tests:
            starts = [m for m, kk in t.succ if kk == 'T']
            free = [s_ for s_ in starts if s_ not in adds]
            p = c.reach(free, lambda n: n in yn, block_node=lambda n: n in adds) if free else None
            chk.ob('C04.b', p is None and bool(adds), t.ast, 'the key is recorded before the completion is yielded', 'path: %s' % c.describe(p) if p else '')
    seen = [s for s in stmts_in(f, ast.Assign) if norm(s.targets[0]) == 'comp_dct']
    ok = len(seen) == 1 and norm(seen[0].value) in ('set()', '{}', 'dict()')
    chk.ob('C04.b', ok, f, 'the seen-set starts empty per call')


def rule_c(repo, chk):
    chk.clause('C04.c', 'prefix length: the like_name_length of every Completion built for identifiers and dict keys is len() of the very string the '
                        'guarding match/startswith compared against')
    sites = []
    for m in repo.modules.values():
        for c in ast.walk(m.tree):
            if isinstance(c, ast.Call) and call_name(c) == 'Completion' and repo.resolve(c.func) in (CLS + '.Completion',):
                sites.append(c)
    chk.floor('C04.c', len(sites), 3, '(Completion constructions)')
    exempt = {('jedi.api.file_name', 'complete_file_name'): 'path completion inside string literals: the fragment is a path component and the offered name is sliced to compensate (outside the property)'}
    for c in sites:
        f = repo.enclosing_func(c)
        key = (c._mod.name, repo.qual_of(c))
        ln = kwarg(c, 'like_name_length')
        if ln is None and len(c.args) >= 4:
            ln = c.args[3]
        if key in exempt:
            chk.ob('C04.c', True, c, 'Completion built in %s is outside the rule: %s' % (key[1], exempt[key]))
            continue
        ok = isinstance(ln, ast.Call) and call_name(ln) == 'len' and len(ln.args) == 1 and isinstance(ln.args[0], ast.Name)
        chk.ob('C04.c', ok, c, 'like_name_length of `%s` is len(<fragment variable>)' % short(c, 40), 'like_name_length=%s' % short(ln))
        if not ok:
            continue
        frag = ln.args[0].id

        def guard(e, pol, frag=frag):
            if not pol:
                return False
            for x in ast.walk(e):
                if isinstance(x, ast.Call) and call_name(x) == 'match' and len(x.args) >= 2 and norm(x.args[1]) == frag:
                    return True
                if isinstance(x, ast.Call) and call_name(x) == 'startswith' and x.args and norm(x.args[0]) == frag:
                    return True
                if isinstance(x, ast.Compare) and isinstance(x.ops[0], ast.Eq) and norm(x.comparators[0]) == frag:
                    return True
            return False
        w = gate(f, c, guard)
        chk.ob('C04.c', w is None, c, 'the completion is built only after the candidate was matched against `%s` itself' % frag,
               'path without a match against %s: %s' % (frag, w) if w else '')
        fz = kwarg(c, 'is_fuzzy')
        chk.ob('C04.c', fz is not None, c, 'is_fuzzy is passed explicitly')
    g = repo.find(CLS, 'Completion.get_completion_prefix_length')
    rets = stmts_in(g, ast.Return)
    ok = len(rets) == 1 and norm(rets[0].value) == 'self._like_name_length'
    chk.ob('C04.c', ok, g, 'get_completion_prefix_length returns the stored fragment length unchanged')
    init = repo.find(CLS, 'Completion.__init__')
    ok = any(norm(s) == 'self._like_name_length = like_name_length' for s in stmts_in(init, ast.Assign))
    chk.ob('C04.c', ok, init, 'the fragment length is stored as given')


def rule_d(repo, chk):
    chk.clause('C04.d', 'Completion.complete returns None exactly under self._is_fuzzy; complete and name_with_symbols are the same function of the '
                        'name and differ only in dropping the first like_name_length characters')
    f = repo.find(CLS, 'Completion.complete')
    rets = stmts_in(f, ast.Return)
    nones = [r for r in rets if isinstance(r.value, ast.Constant) and r.value.value is None]
    others = [r for r in rets if r not in nones]
    chk.ob('C04.d', len(nones) == 1 and len(others) == 1, f, 'complete has one None return and one value return')
    for r in nones:
        w = gate(f, r, lambda e, pol: pol and norm(e) == 'self._is_fuzzy')
        chk.ob('C04.d', w is None, r, 'None is returned only for fuzzy completions', w or '')
    for r in others:
        w = gate(f, r, lambda e, pol: (not pol) and norm(e) == 'self._is_fuzzy')
        chk.ob('C04.d', w is None and norm(r.value) == 'self._complete(True)', r, 'non-fuzzy: complete is self._complete(True)', w or norm(r.value))
    n = repo.find(CLS, 'Completion.name_with_symbols')
    rets = stmts_in(n, ast.Return)
    chk.ob('C04.d', len(rets) == 1 and norm(rets[0].value) == 'self._complete(False)', n, 'name_with_symbols is self._complete(False)')
    c = repo.find(CLS, 'Completion._complete')
    sl = [s for s in stmts_in(c, ast.Assign) if isinstance(s.value, ast.Subscript) and isinstance(s.value.slice, ast.Slice)]
    ok = len(sl) == 1 and norm(sl[0].value) == 'name[self._like_name_length:]' and norm(sl[0].targets[0]) == 'name'
    chk.ob('C04.d', ok, c, 'the only difference is name[self._like_name_length:]', str([short(s) for s in sl]))
    for s in sl:
        w = gate(c, s, lambda e, pol: pol and norm(e) == params(c)[1])
        chk.ob('C04.d', w is None, s, 'the slice is applied exactly when the flag argument is true', w or '')
    src = [s for s in stmts_in(c, ast.Assign) if norm(s.targets[0]) == 'name' and s not in sl]
    chk.ob('C04.d', len(src) == 1 and norm(src[0].value) == 'self._name.get_public_name()', c, 'both start from the name\'s public name')
    init = repo.find(CLS, 'Completion.__init__')
    ok = any(norm(s) == 'self._is_fuzzy = is_fuzzy' for s in stmts_in(init, ast.Assign))
    chk.ob('C04.d', ok, init, 'the fuzzy flag is stored as given')


def rule_e(repo, chk):
    chk.clause('C04.e', 'the sort producing Completion.complete()\'s result uses the documented key, in this order: does-not-start-with-fragment, '
                        'starts-with-__, starts-with-_, case-folded name')
    f = repo.find(COMP, 'Completion.complete')
    srt = [c for c in calls_in(f, 'sorted')] + [c for c in calls_in(f, 'sort')]
    chk.floor('C04.e', len(srt), 1)
    for c in srt:
        kf = key_function(repo, f, kwarg(c, 'key'))
        elts, arg = kf if kf is not None else (None, 'x')
        want = ['not %s.name.startswith(self._like_name)' % arg, "%s.name.startswith('__')" % arg, "%s.name.startswith('_')" % arg, '%s.name.lower()' % arg]
        chk.ob('C04.e', elts == want, c, 'sort key = (not startswith(fragment), startswith("__"), startswith("_"), name.lower())', 'key: %s' % elts)
        chk.ob('C04.e', kwarg(c, 'reverse') is None, c, 'ascending')
        tgt = c.args[0] if call_name(c) == 'sorted' and c.args else None
        chk.ob('C04.e', tgt is not None and norm(tgt) == 'completions', c, 'what is sorted is the filtered completion list')
    rets = [r for r in stmts_in(f, ast.Return) if any(x in srt for x in ast.walk(r))]
    chk.ob('C04.e', bool(rets), f, 'the sorted list is what complete() returns (after the prefixed string/dict completions)')


def rule_f(repo, chk):
    chk.clause('C04.f', 'match(): non-fuzzy is startswith; fuzzy is the subsequence recursion (first character found, rest matched in the remainder)')
    m = repo.find(HELP, 'match')
    rets = stmts_in(m, ast.Return)
    fz = [r for r in rets if call_name(r.value) == '_fuzzy_match']
    st = [r for r in rets if call_name(r.value) == '_start_match']
    ok = len(fz) == 1 and len(st) == 1 and gate(m, fz[0], lambda e, pol: pol and norm(e) == 'fuzzy') is None and \
        gate(m, st[0], lambda e, pol: (not pol) and norm(e) == 'fuzzy') is None
    chk.ob('C04.f', ok, m, 'match dispatches on fuzzy')
    for r in fz + st:
        chk.ob('C04.f', [norm(a) for a in r.value.args] == ['string', 'like_name'], r, 'arguments passed in order (string, like_name)')
    s = repo.find(HELP, '_start_match')
    ok = [norm(x) for x in effective_body(s)] == ['return string.startswith(like_name)']
    chk.ob('C04.f', ok, s, '_start_match is string.startswith(like_name)')
    z = repo.find(HELP, '_fuzzy_match')
    txt = [norm(x) for x in ast.walk(z) if isinstance(x, ast.stmt)]
    # subsequence match, as a loop (or, before fix, a recursion): find the first character, go on in the remainder with the rest of the
    # fragment; a character that is not found ends it with False; the last character is a containment test
    rec = any(isinstance(x, ast.Call) and isinstance(x.func, ast.Name) and x.func.id == '_fuzzy_match' for x in ast.walk(z))
    step = any('string.find(like_name[0])' in t for t in txt) and \
        (any('_fuzzy_match(string[pos + 1:], like_name[1:])' in t for t in txt) if rec
         else any(t == 'string = string[pos + 1:]' for t in txt) and any(t == 'like_name = like_name[1:]' for t in txt))
    ok = step and any(t == 'return False' for t in txt)
    chk.ob('C04.f', ok, z, '_fuzzy_match finds the first character and matches the rest in the remainder (subsequence)')
    ok = any(t == 'return like_name in string' for t in txt) and \
        any(isinstance(x, (ast.If, ast.While)) and norm(x.test) in ('len(like_name) <= 1', 'len(like_name) > 1') for x in ast.walk(z))
    chk.ob('C04.f', ok, z, 'base case: at most one character left -> containment')
    chk.ob('C04.f', not rec, z, '_fuzzy_match is a loop: its stack depth does not grow with the length of the typed name (a 3000-character name '
           'exhausted the interpreter stack: RecursionError from complete(fuzzy=True))', key='fuzzy-not-recursive')


def rule_g(repo, chk):
    chk.clause('C04.g', 'attribute sources are all consulted: complete_trailer adds filter.values() of every filter of every value (no break/return '
                        'inside the loops); TreeInstance/ClassMixin.get_filters yield one filter per MRO entry plus self-attribute and metaclass filters')
    f = repo.find(COMP, 'complete_trailer')
    loops = [n for n in own_nodes(f) if isinstance(n, ast.For)]
    outer = [l for l in loops if norm(l.iter) == 'values']
    chk.ob('C04.g', len(outer) == 1, f, 'one loop over all values')
    for lp in loops:
        esc = loop_escapes(lp, (ast.Break, ast.Return))
        chk.ob('C04.g', not esc, lp, 'no break/return in `for %s in %s`' % (norm(lp.target), short(lp.iter, 40)))
    inner = [l for l in loops if 'get_filters(' in norm(l.iter)]
    chk.floor('C04.g', len(inner), 1)
    for lp in inner:
        ok = any(isinstance(s, ast.AugAssign) and norm(s.value) == '%s.values()' % norm(lp.target) for s in lp.body)
        chk.ob('C04.g', ok, lp, 'every filter contributes all of its values()')
    rets = stmts_in(f, ast.Return)
    chk.ob('C04.g', len(rets) == 1 and isinstance(rets[0].value, ast.Name), f, 'the accumulated list is returned')
    g = repo.find(COMP, 'Completion._complete_global_scope')
    lp = [n for n in own_nodes(g) if isinstance(n, ast.For)]
    ok = len(lp) == 1 and not loop_escapes(lp[0]) and \
        any(isinstance(s, ast.AugAssign) and '.values()' in norm(s.value) for s in lp[0].body)
    chk.ob('C04.g', ok, g, 'global completion collects values() of every filter of the scope chain')
    # instance: self attributes for every non-compiled MRO class, then the class filters
    t = repo.find('jedi.inference.value.instance', '_BaseTreeInstance.get_filters')
    lp = [n for n in own_nodes(t) if isinstance(n, ast.For) and 'py__mro__()' in norm(n.iter)]
    ok = len(lp) == 1 and any(isinstance(y, ast.Yield) and call_name(y.value) == 'SelfAttributeFilter' for y in ast.walk(lp[0]))
    chk.ob('C04.g', ok, t, 'instances offer self.<attr> assignments of every class in the MRO')
    ok = any(call_name(c) == 'get_filters' and 'class_value' in norm(c.func) for c in calls_in(t))
    chk.ob('C04.g', ok, t, '... and then the class\'s own filters')
    k = repo.find('jedi.inference.value.klass', 'ClassMixin.get_filters')
    lp = [n for n in own_nodes(k) if isinstance(n, ast.For) and 'py__mro__()' in norm(n.iter)]
    ok = len(lp) >= 1 and not loop_escapes(lp[0], (ast.Break, ast.Return))
    chk.ob('C04.g', ok, k, 'a class offers the names of every class in its MRO (no early exit)')
    ok = any('get_metaclass' in norm(x) for x in ast.walk(k))
    chk.ob('C04.g', ok, k, 'a class consults its metaclasses')
    sa = repo.find('jedi.inference.value.instance', 'SelfAttributeFilter._is_in_right_scope')
    ok = any(call_name(c) == 'goto' for c in calls_in(sa, nested=True)) or 'goto' in norm(sa)
    chk.ob('C04.g', ok, sa, 'whether `x.attr = ...` assigns to the instance is decided by resolving the receiver name (works inside closures)')


ENUMERATORS = [
    # the generators/collectors whose answer is "all of them": an early exit of a loop drops names
    ('jedi.inference.value.klass', 'ClassMixin.py__mro__', 'the classes of the MRO'),
    ('jedi.inference.value.module', 'ModuleMixin.star_imports', 'the modules reached through `from x import *`'),
    ('jedi.inference.value.module', 'ModuleMixin.get_filters', 'the filters of a module (own names, star imports, module attributes)'),
    ('jedi.inference.value.module', 'ModuleMixin.iter_star_filters', 'one filter per star-imported module'),
    ('jedi.inference.value.instance', '_BaseTreeInstance.get_filters', 'the filters of an instance'),
    ('jedi.inference.value.klass', 'ClassMixin.get_filters', 'the filters of a class'),
    ('jedi.inference.context', 'ModuleContext.get_filters', 'the filters of a module context'),
    ('jedi.inference.context', 'get_global_filters', 'the scope chain'),
]


def rule_h(repo, chk):
    chk.clause('C04.h', 'the enumerations completion draws from are exhaustive: no loop of py__mro__, star_imports, get_filters (module, class, '
                        'instance, module context), iter_star_filters, get_global_filters is left early (break/return; `continue` only for '
                        'an element that is itself skipped); every MRO entry of every base is yielded unless already present; star imports '
                        'are followed transitively')
    n = 0
    for mod, q, what in ENUMERATORS:
        f = repo.find(mod, q)
        loops = [l for l in own_nodes(f) if isinstance(l, (ast.For, ast.While))]
        for lp in loops:
            n += 1
            esc = loop_escapes(lp, (ast.Break, ast.Return))
            head = 'while %s' % short(lp.test, 40) if isinstance(lp, ast.While) else 'for %s in %s' % (norm(lp.target), short(lp.iter, 40))
            chk.ob('C04.h', not esc, lp, '%s: the loop `%s` enumerates %s without break/return' % (q, head, what),
                   'left early at L%s' % esc[0].lineno if esc else '')
    chk.floor('C04.h', n, 10)
    m = repo.find('jedi.inference.value.klass', 'ClassMixin.py__mro__')
    ys = [y for y in own_nodes(m) if isinstance(y, ast.Yield) and norm(y.value) == 'cls_new']
    ok = len(ys) == 1
    if ok:
        facts = dominating_facts(m, ys[0])
        ok = [norm(e) for e, pol in facts if pol] == ['cls_new not in mro'] or \
            all(norm(e) in ('cls_new not in mro', 'cls_new in mro') for e, pol in facts)
    chk.ob('C04.h', ok, m, 'an inherited class is yielded under no other condition than "not yet in the mro"')
    st = repo.find('jedi.inference.value.module', 'ModuleMixin.star_imports')
    rec = [c for c in calls_in(st) if call_name(c) == 'star_imports']
    ok = len(rec) >= 1 and all(any(isinstance(p_, ast.For) for p_ in _parents(c, st)) for c in rec)
    chk.ob('C04.h', ok, st, 'star imports are transitive: star_imports() of every star-imported module is included')
    acc = [s for s in stmts_in(st, ast.AugAssign) if norm(s.target) == 'modules']
    ok = any(norm(s.value) == 'new' for s in acc) and any('star_imports()' in norm(s.value) for s in acc)
    chk.ob('C04.h', ok, st, 'both the imported modules and their own star imports are accumulated')


UNIQUE_BY_NATURE = {'scandir': 'directory entries have distinct names', 'listdir': 'directory entries have distinct names'}
OUT_OF_SCOPE_PRODUCERS = {'search_in_module': 'feeds Script.search/complete_search (no cursor fragment), not Script.complete'}


def _unique_source(func, e, depth=0):
    """why the iterable `e` cannot hold the same element twice, or None"""
    if isinstance(e, (ast.Set, ast.SetComp, ast.Dict, ast.DictComp)):
        return 'a set/dict'
    if isinstance(e, ast.Call):
        cn = call_name(e)
        if cn in ('set', 'frozenset'):
            return 'set()'
        if cn in UNIQUE_BY_NATURE:
            return UNIQUE_BY_NATURE[cn]
        if cn in ('sorted', 'list', 'tuple', 'reversed', 'iter') and e.args:
            return _unique_source(func, e.args[0], depth)
        if cn in ('keys',) and isinstance(e.func, ast.Attribute):
            return 'dict keys'
    if isinstance(e, ast.Name) and depth < 3:
        defs = [s_ for s_ in stmts_in(func, ast.Assign) if any(isinstance(t, ast.Name) and t.id == e.id for t in s_.targets)]
        if defs and all(_unique_source(func, d.value, depth + 1) for d in defs):
            return _unique_source(func, defs[0].value, depth + 1)
    return None


def rule_i(repo, chk):
    chk.clause('C04.i', 'uniqueness at every producer: each place that constructs api Completion objects for Script.complete either tests a '
                        'seen-set before yielding (filter_names, C04.b) or loops over a source that cannot hold an element twice (a set, '
                        'sorted(set(..)), a directory listing); the doctest path re-enters Completion.complete')
    n = 0
    for modname in ('jedi.api.strings', 'jedi.api.file_name', 'jedi.api.completion'):
        for q, f in sorted(repo.module(modname).defs.items()):
            if not isinstance(f, FUNC_TYPES):
                continue
            for c in [x for x in own_nodes(f) if isinstance(x, ast.Call) and (repo.resolve(x.func) or '') == 'jedi.api.classes.Completion']:
                n += 1
                if f.name in OUT_OF_SCOPE_PRODUCERS:
                    chk.ob('C04.i', True, c, '%s: %s' % (q, OUT_OF_SCOPE_PRODUCERS[f.name]))
                    continue
                # where the object leaves the function: the yield/return that carries it
                par = getattr(c, '_parent', None)
                emits = [c]
                if isinstance(par, ast.Assign) and isinstance(par.targets[0], ast.Name):
                    v = par.targets[0].id
                    emits = [y for y in own_nodes(f) if isinstance(y, (ast.Yield, ast.Return)) and isinstance(y.value, ast.Name) and y.value.id == v] or [c]
                notin = lambda e, pol: pol and isinstance(e, ast.Compare) and len(e.ops) == 1 and isinstance(e.ops[0], ast.NotIn)
                if all(gate(f, y, notin) is None for y in emits):
                    chk.ob('C04.i', True, c, 'Completion built in %s only for a key that is not in the seen-set' % q)
                    continue
                loops = [p_ for p_ in _parents(c, f) if isinstance(p_, (ast.For, ast.comprehension))]
                if not loops:
                    chk.ob('C04.i', True, c, 'Completion built once per call in %s' % q)
                    continue
                why = [_unique_source(f, lp.iter) for lp in loops]
                ok = all(why)
                chk.ob('C04.i', ok, c, 'Completion objects of %s are built from a duplicate-free source (%s)' % (q, '; '.join(w_ or '?' for w_ in why)),
                       '' if ok else 'the loop over `%s` can deliver the same element twice and nothing filters it' % short(loops[[bool(x) for x in why].index(False)].iter, 70),
                       key='producer|%s:%s' % (modname, q))
    chk.floor('C04.i', n, 3, '(constructors of api Completion objects)')
    inner = repo.find(COMP, 'Completion._complete_code_lines')
    ok = any(call_name(c) == 'complete' and isinstance(c.func, ast.Attribute) and call_name(c.func.value) == 'Completion' for c in calls_in(inner, nested=True))
    chk.ob('C04.i', ok, inner, 'doctest completions come from a nested Completion.complete() (same guarantees)')


def rule_k(repo, chk):
    chk.clause('C04.k', 'the seen-set of filter_names holds only keys of completions that were offered: a candidate that is dropped after the '
                        'de-duplication test (a name bound by `del`) must not register its key, or a later definition of the same name is '
                        'taken for a duplicate and the name is never offered')
    f = repo.find(COMP, 'filter_names')
    c = cfg_of(f)
    adds = [n for n in c.nodes if n.kind == 'stmt' and isinstance(n.ast, ast.Expr) and isinstance(n.ast.value, ast.Call)
            and call_name(n.ast.value) == 'add' and norm(n.ast.value.func.value) == 'comp_dct']
    chk.floor('C04.k', len(adds), 1, 'comp_dct.add in filter_names')
    ys = {n.id for y in own_nodes(f) if isinstance(y, ast.Yield) for n in c.nodes_containing(y)}
    heads = {n.id for n in c.nodes if n.kind == 'for'}
    for a in adds:
        p_ = c.reach([a], lambda n: n.id in heads or n is c.exit, block_node=lambda n: n.id in ys, kinds={'n', 'T', 'F'})
        chk.ob('C04.k', p_ is None, a.ast, 'once a key is registered the completion is yielded in the same iteration (no path from comp_dct.add to the next candidate '
               'that skips the yield)', 'path: %s' % c.describe(p_) if p_ else '')


def rule_j(repo, chk):
    chk.clause('C04.j', 'instance attributes: the self-attribute filter keeps every definition `<receiver>.x = ...` between the class\'s start and end '
                        'whose receiver resolves to the first parameter of a function of this class (decided by goto alone: closures nested in '
                        'methods count), and every such name of the class body is offered')
    from ..summaries import check_summary
    INST = 'jedi.inference.value.instance'
    check_summary(repo, chk, 'C04.j', INST, 'SelfAttributeFilter._is_in_right_scope')
    f = repo.find(INST, 'SelfAttributeFilter._filter_self_names')
    lp = [n for n in own_nodes(f) if isinstance(n, ast.For) and norm(n.iter) == 'names']
    chk.ob('C04.j', len(lp) == 1 and not loop_escapes(lp[0], (ast.Break, ast.Return)), f, 'every candidate name is looked at (no break/return in the loop over the names)')
    ys = [n for n in own_nodes(f) if isinstance(n, ast.Yield)]
    chk.ob('C04.j', len(ys) == 1 and norm(ys[0].value) == (norm(lp[0].target) if lp else 'name'), f, 'what is offered is the candidate itself')
    if ys:
        def acc(e, pol):
            t = norm(e)
            return pol and t in ('name.is_definition()', 'self._access_possible(name)', "trailer.type == 'trailer'", 'len(trailer.parent.children) == 2',
                                 "trailer.children[0] == '.'", 'self._is_in_right_scope(trailer.parent.children[0], name)')
        from ..lib import dominating_facts
        facts = {norm(e) for e, pol in dominating_facts(f, ys[0]) if pol}
        want = {'name.is_definition()', 'self._access_possible(name)', "trailer.type == 'trailer'", 'len(trailer.parent.children) == 2',
                "trailer.children[0] == '.'", 'self._is_in_right_scope(trailer.parent.children[0], name)'}
        extra = sorted(facts - want)
        chk.ob('C04.j', not extra, ys[0], 'a candidate is dropped only for the six listed reasons (shape `<name>.x`, a definition, accessible, receiver is self)',
               'further conditions in front of the yield: %s' % extra)
    g = repo.find(INST, 'SelfAttributeFilter._filter')
    ok = any(isinstance(r, ast.Return) and norm(r.value) == 'self._filter_self_names(names)' for r in stmts_in(g, ast.Return))
    chk.ob('C04.j', ok, g, '_filter hands the names inside the class to _filter_self_names')


def _parents(node, stop):
    p = getattr(node, '_parent', None)
    while p is not None and p is not stop:
        yield p
        p = getattr(p, '_parent', None)


def describe(chk):
    chk.undecided('completeness against the live object and which names the engine finds (run-time); keyword and string/path completions; '
                  'case-variant handling beyond the lower-casing of both sides')


RULES = [('C04.a', rule_a), ('C04.b', rule_b), ('C04.c', rule_c), ('C04.d', rule_d), ('C04.e', rule_e), ('C04.f', rule_f), ('C04.g', rule_g), ('C04.h', rule_h), ('C04.i', rule_i), ('C04.j', rule_j), ('C04.k', rule_k)]
