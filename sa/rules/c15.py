"""C15 — inference gives up instead of recursing or exploding (mechanisms only).

Decided: each give-up mechanism the property names is installed where the recursion enters
and is balanced on all exits; limits are positive constants compared on a path that gives up;
memoisation stores its default before computing; every directly recursive function of the
package is triaged with its termination argument."""
import ast

from ..core import AnchorError, call_name, decorators, decorator_node, norm, short, own_nodes, kwarg, FUNC_TYPES
from ..cfg import cfg_of
from ..lib import calls_in, stmts_in, gate, must_pass, node_has, params, paired, raised_name, effective_body

REC = 'jedi.inference.recursion'
ST = 'jedi.inference.syntax_tree'

# recursion entry point -> (guard, the cycle it cuts)
GUARDS = {
    ('jedi.inference.value.function', 'BaseFunctionExecutionContext.get_return_values'): ('execution_recursion_decorator', 'function calling itself / mutual recursion'),
    ('jedi.inference.value.function', 'BaseFunctionExecutionContext.get_yield_lazy_values'): ('execution_recursion_decorator', 'recursive generators'),
    (ST, '_infer_node'): ('_limit_value_infers', 'self-referential instance attributes: per-context cap'),
    (ST, 'infer_expr_stmt'): ('_limit_value_infers', 'a = b; b = a through contexts'),
}
MEMO_DEFAULT = {
    (ST, '_infer_node_cached'): 'node inferred while it is being inferred (x = x + 1 in a loop)',
    ('jedi.inference.imports', 'infer_import'): 'import cycles',
    ('jedi.inference.imports', 'goto_import'): 'import cycles',
    ('jedi.inference.value.function', 'BaseFunctionExecutionContext.get_return_values'): 'recursive calls see no values',
    ('jedi.inference.value.klass', 'ClassValue.py__bases__'): 'class A(A) / cyclic inheritance',
    ('jedi.inference.value.klass', 'ClassValue.get_metaclasses'): 'metaclass lookup through cyclic bases',
    ('jedi.inference.value.klass', 'ClassMixin.is_typeddict'): 'cyclic bases',
    ('jedi.inference.value.module', 'ModuleMixin.star_imports'): 'from a import * / from b import * cycles',
    ('jedi.inference.sys_path', 'check_sys_path_modifications'): 'sys.path code that imports the module itself',
    ('jedi.inference.dynamic_params', '_search_function_arguments'): 'dynamic parameter search re-entering the same function',
    ('jedi.inference.names', 'TreeNameDefinition.py__doc__'): 'docstring lookup through self-referential names',
    ('jedi.inference.value.instance', 'TreeInstance._get_annotated_class_object'): '__init__ annotations referring to the instance',
    ('jedi.inference.compiled.mixed', 'MixedObject.py__call__'): 'mixed objects calling themselves',
    ('jedi.inference.value.iterable', 'ComprehensionMixin._iterate'): 'comprehension over itself',
    ('jedi.inference.value.iterable', 'Sequence._cached_generics'): 'container containing itself',
    ('jedi.inference.value.dynamic_arrays', '_internal_check_array_additions'): 'x.append(x)',
}
EXEC_ALLOWED = {
    (ST, 'infer_expr_stmt'): 'stmt',
    ('jedi.inference.flow_analysis', '_check_if'): 'node',
    ('jedi.inference.dynamic_params', '_avoid_recursions.wrapper'): 'function_value.tree_node',
    ('jedi.inference.value.dynamic_arrays', '_internal_check_array_additions'): 'power',
}
# directly recursive functions and why they terminate: T = descends the (finite) syntax tree / sliced data,
# D = explicit depth bound, S = seen-set / accumulating avoid-set over a graph of names, G = runs under a global guard
RECURSIVE = {
    ('jedi.parser_utils', 'get_executable_nodes'): 'T', ('jedi.parser_utils', 'move'): 'T', ('jedi.parser_utils', 'expr_is_dotted'): 'T',
    ('jedi.api.completion', 'extract_imported_names'): 'T',
    ('jedi.api.helpers', '_iter_arguments'): 'T', ('jedi.api.helpers', '_get_index_and_key'): 'T',
    ('jedi.api.refactoring.extract', '_remove_unwanted_expression_nodes'): 'T', ('jedi.api.refactoring.extract', '_check_for_non_extractables'): 'T',
    ('jedi.api.refactoring.extract', '_find_non_global_names'): 'T', ('jedi.api.refactoring.extract', '_is_node_ending_return_stmt'): 'T',
    ('jedi.inference.finder', '_get_call_string'): 'T', ('jedi.inference.helpers', 'deep_ast_copy'): 'T',
    ('jedi.inference.helpers', 'get_names_of_node'): 'T', ('jedi.inference.syntax_tree', 'infer_atom'): 'T',
    ('jedi.inference.value.iterable', 'ComprehensionMixin._nested'): 'T', ('jedi.inference.value.iterable', 'unpack_tuple_to_dict'): 'T',
    ('jedi.inference.compiled.access', 'DirectObjectAccess._annotation_to_str'): 'T',
    ('jedi.inference.compiled.subprocess', 'InferenceStateSubprocess._convert_access_handles'): 'T',
    ('jedi.inference.flow_analysis', '_break_check'): 'T',
    ('jedi.inference.arguments', 'try_iter_content'): 'D',
    ('jedi.api.helpers', 'filter_follow_imports'): 'S', ('jedi.inference.references', '_resolve_names'): 'S',
    ('jedi.inference.imports', 'load_module_from_path'): 'G:one step from a stub file to its python file (the recursive call passes a .py path)',
    ('jedi.inference.gradual.conversion', '_python_to_stub_names'): 'G:single fallback call with fallback_to_python forwarded',
    ('jedi.inference.docstrings', '_execute_array_values'): 'G:values come from inference, which runs under the execution budget',
    ('jedi.inference.dynamic_params', '_check_name_for_execution'): 'G:runs inside _avoid_recursions / execution_allowed',
    ('jedi.inference.star_args', 'process_params'): 'G:each level consumes one *args/**kwargs forwarding; executions are budgeted',
}


def rule_a(repo, chk):
    chk.clause('C15.a', 'TABLE: the recursion entry points carry their guard (execution_recursion_decorator, _limit_value_infers, '
                        'execution_allowed on the syntax node itself, memoisation WITH a default, the generator cache with its sentinel)')
    for (m, q), (dec, why) in sorted(GUARDS.items()):
        f = repo.find(m, q)
        chk.ob('C15.a', dec in decorators(f), f, '%s is wrapped by %s (%s)' % (q, dec, why), 'decorators: %s' % decorators(f))
    n = 0
    for (m, q), why in sorted(MEMO_DEFAULT.items()):
        f = repo.find(m, q)
        d = None
        for dn in ('inference_state_method_cache', 'inference_state_function_cache'):
            d = d or decorator_node(f, dn)
        has_default = isinstance(d, ast.Call) and (d.args or kwarg(d, 'default') is not None)
        n += 1
        chk.ob('C15.a', has_default, f, '%s is memoised WITH a default, so re-entry sees the default (%s)' % (q, why),
               'decorator: %s' % (short(d) if d is not None else decorators(f)), key='memo-default|%s:%s' % (m, q))
    chk.floor('C15.a', n, 14, '(memo-with-default entry points)')
    mro = repo.find('jedi.inference.value.klass', 'ClassMixin.py__mro__')
    chk.ob('C15.a', 'inference_state_method_generator_cache' in decorators(mro), mro, 'py__mro__ uses the generator cache (recursion sentinel cuts cyclic inheritance)')
    # execution_allowed call sites: keyed on the syntax node alone
    sites = repo.calls_of('execution_allowed')
    k = 0
    for c in sites:
        key = (c._mod.name, repo.qual_of(c))
        a1 = c.args[1] if len(c.args) > 1 else None
        plain = isinstance(a1, (ast.Name, ast.Attribute))
        ok = key in EXEC_ALLOWED and plain and norm(a1) == EXEC_ALLOWED[key]
        k += 1
        chk.ob('C15.a', ok, c, 'execution_allowed in %s is keyed on the syntax node itself (`%s`): the same statement reached through a '
               'freshly created context still counts as re-entry' % (key[1], short(a1)),
               'expected key %s' % EXEC_ALLOWED.get(key, '(unlisted call site)'), key='execution_allowed|%s:%s' % key)
        par = getattr(c, '_parent', None)
        in_with = isinstance(par, ast.withitem)
        chk.ob('C15.a', in_with, c, 'execution_allowed is used as a context manager (its pop runs in finally)')
    chk.floor('C15.a', k, 2, '(execution_allowed sites)')
    for c in sites:
        f = repo.enclosing_func(c)
        w = [x for x in own_nodes(f) if isinstance(x, ast.With) and any(i.context_expr is c for i in x.items)]
        for wi in w:
            var = wi.items[0].optional_vars
            if isinstance(var, ast.Name):
                body_calls = [x for x in ast.walk(ast.Module(body=wi.body, type_ignores=[])) if isinstance(x, ast.Call)]
                tests = [x for x in ast.walk(ast.Module(body=wi.body, type_ignores=[])) if isinstance(x, (ast.If, ast.IfExp)) and var.id in norm(x.test)]
                chk.ob('C15.a', bool(tests), wi, 'the `%s` answer of execution_allowed is tested before the guarded work' % var.id)


def rule_b(repo, chk):
    chk.clause('C15.b', 'PAIR: execution_allowed pushes and pops in a finally around its yield (the re-entrant branch pushes nothing); '
                        'execution_recursion_decorator pops in a finally; push_execution does both reversible updates before its first return '
                        'and pop_execution reverses exactly those; _avoid_recursions decrements in a finally')
    f = repo.find(REC, 'execution_allowed')
    c = cfg_of(f)
    pushes = [s for s in stmts_in(f, ast.Expr) if isinstance(s.value, ast.Call) and call_name(s.value) == 'append' and 'pushed_nodes' in norm(s.value.func)]
    pops = [s for s in stmts_in(f, ast.Expr) if isinstance(s.value, ast.Call) and call_name(s.value) == 'pop' and 'pushed_nodes' in norm(s.value.func)]
    chk.ob('C15.b', len(pushes) == 1 and len(pops) == 1, f, 'execution_allowed has one push and one pop')
    for p in pushes:
        w = paired(f, p, lambda n: n.ast in pops)
        chk.ob('C15.b', w is None, p, 'the pushed node is popped on every exit (normal, exception, abandoned generator)', 'exit without pop: %s' % w if w else '')
        ok = norm(p.value.args[0]) == params(f)[1]
        chk.ob('C15.b', ok, p, 'what is pushed is the node that was tested')
    ys = [y for y in own_nodes(f) if isinstance(y, ast.Yield)]
    yf = [y for y in ys if isinstance(y.value, ast.Constant) and y.value.value is False]
    yt = [y for y in ys if isinstance(y.value, ast.Constant) and y.value.value is True]
    chk.ob('C15.b', len(yf) == 1 and len(yt) == 1, f, 'yields False on re-entry and True otherwise')
    for y in yf:
        w = gate(f, y, lambda e, pol: pol and isinstance(e, ast.Compare) and isinstance(e.ops[0], ast.In) and norm(e.left) == params(f)[1])
        chk.ob('C15.b', w is None, y, '`yield False` exactly when the node is already on the stack', w or '')
        yn = c.nodes_containing(y)
        pn = [n for n in c.nodes if n.ast in pushes or n.ast in pops]
        p = c.reach([c.entry], lambda n: n in yn, block_node=None)
        p2 = c.reach(yn, lambda n: n in pn, kinds={'n', 'T', 'F'})
        chk.ob('C15.b', p2 is None, y, 'the re-entrant branch neither pushes nor pops')
    for y in yt:
        yn = c.nodes_containing(y)
        pn = [n for n in c.nodes if n.ast in pushes]
        p = c.reach([c.entry], lambda n: n in yn, block_node=lambda n: n in pn)
        chk.ob('C15.b', p is None, y, '`yield True` only after the node was pushed')
    w = repo.find(REC, 'execution_recursion_decorator.decorator.wrapper')
    push = [s for s in stmts_in(w, (ast.Assign, ast.Expr)) if any(isinstance(x, ast.Call) and call_name(x) == 'push_execution' for x in ast.walk(s))]
    pop = [s for s in stmts_in(w, ast.Expr) if isinstance(s.value, ast.Call) and call_name(s.value) == 'pop_execution']
    chk.ob('C15.b', len(push) == 1 and len(pop) == 1, w, 'the decorator pushes once and pops once')
    for p in push:
        wit = paired(w, p, lambda n: n.ast in pop)
        chk.ob('C15.b', wit is None, p, 'pop_execution runs on every exit after push_execution returned', 'exit without pop: %s' % wit if wit else '')
    cw = cfg_of(w)
    calls = [n for n in cw.nodes if node_has(n, lambda x: isinstance(x, ast.Call) and isinstance(x.func, ast.Name) and x.func.id == 'func')]
    for cn in calls:
        wit = gate(w, cn.ast, lambda e, pol: (not pol) and norm(e) == 'limit_reached')
        chk.ob('C15.b', wit is None, cn.ast, 'the wrapped function only runs when the limit was not reached', wit or '')
    # push_execution / pop_execution symmetry
    pe = repo.find(REC, 'ExecutionRecursionDetector.push_execution')
    po = repo.find(REC, 'ExecutionRecursionDetector.pop_execution')
    cpe = cfg_of(pe)
    inc = [n for n in cpe.nodes if isinstance(n.ast, ast.AugAssign) and norm(n.ast.target) == 'self._recursion_level' and isinstance(n.ast.op, ast.Add)]
    app = [n for n in cpe.nodes if node_has(n, lambda x: isinstance(x, ast.Call) and call_name(x) == 'append' and '_parent_execution_funcs' in norm(x.func))]
    chk.ob('C15.b', len(inc) == 1 and len(app) == 1, pe, 'push_execution increments the level and appends the function once each')
    rets = [n for n in cpe.nodes if isinstance(n.ast, ast.Return)]
    for what, ns in (('level increment', inc), ('stack append', app)):
        p = cpe.reach([cpe.entry], lambda n: n in rets, block_node=lambda n: n in ns)
        chk.ob('C15.b', p is None, pe, 'no return of push_execution precedes the %s (pop_execution always undoes both)' % what,
               'path: %s' % cpe.describe(p) if p else '')
    body = [norm(s) for s in effective_body(po)]
    ok = sorted(body) == sorted(['self._parent_execution_funcs.pop()', 'self._recursion_level -= 1'])
    chk.ob('C15.b', ok, po, 'pop_execution reverses exactly those two updates', str(body))
    av = repo.find('jedi.inference.dynamic_params', '_avoid_recursions.wrapper')
    incs = [s for s in stmts_in(av, ast.AugAssign) if 'dynamic_params_depth' in norm(s.target) and isinstance(s.op, ast.Add)]
    decs = [s for s in stmts_in(av, ast.AugAssign) if 'dynamic_params_depth' in norm(s.target) and isinstance(s.op, ast.Sub)]
    for s in incs:
        wit = paired(av, s, lambda n: n.ast in decs)
        chk.ob('C15.b', wit is None, s, 'dynamic_params_depth is decremented on every exit', wit or '')
    chk.floor('C15.b', len(incs), 1)


def _const_positive(repo, modname, name):
    s = repo.toplevel(modname, name)
    v = getattr(s, 'value', None)
    return isinstance(v, ast.Constant) and isinstance(v.value, int) and not isinstance(v.value, bool) and v.value > 0, (v.value if isinstance(v, ast.Constant) else norm(v))


def rule_c(repo, chk):
    chk.clause('C15.c', 'every limit is a positive module constant compared with > / >= on a path that returns "limit reached"; the only '
                        'exemptions from the execution budget are the builtins module (always) and typing (per-function count only); the other '
                        'give-up points (300 inferences per context, iteration depth 10, 6 comparison combinations, 16 if-branch combinations) are present')
    for name in ('recursion_limit', 'total_function_execution_limit', 'per_function_execution_limit', 'per_function_recursion_limit'):
        ok, v = _const_positive(repo, REC, name)
        chk.ob('C15.c', ok, repo.toplevel(REC, name), '%s is a positive integer constant (%s)' % (name, v))
    pe = repo.find(REC, 'ExecutionRecursionDetector.push_execution')
    c = cfg_of(pe)
    want = {
        'recursion_limit': ('self._recursion_level', (ast.Gt, ast.GtE)),
        'total_function_execution_limit': ('self._execution_count', (ast.Gt, ast.GtE)),
        'per_function_execution_limit': ('self._funcdef_execution_counts', (ast.Gt, ast.GtE)),
        'per_function_recursion_limit': ('self._parent_execution_funcs.count', (ast.Gt, ast.GtE)),
    }
    for lim, (lhs, ops) in want.items():
        tests = [n for n in c.nodes if n.kind == 'test' and isinstance(n.ast, ast.Compare) and norm(n.ast.comparators[0]) == lim]
        ok = len(tests) == 1 and isinstance(tests[0].ast.ops[0], ops) and norm(tests[0].ast.left).startswith(lhs)
        chk.ob('C15.c', ok, tests[0].ast if tests else pe, 'push_execution compares %s with %s using > or >= (a counter that can jump cannot slip past ==)' % (lhs, lim),
               str([norm(t.ast) for t in tests]))
        for t in tests:
            # the true branch ends in `return True` unless the typing exemption applies
            starts = [m for m, k in t.succ if k == 'T']
            def typing_T(n, k, m):
                return n.kind == 'test' and "== 'typing'" in norm(n.ast) and k == 'T'
            p = c.reach(starts, lambda n: n is c.exit or (isinstance(n.ast, ast.Return) and not (isinstance(n.ast.value, ast.Constant) and n.ast.value.value is True)),
                        block_node=lambda n: isinstance(n.ast, ast.Return) and isinstance(n.ast.value, ast.Constant) and n.ast.value.value is True,
                        block_edge=typing_T if lim == 'per_function_execution_limit' else None, kinds={'n', 'T', 'F'})
            first_is_ret = any(isinstance(s_.ast, ast.Return) and not (isinstance(s_.ast.value, ast.Constant) and s_.ast.value.value is True) for s_ in starts)
            chk.ob('C15.c', p is None and not first_is_ret, t.ast, 'exceeding %s makes push_execution answer "limit reached"' % lim, 'path: %s' % c.describe(p) if p else '')
    # exemptions: every `return False` except the final one is under builtins (or typing on the per-function branch)
    rets = sorted([n for n in c.nodes if isinstance(n.ast, ast.Return) and isinstance(n.ast.value, ast.Constant) and n.ast.value.value is False], key=lambda n: n.line)
    chk.floor('C15.c', len(rets), 2, '(return False in push_execution)')
    for r in rets[:-1]:
        def exempt(e, pol):
            return pol and (norm(e) == 'module_context.is_builtins_module()' or norm(e) == "module_context.py__name__() == 'typing'")
        w = gate(pe, r.ast, exempt)
        chk.ob('C15.c', w is None, r.ast, 'an early "not limited" answer exists only for the builtins module / typing', 'unconditional or differently gated: %s' % w if w else '',
               key='early-return-false|L-order-%d' % rets.index(r))
    last = rets[-1]
    for lim in want:
        tests = [n for n in c.nodes if n.kind == 'test' and isinstance(n.ast, ast.Compare) and norm(n.ast.comparators[0]) == lim]
        if lim == 'recursion_limit' or not tests:
            pass
    # every non-exempt path to the final `return False` passed all four tests on their false edge
    for lim in want:
        tests = [n for n in c.nodes if n.kind == 'test' and isinstance(n.ast, ast.Compare) and norm(n.ast.comparators[0]) == lim]
        if tests:
            p = c.reach([c.entry], lambda n: n is last, block_node=lambda n: n in tests)
            chk.ob('C15.c', p is None, last.ast, 'the final "not limited" answer is only reached after the %s test' % lim, 'path: %s' % c.describe(p) if p else '')
    # counters are advanced
    ok = any(isinstance(s, ast.AugAssign) and norm(s.target) == 'self._execution_count' for s in stmts_in(pe, ast.AugAssign)) and \
        any(isinstance(s, ast.AugAssign) and norm(s.target) == 'self._funcdef_execution_counts[funcdef]' for s in stmts_in(pe, ast.AugAssign))
    chk.ob('C15.c', ok, pe, 'the total and per-function counters are incremented')
    # _limit_value_infers
    lv = repo.find(ST, '_limit_value_infers.wrapper')
    mx = [s for s in stmts_in(lv, ast.Assign) if norm(s.targets[0]) == 'maximum']
    ok = len(mx) == 1 and isinstance(mx[0].value, ast.Constant) and isinstance(mx[0].value.value, int) and mx[0].value.value > 0
    chk.ob('C15.c', ok, lv, 'the per-context inference cap is a positive constant', short(mx[0]) if mx else '')
    rn = [r for r in stmts_in(lv, ast.Return) if norm(r.value) == 'NO_VALUES']
    ok = len(rn) == 1 and gate(lv, rn[0], lambda e, pol: pol and isinstance(e, ast.Compare) and isinstance(e.ops[0], (ast.Gt, ast.GtE)) and norm(e.comparators[0]) == 'maximum') is None
    chk.ob('C15.c', ok, lv, 'above the cap the wrapper returns NO_VALUES instead of inferring')
    mul = [s for s in stmts_in(lv, ast.AugAssign) if norm(s.target) == 'maximum']
    for s in mul:
        w = gate(lv, s, lambda e, pol: pol and 'builtins_module' in norm(e))
        chk.ob('C15.c', w is None, s, 'the cap is only raised for the builtins module', w or '')
    inc = [s for s in stmts_in(lv, ast.AugAssign) if 'inferred_element_counts' in norm(s.target)]
    chk.ob('C15.c', len(inc) == 1, lv, 'every call counts')
    t = repo.find('jedi.inference.arguments', 'try_iter_content')
    ok = any(isinstance(x, ast.Compare) and norm(x.left) == 'depth' and isinstance(x.ops[0], (ast.Gt, ast.GtE)) and isinstance(x.comparators[0], ast.Constant) for x in own_nodes(t)) and \
        any(isinstance(c_, ast.Call) and call_name(c_) == 'try_iter_content' and 'depth + 1' in norm(c_) for c_ in calls_in(t))
    chk.ob('C15.c', ok, t, 'try_iter_content stops at a constant depth and passes depth + 1 down')
    ic = repo.find(ST, '_infer_comparison')
    ok = any(isinstance(x, ast.Compare) and 'len(left_values) * len(right_values)' in norm(x.left) and isinstance(x.ops[0], (ast.Gt, ast.GtE)) and isinstance(x.comparators[0], ast.Constant) for x in own_nodes(ic))
    chk.ob('C15.c', ok, ic, '_infer_comparison falls back above a constant number of operand combinations')
    inn = repo.find(ST, 'infer_node')
    ok = any(isinstance(x, ast.Compare) and 'len(name_dicts) * len(definitions)' in norm(x.left) and isinstance(x.ops[0], (ast.Gt, ast.GtE)) and isinstance(x.comparators[0], ast.Constant) for x in own_nodes(inn))
    chk.ob('C15.c', ok, inn, 'if-branch enumeration stops above a constant number of combinations')


def rule_d(repo, chk):
    chk.clause('C15.d', 'memoisation stores the default BEFORE computing: in _memoize_default the store of `default` dominates the call of the wrapped '
                        'function; in the generator cache the sentinel is appended before next() and replaced/removed after')
    w = repo.find('jedi.inference.cache', '_memoize_default.func.wrapper')
    c = cfg_of(w)
    calls = [n for n in c.nodes if node_has(n, lambda x: isinstance(x, ast.Call) and isinstance(x.func, ast.Name) and x.func.id == 'function')]
    stores = [n for n in c.nodes if isinstance(n.ast, ast.Assign) and norm(n.ast.targets[0]) == 'memo[key]' and norm(n.ast.value) == 'default']
    chk.ob('C15.d', len(calls) == 1 and len(stores) == 1, w, '_memoize_default has one default store and one call of the wrapped function')
    for cn in calls:
        def no_default(n, k, m):
            return n.kind == 'test' and norm(n.ast) == 'default is not _NO_DEFAULT' and k == 'F'
        p = c.reach([c.entry], lambda n: n is cn, block_node=lambda n: n in stores, block_edge=no_default)
        chk.ob('C15.d', p is None, cn.ast, 'whenever a default was given it is stored under the key before the function runs', 'path: %s' % c.describe(p) if p else '')
    hit = [r for r in stmts_in(w, ast.Return) if norm(r.value) == 'memo[key]']
    ok = len(hit) == 1 and gate(w, hit[0], lambda e, pol: pol and norm(e) == 'key in memo') is None
    chk.ob('C15.d', ok, w, 're-entry returns the stored entry')
    k = [s for s in stmts_in(w, ast.Assign) if norm(s.targets[0]) == 'key']
    ok = len(k) == 1 and norm(k[0].value) == '(obj, args, frozenset(kwargs.items()))'
    chk.ob('C15.d', ok, w, 'the memo key covers the object and all arguments')
    g = repo.find('jedi.inference.cache', 'inference_state_method_generator_cache.func.wrapper')
    cg = cfg_of(g)
    app = [n for n in cg.nodes if node_has(n, lambda x: isinstance(x, ast.Call) and call_name(x) == 'append' and norm(x.args[0]) == '_RECURSION_SENTINEL')]
    nxt = [n for n in cg.nodes if node_has(n, lambda x: isinstance(x, ast.Call) and isinstance(x.func, ast.Name) and x.func.id == 'next')]
    chk.ob('C15.d', len(app) == 1 and len(nxt) == 1, g, 'the generator cache appends the sentinel and advances the generator at one place each')
    if app and nxt:
        p = cg.reach([cg.entry], lambda n: n in nxt, block_node=lambda n: n in app)
        chk.ob('C15.d', p is None, nxt[0].ast, 'the recursion sentinel is in the list before the generator is advanced', 'path: %s' % cg.describe(p) if p else '')
        repl = [n for n in cg.nodes if (isinstance(n.ast, ast.Assign) and norm(n.ast.targets[0]) == 'cached_lst[-1]') or
                node_has(n, lambda x: isinstance(x, ast.Call) and call_name(x) == 'pop' and 'cached_lst' in norm(x.func))]
        ys = [n for n in cg.nodes if node_has(n, lambda x: isinstance(x, ast.Yield))]
        p = cg.reach(nxt, lambda n: n in ys or n is cg.exit, block_node=lambda n: n in repl, kinds={'n', 'T', 'F'})
        chk.ob('C15.d', p is None, nxt[0].ast, 'after advancing, the sentinel is replaced by the element or removed before anything is yielded/returned',
               'path: %s' % cg.describe(p) if p else '')
    sent = [r for r in stmts_in(g, ast.Return) if r.value is None]
    ok = any(gate(g, r, lambda e, pol: pol and norm(e) == 'next_element is _RECURSION_SENTINEL') is None for r in sent)
    chk.ob('C15.d', ok, g, 'meeting the sentinel ends the iteration (no further elements)')


def rule_e(repo, chk):
    chk.clause('C15.e', 'the interpreter recursion limit is raised at import time, for the life of the process (sys.setrecursionlimit with a '
                        'constant >= 3000 at module level of jedi/api/__init__.py, and nowhere lowered)')
    m = repo.module('jedi.api')
    top = [s for s in m.tree.body if isinstance(s, ast.Expr) and isinstance(s.value, ast.Call) and repo.resolve(s.value.func) == 'sys.setrecursionlimit']
    ok = len(top) == 1 and isinstance(top[0].value.args[0], ast.Constant) and top[0].value.args[0].value >= 3000
    chk.ob('C15.e', ok, top[0] if top else m.tree, 'sys.setrecursionlimit(>= 3000) is executed when jedi.api is imported',
           short(top[0]) if top else 'no module-level call')
    for c in repo.all_calls():
        if repo.resolve(c.func) == 'sys.setrecursionlimit':
            f = repo.enclosing_func(c)
            chk.ob('C15.e', f is None and c._mod.name == 'jedi.api', c, 'the recursion limit is only set at import of jedi.api (never per call, never restored/lowered: '
                   'lazily evaluated results run after the query method returned)', 'set inside %s' % repo.qual_of(c))
    chk.ob('C15.e', 'jedi.api' in repo.modules and any(isinstance(s, ast.ImportFrom) and s.module == 'jedi.api' for s in repo.module('jedi').tree.body), None,
           'importing jedi imports jedi.api', key='jedi-imports-api')


def rule_f(repo, chk):
    chk.clause('C15.f', 'INVENTORY: every directly recursive function of the package is triaged with its termination argument; a recursion over '
                        'name.goto()/infer() results (a graph that can be cyclic) must carry an accumulating seen/avoid parameter')
    found = {}
    for m, q, f in repo.funcs:
        for c in own_nodes(f):
            if isinstance(c, ast.Call):
                fn = c.func
                hit = False
                if isinstance(fn, ast.Name) and fn.id == f.name and repo.resolve(fn) == m.name + '.' + q:
                    hit = True
                if isinstance(fn, ast.Attribute) and fn.attr == f.name and isinstance(fn.value, ast.Name) and fn.value.id == 'self' and repo.method_class(f) is not None:
                    hit = True
                if hit:
                    found.setdefault((m.name, q), (f, c))
    n = 0
    for key, (f, c) in sorted(found.items()):
        kind = RECURSIVE.get(key)
        n += 1
        chk.ob('C15.f', kind is not None, c, 'recursive function %s is triaged (termination: %s)' % (key[1], kind or '?'),
               'UNLISTED direct recursion `%s`: state why it terminates' % short(c, 60), key='recursive|%s:%s' % key)
        if kind == 'S':
            # the recursive call must pass a strictly growing seen/avoid collection built from its own parameter
            ps = params(f)
            grows = False
            for a in list(c.args) + [k.value for k in c.keywords]:
                txt = norm(a)
                if isinstance(a, (ast.BinOp,)) and any(p in txt for p in ps[1:]) and isinstance(a.op, (ast.Add, ast.BitOr)):
                    grows = True
            skip = any(isinstance(x, ast.Compare) and isinstance(x.ops[0], ast.In) and norm(x.comparators[0]) in ps for x in own_nodes(f))
            chk.ob('C15.f', grows and skip, c, '%s passes an accumulating seen/avoid collection down and skips what is in it (cycles of any length end)' % key[1],
                   'recursive call: %s' % short(c, 80), key='seen-set|%s:%s' % key)
        if kind == 'D':
            ok = any(isinstance(x, ast.Compare) and norm(x.left) == 'depth' for x in own_nodes(f))
            chk.ob('C15.f', ok, f, '%s tests its depth parameter' % key[1])
    chk.floor('C15.f', n, 24, '(triaged recursive functions)')
    chk.exhaustive_rules.append('C15.f every function of the package scanned for direct self-calls')


# functions of the pinned tree that build values through the memoising constructor `create_cached` (one shared object per argument tuple
# and inference state): per-object caches (MRO, filters, execution results) only hit when the object is shared
CACHED_CONSTRUCTION = {
    ('jedi.inference.gradual.base', '_LazyGenericBaseClass.infer'): ('GenericClass', 'the wrappers of the bases of a subscripted class: without sharing, the MRO of a shared ancestor is recomputed once per inheritance path (exponential in stacked diamonds)'),
    ('jedi.inference.gradual.type_var', 'TypeVarClass.py__call__'): ('TypeVar', 'type variables'),
    ('jedi.inference.star_args', '_iter_nodes_for_param'): ('TreeArguments', 'argument objects of forwarding calls (the signature memoisation is keyed on them)'),
}


def rule_g(repo, chk):
    chk.clause('C15.g', 'memoising constructors stay memoising: where the pinned tree creates a value through <Class>.create_cached(..) (one shared '
                        'object per inference state and argument tuple, so that per-object caches hit) the class is not instantiated directly; '
                        'create_cached itself is memoised per inference state')
    n = 0
    for (m, q), (cls, why) in sorted(CACHED_CONSTRUCTION.items()):
        f = repo.find(m, q)
        cached = [c for c in calls_in(f, 'create_cached', nested=True) if norm(c.func.value).split('.')[-1] == cls]
        direct = [c for c in calls_in(f, cls, nested=True) if isinstance(c.func, ast.Name)]
        n += len(cached)
        chk.ob('C15.g', bool(cached) and not direct, f, '%s builds %s through create_cached only (%s)' % (q, cls, why),
               'direct construction: %s' % [short(d) for d in direct] if direct else 'no create_cached call left')
    chk.floor('C15.g', n, 3, '(create_cached call sites in the listed functions)')
    cc = repo.find('jedi.inference.base_value', '_ValueWrapperBase.create_cached')
    decs = [norm(d) for d in cc.decorator_list]
    ok = any('inference_state_as_method_param_cache' in d for d in decs) and any(d == 'classmethod' for d in decs)
    chk.ob('C15.g', ok, cc, 'create_cached is a classmethod memoised per inference state (inference_state_as_method_param_cache)', str(decs))


def rule_h(repo, chk):
    chk.clause('C15.h', 'the memo decorator stores EVERY result: in _memoize_default each path from the wrapped call to the return passes through '
                        '`memo[key] = rv` (a result equal to the recursion default is memoised like any other - recursions over base classes such as '
                        'get_metaclasses/is_typeddict are only bounded by it)')
    f = repo.find('jedi.inference.cache', '_memoize_default.func.wrapper')
    c = cfg_of(f)
    callst = [n for n in c.nodes if n.kind == 'stmt' and isinstance(n.ast, ast.Assign) and isinstance(n.ast.value, ast.Call) and norm(n.ast.value.func) == 'function']
    chk.floor('C15.h', len(callst), 1, 'the wrapped call in _memoize_default')
    for n in callst:
        rv = norm(n.ast.targets[0])
        stores = {m.id for m in c.nodes if m.kind == 'stmt' and isinstance(m.ast, ast.Assign) and isinstance(m.ast.targets[0], ast.Subscript)
                  and norm(m.ast.targets[0].value) == 'memo' and norm(m.ast.value) == rv}
        p_ = c.reach([n], lambda m: m is c.exit or (m.kind == 'stmt' and isinstance(m.ast, ast.Return)), block_node=lambda m: m.id in stores, kinds={'n', 'T', 'F'})
        chk.ob('C15.h', p_ is None and bool(stores), n.ast, 'the result of the wrapped call is stored in the memo table on every path to the return',
               'path: %s' % c.describe(p_) if p_ else '')
    pops = [x for x in calls_in(f) if call_name(x) in ('pop', 'clear') and norm(x.func.value) == 'memo'] + [x for x in own_nodes(f) if isinstance(x, ast.Delete) and 'memo' in norm(x)]
    chk.ob('C15.h', not pops, f, 'nothing is removed from the memo table', str([short(x) for x in pops]))


def describe(chk):
    chk.undecided('the polynomial bound and termination for all programs; indirect (mutual) recursion between different functions, which is what the '
                  'budgets of C15.a-c are for; RecursionError inside parso')
    chk.assume('termination class T (tree/data descent) is asserted by reading, not proved')


RULES = [('C15.a', rule_a), ('C15.b', rule_b), ('C15.c', rule_c), ('C15.d', rule_d), ('C15.e', rule_e), ('C15.f', rule_f), ('C15.g', rule_g), ('C15.h', rule_h)]
