"""Reference path summaries (lib.path_summaries) of small functions whose exact behaviour IS a clause of a property: generated from
the pinned tree by tools/mksummaries.py into sa/reference_summaries.json, compared on every run.  A summary is independent of how the
function is written (temporaries, guard clauses, swapped branches, conditional expressions), so equality means "computes the same
thing on the same conditions"."""
import json
import os

from .lib import path_summaries, summary_text

REF = os.path.join(os.path.dirname(os.path.abspath(__file__)), 'reference_summaries.json')

# (module, qualified name): why the exact input/output behaviour of this function is part of a property
SUMMARISED = {
    ('jedi.api.classes', 'BaseName.line'): 'C17: the reported line is the first component of the name\'s own start_pos',
    ('jedi.api.classes', 'BaseName.column'): 'C17: the reported column is the second component of the name\'s own start_pos',
    ('jedi.api.classes', 'BaseName.get_definition_start_position'): 'C17: definition start = start of the defining node (the name\'s own position without one)',
    ('jedi.api.classes', 'BaseName.get_definition_end_position'): 'C17: definition end = end of the defining node; the newline that ends a def/class suite is excluded',
    ('jedi.api.classes', 'Name.is_definition'): 'C17: is_definition() is the token\'s own is_definition(); names without a token are definitions',
    ('jedi.inference.filters', 'ParserTreeFilter._filter'): 'C03: a per-scope filter answers with the names before the position (super()._filter), of its own scope (_is_name_reachable), latest reachable first (_check_flows) - composed in this order',
    ('jedi.inference.filters', 'AbstractFilter._filter'): 'C03: with a position limit only names that START before it are kept (strictly); without one all names',
    ('jedi.inference.value.instance', 'SelfAttributeFilter._is_in_right_scope'): 'C04: a `self.x = ...` is an attribute of the instance exactly when its receiver resolves (goto) to the first parameter of a function of this class - closures nested in a method included; nothing else decides',
    ('jedi.api.refactoring.extract', '_get_indentation'): 'C07: the indentation given to a replacement statement is the text of the original indentation (last line of the first leaf\'s prefix), not a re-synthesised string',
    ('jedi.inference.star_args', '_goes_to_param_name'): 'C11: a `*args`/`**kwargs` usage forwards the wrapper\'s own parameter only if goto on that very name leads back to the parameter (a re-bound `kwargs` is not a pass-through); no syntactic shortcut',
    ('jedi.api.project', 'Project.load'): 'C20: load accepts exactly the version that save writes and builds the project from the stored settings',
}
_cache = None


def reference():
    global _cache
    if _cache is None:
        _cache = json.load(open(REF)) if os.path.exists(REF) else {}
    return _cache


def compute(repo, mod, qual):
    f = repo.find(mod, qual)
    s = path_summaries(f)
    return f, (summary_text(s) if s is not None else None)


def check_summary(repo, chk, rule, mod, qual):
    """obligation: the function computes what the pinned function computes (path summary equality)"""
    from .core import AnchorError
    f, cur = compute(repo, mod, qual)
    ref = reference().get('%s:%s' % (mod, qual))
    if ref is None:
        raise AnchorError('no reference summary for %s:%s (run tools/mksummaries.py on the pinned tree)' % (mod, qual))
    why = SUMMARISED[(mod, qual)]
    if cur is None:
        chk.ob(rule, False, f, '%s computes what the pinned function computes (%s)' % (qual, why), 'the function is no longer loop-free: not summarised',
               key='summary|%s:%s' % (mod, qual))
        return False
    missing = [l for l in ref if l not in cur]
    extra = [l for l in cur if l not in ref]
    return chk.ob(rule, not missing and not extra, f, '%s computes what the pinned function computes (%s): %d path(s)' % (qual, why, len(ref)),
                  'paths gone: %s; paths new: %s' % (missing[:3], extra[:3]), key='summary|%s:%s' % (mod, qual))
