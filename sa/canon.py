"""Canonicalisation of behaviour-preserving refactorings, applied to a module tree before the rules run.

The rules of this checker name functions and locals of the pinned tree and often read a statement's text.  A refactoring that
moves text around without changing behaviour must not change a verdict, so every module is compared with a reference table of the
pinned tree (sa/reference_locals.json: locals per function, and under "__functions__" every function with a shape fingerprint) and
three kinds of edits are undone on the syntax tree (never on disk):

  C. a private function of the reference that disappeared while exactly one NEW function of the same shape appeared (same enclosing
     class/module) is renamed back, together with its references in the module;
  B. a NEW module-level function that is called from exactly one place (and not referenced otherwise) is inlined into its caller -
     "extract function" undone.  Early returns are kept by wrapping the body in a one-pass loop (`for _once in (None,): ...; T = E; break`),
     which has the same control flow for the CFG rules;
  A. a NEW local that is bound exactly once to a side-effect-free expression (or is used exactly once, in the next statement) is
     substituted at its uses - "introduce temporary" undone (this subsumes the return-through-a-temporary case).

Renames of locals are undone afterwards by locals_ref.normalise.  Everything that does not match these exact patterns is left alone:
the rules then see the tree as it is (and may report it)."""
import ast
import copy

FUNC = (ast.FunctionDef, ast.AsyncFunctionDef)


# ------------------------------------------------------------------------------------------------ helpers
def _own(func):
    todo = list(ast.iter_child_nodes(func))
    while todo:
        n = todo.pop()
        yield n
        if isinstance(n, FUNC + (ast.ClassDef, ast.Lambda)):
            continue
        todo.extend(ast.iter_child_nodes(n))


def functions_of(tree):
    out = []

    def rec(node, qual):
        for ch in ast.iter_child_nodes(node):
            if isinstance(ch, FUNC + (ast.ClassDef,)):
                q = (qual + '.' if qual else '') + ch.name
                if isinstance(ch, FUNC):
                    out.append((q, ch))
                rec(ch, q)
            else:
                rec(ch, qual)
    rec(tree, '')
    return out


def _strip_doc(body):
    body = [s for s in body if not isinstance(s, ast.Pass)]
    if body and isinstance(body[0], ast.Expr) and isinstance(body[0].value, ast.Constant) and isinstance(body[0].value.value, str):
        body = body[1:]
    return body


class _Anon(ast.NodeTransformer):
    def visit_Name(self, node):
        return ast.copy_location(ast.Name(id='_', ctx=node.ctx), node)

    def visit_arg(self, node):
        node.arg = '_'
        node.annotation = None
        return node


def shape(func):
    """structure of a function with every identifier abstracted (attribute names and constants stay): survives renames of the function,
    its parameters and locals, added docstrings/`pass`/type hints"""
    f = copy.deepcopy(func)
    f.name = '_'
    f.returns = None
    f.decorator_list = []
    for n in ast.walk(f):
        if isinstance(n, FUNC):
            n.body = _strip_doc(n.body) or [ast.Pass()]
        if isinstance(n, ast.AnnAssign) and n.value is not None:
            pass
    f = _Anon().visit(f)
    ast.fix_missing_locations(f)
    try:
        return ast.unparse(f)
    except Exception:
        return ast.dump(f)


def build_function_reference(modules):
    return {m: {q: shape(f) for q, f in functions_of(t)} for m, t in modules.items()}


def build_module_names_reference(modules):
    """module-level names bound by assignment in the reference modules (to tell NEW constants from old ones)"""
    out = {}
    for m, t in modules.items():
        names = set()
        for st in t.body:
            for n in ast.walk(st) if isinstance(st, (ast.Assign, ast.AnnAssign, ast.AugAssign)) else []:
                if isinstance(n, ast.Name) and isinstance(n.ctx, ast.Store):
                    names.add(n.id)
        out[m] = sorted(names) or ['__none__']
    return out


# ------------------------------------------------------------------------------------------------ C: renamed functions
def _rename_functions_back(tree, ref_funcs, done):
    present = dict(functions_of(tree))
    missing = [q for q in ref_funcs if q not in present]
    extra = [q for q in present if q not in ref_funcs]
    if not missing or not extra:
        return
    for m in missing:
        prefix = m.rpartition('.')[0]
        cands = [e for e in extra if e.rpartition('.')[0] == prefix and shape(present[e]) == ref_funcs[m]]
        if len(cands) != 1:
            continue
        new, old = cands[0].rpartition('.')[2], m.rpartition('.')[2]
        if any(isinstance(n, ast.Name) and n.id == old for n in ast.walk(tree)) or \
                any(isinstance(n, ast.Attribute) and n.attr == old for n in ast.walk(tree)):
            continue            # the old name is still in use for something else
        present[cands[0]].name = old
        for n in ast.walk(tree):
            if isinstance(n, ast.Name) and n.id == new:
                n.id = old
            elif isinstance(n, ast.Attribute) and n.attr == new and prefix:
                n.attr = old
        extra.remove(cands[0])
        done.append((m, new, '<function renamed back to %s>' % old))


# ------------------------------------------------------------------------------------------------ C2: closures lifted to module level
def _renest_lifted_closures(tree, ref_funcs, done):
    """The pinned tree has a function nested in P that is gone, and a NEW module-level function has its body with MORE parameters
    ("closure moved to module level, captured variables passed in"): when every call passes, for each added parameter, the variable of
    P with the parameter's role (one plain name, the same at every call, a local or parameter of P), the function is nested again
    under its old name and reads those variables from P as before."""
    present = dict(functions_of(tree))
    missing = [q for q in ref_funcs if q not in present and '.' in q]
    if not missing:
        return
    for m in missing:
        pq, _, old = m.rpartition('.')
        parent = present.get(pq)
        if parent is None or not isinstance(parent, FUNC):
            continue
        ref_shape = ref_funcs[m]
        rhead, _, rbody = ref_shape.partition('\n')
        n_ref = rhead.count('_') - 1 if rhead.startswith('def _(') else None
        for e_q, e in list(present.items()):
            if e_q in ref_funcs or '.' in e_q or e not in tree.body or e.decorator_list:
                continue
            sh = shape(e)
            ehead, _, ebody = sh.partition('\n')
            if ebody != rbody or not ehead.startswith('def _(') or n_ref is None:
                continue
            a = e.args
            if a.vararg or a.kwarg or a.kwonlyargs or a.posonlyargs or a.defaults:
                continue
            params = [x.arg for x in a.args]
            need = len(params) - n_ref
            if need <= 0:
                continue
            refs = [n for n in ast.walk(tree) if isinstance(n, ast.Name) and n.id == e.name]
            calls = [c for c in ast.walk(parent) if isinstance(c, ast.Call) and any(c.func is r for r in refs)]
            if not refs or len(calls) != len(refs):
                continue        # used elsewhere or not only called
            if any(c.keywords or len(c.args) != len(params) or any(isinstance(x, ast.Starred) for x in c.args) for c in calls):
                continue
            stored_in_e = {n.id for n in ast.walk(e) if isinstance(n, ast.Name) and isinstance(n.ctx, (ast.Store, ast.Del))}
            parent_names = {n.id for n in _own(parent) if isinstance(n, ast.Name)} | {x.arg for x in parent.args.args + parent.args.kwonlyargs}
            qualifying = []
            for i, p_ in enumerate(params):
                args_i = [c.args[i] for c in calls]
                if p_ in stored_in_e or not all(isinstance(x, ast.Name) for x in args_i) or len({x.id for x in args_i}) != 1:
                    continue
                if args_i[0].id not in parent_names:
                    continue
                qualifying.append((i, p_, args_i[0].id))
            same_name = [t for t in qualifying if t[1] == t[2]]
            chosen = same_name if len(same_name) == need else (qualifying if len(qualifying) == need else None)
            if chosen is None:
                continue
            if old in {n.id for n in ast.walk(parent) if isinstance(n, ast.Name)}:
                continue
            idx = {i for i, _p, _v in chosen}
            ren = {p_: v for _i, p_, v in chosen if p_ != v}
            # a captured variable must not be shadowed by another name of the lifted function
            inner_names = _all_names(e) - {p_ for _i, p_, _v in chosen}
            if any(v in inner_names for _i, _p, v in chosen if _p != v):
                continue
            e.args.args = [x for i, x in enumerate(e.args.args) if i not in idx]
            if ren:
                _Rename(ren).visit(e)
            e.name = old
            for c in calls:
                c.args = [x for i, x in enumerate(c.args) if i not in idx]
                c.func.id = old
            tree.body.remove(e)
            body = parent.body
            at = 1 if body and isinstance(body[0], ast.Expr) and isinstance(body[0].value, ast.Constant) and isinstance(body[0].value.value, str) else 0
            first_line = getattr(body[at], 'lineno', parent.lineno) if at < len(body) else parent.lineno
            for x in ast.walk(e):
                if hasattr(x, 'lineno'):
                    x.lineno = first_line
                    x.end_lineno = first_line
            body.insert(at, e)
            done.append((pq, e_q, '<module-level function nested again as %s (captured: %s)>' % (old, ', '.join(v for _i, _p, v in chosen))))
            present = dict(functions_of(tree))
            break


# ------------------------------------------------------------------------------------------------ D: new module-level constants
class _Subst(ast.NodeTransformer):
    def __init__(self, name, value):
        self.name, self.value, self.n = name, value, 0

    def visit_Name(self, node):
        if node.id == self.name and isinstance(node.ctx, ast.Load):
            self.n += 1
            return ast.copy_location(copy.deepcopy(self.value), node)
        return node


def _is_literal(e):
    if isinstance(e, ast.Constant):
        return True
    if isinstance(e, (ast.Tuple, ast.List, ast.Set)):
        return all(_is_literal(x) for x in e.elts)
    if isinstance(e, ast.UnaryOp) and isinstance(e.op, ast.USub) and isinstance(e.operand, ast.Constant):
        return True
    return False


_RE_FUNCS = ('search', 'match', 'fullmatch', 'sub', 'subn', 'split', 'findall', 'finditer')


def _is_re_compile(e):
    return isinstance(e, ast.Call) and ast.unparse(e.func) == 're.compile' and not e.keywords and len(e.args) in (1, 2) \
        and isinstance(e.args[0], ast.Constant) and (len(e.args) == 1 or all(isinstance(x, (ast.Name, ast.Attribute, ast.BinOp, ast.BitOr, ast.Load))
                                                                          for x in ast.walk(e.args[1])))


def _inline_new_constants(tree, ref_consts, done):
    """a module-level name the reference module does not have, bound once to a literal (tuple of strings, number, string) and never
    re-bound or mutated: its uses read as the literal again ("magic value moved into a constant" undone)"""
    cands = {}
    for st in tree.body:
        if isinstance(st, ast.Assign) and len(st.targets) == 1 and isinstance(st.targets[0], ast.Name) and \
                (_is_literal(st.value) or _is_re_compile(st.value)):
            nm = st.targets[0].id
            if nm not in ref_consts and not nm.startswith('__'):
                cands[nm] = st
    for nm, st in list(cands.items()):
        stores = [n for n in ast.walk(tree) if isinstance(n, ast.Name) and n.id == nm and isinstance(n.ctx, (ast.Store, ast.Del))]
        glob = [n for n in ast.walk(tree) if isinstance(n, ast.Global) and nm in n.names]
        attr_use = [n for n in ast.walk(tree) if isinstance(n, ast.Attribute) and isinstance(n.value, ast.Name) and n.value.id == nm]
        if len(stores) != 1 or glob or isinstance(st.value, (ast.List, ast.Set)):
            continue
        if _is_re_compile(st.value):
            # a pattern moved into a pre-compiled module constant: `NAME.search(text)` reads as `re.search(<pattern>, text)` again
            loads = [n for n in ast.walk(tree) if isinstance(n, ast.Name) and n.id == nm and isinstance(n.ctx, ast.Load)]
            calls = [c for c in ast.walk(tree) if isinstance(c, ast.Call) and isinstance(c.func, ast.Attribute) and c.func.value in loads
                     and c.func.attr in _RE_FUNCS and not c.keywords and not any(isinstance(x, ast.Starred) for x in c.args)]
            if not loads or len(calls) != len(loads):
                continue
            for c in calls:
                c.func.value = ast.copy_location(ast.Name(id='re', ctx=ast.Load()), c.func.value)
                c.args = [copy.deepcopy(st.value.args[0])] + c.args
                if len(st.value.args) == 2:
                    c.keywords = [ast.keyword(arg='flags', value=copy.deepcopy(st.value.args[1]))]
                for x in ast.walk(c.args[0]):
                    ast.copy_location(x, c)
                ast.fix_missing_locations(c)
            tree.body.remove(st)
            done.append(('<module>', nm, '<new pre-compiled pattern constant read as re.<function>(pattern, ...) at its %d use(s)>' % len(calls)))
            continue
        if attr_use:
            continue
        sub = _Subst(nm, st.value)
        for i, t in enumerate(tree.body):
            if t is not st:
                tree.body[i] = sub.visit(t)
        if sub.n:
            tree.body.remove(st)
            done.append(('<module>', nm, '<new module constant substituted at its %d use(s)>' % sub.n))


# ------------------------------------------------------------------------------------------------ B: extracted helpers
def _all_names(node):
    out = set()
    for n in ast.walk(node):
        if isinstance(n, ast.Name):
            out.add(n.id)
        elif isinstance(n, ast.arg):
            out.add(n.arg)
        elif isinstance(n, ast.ExceptHandler) and n.name:
            out.add(n.name)
    return out


class _Rename(ast.NodeTransformer):
    def __init__(self, mapping):
        self.mapping = mapping

    def visit_Name(self, node):
        if node.id in self.mapping:
            node.id = self.mapping[node.id]
        return node

    def visit_ExceptHandler(self, node):
        if node.name in self.mapping:
            node.name = self.mapping[node.name]
        self.generic_visit(node)
        return node


def _own_returns(body):
    out = []
    for s in body:
        for n in ([s] + list(_own(s)) if not isinstance(s, FUNC + (ast.ClassDef,)) else []):
            if isinstance(n, ast.Return):
                out.append(n)
    return out


def _tail_return(body):
    """the `return` in tail position of a statement list: its last statement, or the tail of the body of a last `try` without `else`
    whose handlers all end by raising (then `finally` runs and control leaves the list either way), or of a last `with`"""
    if not body:
        return None
    last = body[-1]
    if isinstance(last, ast.Return):
        return last
    if isinstance(last, ast.Try) and not last.orelse and all(h.body and isinstance(h.body[-1], ast.Raise) for h in last.handlers):
        return _tail_return(last.body)
    if isinstance(last, ast.With):
        return _tail_return(last.body)
    return None


def _replace_returns(stmts, make):
    """replace every own `return E` in the statement list by the statements make(E)"""
    def rec(lst):
        out = []
        for s in lst:
            if isinstance(s, ast.Return):
                out.extend(make(s.value))
                continue
            if not isinstance(s, FUNC + (ast.ClassDef,)):
                for field in ('body', 'orelse', 'finalbody'):
                    sub = getattr(s, field, None)
                    if isinstance(sub, list) and sub and isinstance(sub[0], ast.stmt):
                        setattr(s, field, rec(sub))
                if isinstance(s, ast.Try):
                    for h in s.handlers:
                        h.body = rec(h.body)
                if hasattr(ast, 'Match') and isinstance(s, getattr(ast, 'Match')):
                    for c in s.cases:
                        c.body = rec(c.body)
            out.append(s)
        return out
    return rec(stmts)


def _fold_returns(stmts, env=None):
    """a loop-free helper body made of pure temporaries, `if T: return A` guards and a final `return E` as ONE expression
    (`A if T else E`, nested); None when the body has any other statement.  Exactly equivalent: tests and results are evaluated in
    the same order and under the same conditions as in the statement form."""
    env = dict(env or {})

    def sub(e):
        e = copy.deepcopy(e)

        class _S(ast.NodeTransformer):
            def visit_Name(self, node):
                if isinstance(node.ctx, ast.Load) and node.id in env:
                    return ast.copy_location(copy.deepcopy(env[node.id]), node)
                return node
        return _S().visit(e)
    if not stmts:
        return None
    st, rest = stmts[0], stmts[1:]
    if isinstance(st, ast.Return):
        return sub(st.value) if st.value is not None else ast.Constant(value=None)
    if isinstance(st, ast.Assign) and len(st.targets) == 1 and isinstance(st.targets[0], ast.Name):
        nm = st.targets[0].id
        val = sub(st.value)
        later_stores = [x for r in rest for x in ast.walk(r) if isinstance(x, ast.Name) and x.id == nm and isinstance(x.ctx, (ast.Store, ast.Del))]
        reads = {x.id for x in ast.walk(val) if isinstance(x, ast.Name)}
        if later_stores or not _is_pure_attr_chain(val) or any(isinstance(x, ast.Name) and x.id in reads and isinstance(x.ctx, (ast.Store, ast.Del))
                                                           for r in rest for x in ast.walk(r)):
            return None
        env[nm] = val
        return _fold_returns(rest, env)
    if isinstance(st, ast.If):
        then = _fold_returns(st.body, env)
        if then is None:
            return None
        other = _fold_returns(st.orelse, env) if st.orelse else _fold_returns(rest, env)
        if other is None:
            return None
        if st.orelse and rest:
            return None
        e = ast.IfExp(test=sub(st.test), body=then, orelse=other)
        return e
    return None


def _is_pure_attr_chain(e):
    """names, attribute chains, constants, subscripts of those and `.index(<constant>)` of a sequence: reading them later (or twice)
    gives what reading them now gives, as long as nothing they read is re-bound in between (checked by the caller)"""
    for x in ast.walk(e):
        if isinstance(x, (ast.Name, ast.Attribute, ast.Constant, ast.Load, ast.Subscript, ast.BinOp, ast.Add, ast.Sub)):
            continue
        if isinstance(x, ast.Call) and isinstance(x.func, ast.Attribute) and x.func.attr == 'index' and len(x.args) == 1 and not x.keywords \
                and isinstance(x.args[0], ast.Constant):
            continue
        return False
    return True


# ------------------------------------------------------------------------------------------------ B2: extracted generators / context managers
def _inline_new_yielders(tree, ref_funcs, done):
    """A NEW function with exactly one `yield` statement that is used only as `with helper(args):` (decorated @contextmanager) or only as
    the iterable of `for X in helper(args):` loops (a plain generator; loop bodies without break/continue/else): its body replaces the
    statement, with the caller's block in the place of the `yield` (`X = <yielded value>` in front of it for a loop).  That is the run
    the interpreter performs: the helper runs to its yield, the block runs, the helper resumes; `finally` clauses around the yield are
    entered on every way out of the block in both forms."""
    cands = [(n, None, tree.body) for n in tree.body if isinstance(n, ast.FunctionDef)]
    for cls in [n for n in ast.walk(tree) if isinstance(n, ast.ClassDef)]:
        cands += [(n, cls, cls.body) for n in cls.body if isinstance(n, ast.FunctionDef)]
    quals = {id(f): q for q, f in functions_of(tree)}
    for helper, cls, home in cands:
        if quals.get(id(helper)) in ref_funcs:
            continue
        decs = [ast.unparse(d).split('.')[-1] for d in helper.decorator_list]
        is_cm = decs == ['contextmanager']
        if decs and not is_cm:
            continue
        a = helper.args
        if a.vararg or a.kwarg or a.kwonlyargs or a.posonlyargs or a.defaults:
            continue
        if cls is not None and (not a.args or a.args[0].arg != 'self'):
            continue
        own = list(_own(helper))
        if any(isinstance(n, ast.Return) and n.value is not None for n in own) or any(isinstance(n, FUNC + (ast.Lambda, ast.ClassDef, ast.Global, ast.Nonlocal, ast.Await)) for n in own):
            continue
        # guard clauses of the helper (`if c: ...; return`) are written as if/else first: a bare return must leave only the helper
        helper_body = _unguard(copy.deepcopy(_strip_doc(helper.body)))
        own = [n for st_ in helper_body for n in [st_] + list(_own(st_))]
        if any(isinstance(n, ast.Return) for n in own):
            continue
        ys = [n for n in own if isinstance(n, (ast.Yield, ast.YieldFrom))]
        if not 1 <= len(ys) <= 2 or not all(isinstance(y, ast.Yield) for y in ys):
            continue
        ystmt = [n for n in own if isinstance(n, ast.Expr) and any(n.value is y for y in ys)]
        if len(ystmt) != len(ys):
            continue
        if len(ys) > 1 and any(isinstance(n, (ast.For, ast.While)) for n in own):
            continue        # several yields are taken as alternatives (one per path), not as a sequence
        if cls is None:
            refs = [n for n in ast.walk(tree) if isinstance(n, ast.Name) and n.id == helper.name]
        else:
            refs = [n for n in ast.walk(tree) if isinstance(n, ast.Attribute) and n.attr == helper.name]
            if any(not (isinstance(r.value, ast.Name) and r.value.id == 'self' and any(x is r for x in ast.walk(cls))) for r in refs):
                continue
        if not 1 <= len(refs) <= 6:
            continue
        sites = []
        for q, f in functions_of(tree):
            if f is helper:
                continue
            for lst in _blocks(f):
                for i, st in enumerate(lst):
                    call = None
                    if is_cm and isinstance(st, ast.With) and len(st.items) == 1 and st.items[0].optional_vars is None \
                            and isinstance(st.items[0].context_expr, ast.Call):
                        call = st.items[0].context_expr
                    elif not is_cm and isinstance(st, ast.For) and not st.orelse and isinstance(st.target, ast.Name) and isinstance(st.iter, ast.Call):
                        call = st.iter
                    if call is not None and any(call.func is r for r in refs):
                        sites.append((f, lst, st, call))
        if len(sites) != len(refs):
            continue
        ok_all = True
        plans = []
        for caller, lst, st, call in sites:
            params = [x.arg for x in a.args]
            if cls is not None:
                params = params[1:]
                if not (caller.args.args and caller.args.args[0].arg == 'self'):
                    ok_all = False
                    break
            if len(call.args) + len(call.keywords) != len(params) or any(k.arg is None for k in call.keywords) or any(isinstance(x, ast.Starred) for x in call.args):
                ok_all = False
                break
            bind = dict(zip(params, call.args))
            for k in call.keywords:
                if k.arg not in params or k.arg in bind:
                    ok_all = False
                bind[k.arg] = k.value
            if not ok_all or set(bind) != set(params):
                ok_all = False
                break
            if not is_cm:
                # break/continue of THIS loop in its body: the loop would not be the helper's loop any more
                def own_jumps(stmts):
                    for x in stmts:
                        if isinstance(x, (ast.Break, ast.Continue)):
                            yield x
                        if isinstance(x, (ast.For, ast.While) + FUNC + (ast.ClassDef,)):
                            continue
                        for field in ('body', 'orelse', 'finalbody'):
                            sub = getattr(x, field, None)
                            if isinstance(sub, list) and sub and isinstance(sub[0], ast.stmt):
                                yield from own_jumps(sub)
                        if isinstance(x, ast.Try):
                            for h in x.handlers:
                                yield from own_jumps(h.body)
                jumps = list(own_jumps(st.body))
                if jumps:
                    # `continue` is harmless when the helper's single yield is the last thing an iteration of the helper's own
                    # innermost loop does (resuming the generator only moves on to the next iteration: that is what `continue` of
                    # the merged loop does); `break` needs, in addition, that nothing of the helper follows that loop
                    tail = _yield_tail(helper_body, ystmt[0]) if len(ystmt) == 1 else None
                    if tail is None or (any(isinstance(j, ast.Break) for j in jumps) and tail != 'last'):
                        ok_all = False
                        break
            plans.append((caller, lst, st, call, bind))
        if not ok_all:
            continue
        for caller, lst, st, call, bind in plans:
            body = copy.deepcopy(helper_body)
            stored = {n.id for s_ in body for n in ast.walk(s_) if isinstance(n, ast.Name) and isinstance(n.ctx, (ast.Store, ast.Del))}
            caller_names = _all_names(caller)
            mapping = {}
            # the helper yields one of its own variables and the loop receives it in T: the two are ONE variable of the merged loop
            # when T lives only in this loop, is not re-bound by the block, and the helper has no other use for the name T
            same = None
            if not is_cm and len(ys) == 1 and isinstance(ys[0].value, ast.Name) and ys[0].value.id in stored - set(bind):
                T = st.target.id
                in_st = sum(1 for x in ast.walk(st) if isinstance(x, ast.Name) and x.id == T)
                in_caller = sum(1 for x in ast.walk(caller) if isinstance(x, ast.Name) and x.id == T)
                blk_stores = any(isinstance(x, ast.Name) and x.id == T and isinstance(x.ctx, (ast.Store, ast.Del)) for b_ in st.body for x in ast.walk(b_))
                helper_names = {x.id for s_ in body for x in ast.walk(s_) if isinstance(x, ast.Name)}
                v = ys[0].value.id
                if in_st == in_caller and not blk_stores and (T == v or T not in helper_names):
                    same = v
                    mapping[v] = T
            for nm in stored - set(bind):
                if nm in caller_names and nm != same:
                    mapping[nm] = nm + '__inl'
            pre = []
            for p_, arg in bind.items():
                if isinstance(arg, ast.Name) and p_ not in stored:
                    mapping[p_] = arg.id
                else:
                    tgt = p_ if p_ not in caller_names else p_ + '__inl'      # a parameter the helper re-binds never aliases a caller's name
                    if tgt != p_:
                        mapping[p_] = tgt
                    pre.append(ast.Assign(targets=[ast.Name(id=tgt, ctx=ast.Store())], value=copy.deepcopy(arg)))
            ren = _Rename(mapping)
            body = [ren.visit(s_) for s_ in body]
            block = list(st.body)
            used_block = [False]

            def put(stmts):
                out = []
                for x in stmts:
                    if isinstance(x, ast.Expr) and isinstance(x.value, ast.Yield):
                        if not is_cm:
                            v = x.value.value if x.value.value is not None else ast.Constant(value=None)
                            if ast.unparse(v) != st.target.id:
                                out.append(ast.Assign(targets=[ast.Name(id=st.target.id, ctx=ast.Store())], value=v))
                        out.extend(block if not used_block[0] else copy.deepcopy(block))
                        used_block[0] = True
                        continue
                    for field in ('body', 'orelse', 'finalbody'):
                        sub = getattr(x, field, None)
                        if isinstance(sub, list) and sub and isinstance(sub[0], ast.stmt):
                            setattr(x, field, put(sub))
                    if isinstance(x, ast.Try):
                        for h in x.handlers:
                            h.body = put(h.body)
                    out.append(x)
                return out
            keep = {id(y) for b_ in block for y in ast.walk(b_)}
            new = pre + put(body)
            for n in new:
                for x in ast.walk(n):
                    if id(x) in keep:
                        continue
                    if hasattr(x, 'lineno') or isinstance(x, (ast.stmt, ast.expr)):
                        x.lineno = st.lineno
                        x.end_lineno = getattr(st, 'lineno', st.lineno)
                        x.col_offset = getattr(st, 'col_offset', 0)
                        x.end_col_offset = getattr(st, 'col_offset', 0)
                ast.fix_missing_locations(n)
            i = next(k for k, t in enumerate(lst) if t is st)
            lst[i:i + 1] = new
            done.append((caller.name, helper.name, '<new %s inlined around the block it served>' % ('context manager' if is_cm else 'generator')))
        home.remove(helper)


def _yield_tail(body, ystmt):
    """None, 'tail' or 'last': the yield statement is in tail position of an iteration of the innermost loop around it (only `if`
    arms between the loop body and the yield, each time as the last statement); 'last' when that loop is also the last top-level
    statement of the helper."""
    def find(stmts, chain):
        for i, x in enumerate(stmts):
            if x is ystmt:
                return chain + [(stmts, i, x)]
            subs = []
            for field in ('body', 'orelse', 'finalbody'):
                sub = getattr(x, field, None)
                if isinstance(sub, list) and sub and isinstance(sub[0], ast.stmt):
                    subs.append(sub)
            if isinstance(x, ast.Try):
                subs += [h.body for h in x.handlers]
            for sub in subs:
                r = find(sub, chain + [(stmts, i, x)])
                if r:
                    return r
        return None
    chain = find(body, [])
    if not chain:
        return None
    # walk upwards from the yield to the innermost loop
    k = len(chain) - 1
    while k >= 0:
        stmts, i, x = chain[k]
        if k < len(chain) - 1 and isinstance(x, (ast.For, ast.While)):
            inner = chain[k + 1][0]
            if inner is not x.body:
                return None
            top_last = k == 0 and i == len(stmts) - 1
            return 'last' if top_last else 'tail'
        if k < len(chain) - 1 and not isinstance(x, ast.If):
            return None
        if i != len(stmts) - 1:
            return None
        k -= 1
    return None


def _unguard(stmts):
    """`if c: A; return` + REST  ->  `if c: A else: REST` (recursively): the same paths, no bare return"""
    for i, st in enumerate(stmts):
        if isinstance(st, ast.If) and not st.orelse and st.body and isinstance(st.body[-1], ast.Return) and st.body[-1].value is None \
                and not any(isinstance(x, ast.Return) for b_ in st.body[:-1] for x in ast.walk(b_)):
            rest = _unguard(stmts[i + 1:])
            new_if = ast.If(test=st.test, body=st.body[:-1] or [ast.Pass()], orelse=rest)
            ast.copy_location(new_if, st)
            return stmts[:i] + [new_if]
    if stmts and isinstance(stmts[-1], ast.Return) and stmts[-1].value is None:
        return stmts[:-1] or [ast.Pass()]
    return stmts


def _first_evaluated(root, target):
    """is `target` (a call inside the expression root) evaluated before anything else in root that could have an effect?  Then
    computing it in a statement of its own just before is the same run."""
    simple = lambda e: all(isinstance(x, (ast.Name, ast.Attribute, ast.Constant, ast.Load)) for x in ast.walk(e))

    def path_to(node):
        if node is target:
            return [node]
        for ch in ast.iter_child_nodes(node):
            p_ = path_to(ch)
            if p_:
                return [node] + p_
        return None
    path = path_to(root)
    if not path:
        return False
    for parent, child in zip(path, path[1:]):
        if isinstance(parent, ast.Call):
            order = [parent.func] + list(parent.args) + list(parent.keywords)
        elif isinstance(parent, ast.keyword):
            order = [parent.value]
        elif isinstance(parent, ast.BinOp):
            order = [parent.left, parent.right]
        elif isinstance(parent, ast.UnaryOp) and not isinstance(parent.op, ast.Not):
            order = [parent.operand]
        elif isinstance(parent, (ast.Tuple, ast.List)):
            order = list(parent.elts)
        elif isinstance(parent, ast.Starred):
            order = [parent.value]
        elif isinstance(parent, ast.Attribute):
            order = [parent.value]
        elif isinstance(parent, ast.Subscript):
            order = [parent.value, parent.slice]
        else:
            return False            # conditional or deferred evaluation (and/or, if-expression, lambda, comprehension)
        idx = next((i for i, x in enumerate(order) if x is child), None)
        if idx is None or not all(simple(x.value if isinstance(x, ast.keyword) else x) for x in order[:idx]):
            return False
    return True


def _inline_new_helpers(tree, ref_funcs, done):
    # candidates: new module-level functions (called as `name(...)`) and new methods (called as `self.name(...)` inside their class)
    cands = [(n, None, tree.body) for n in tree.body if isinstance(n, ast.FunctionDef)]
    for cls in [n for n in ast.walk(tree) if isinstance(n, ast.ClassDef)]:
        cands += [(n, cls, cls.body) for n in cls.body if isinstance(n, ast.FunctionDef)]
    quals = {id(f): q for q, f in functions_of(tree)}
    for helper, cls, home in cands:
        if quals.get(id(helper)) in ref_funcs or helper.decorator_list:
            continue
        a = helper.args
        if a.vararg or a.kwarg or a.kwonlyargs or a.posonlyargs:
            continue
        if cls is not None and (not a.args or a.args[0].arg != 'self'):
            continue
        if any(isinstance(n, (ast.Yield, ast.YieldFrom, ast.Await, ast.Global, ast.Nonlocal)) for n in _own(helper)):
            continue
        if any(isinstance(n, FUNC + (ast.Lambda, ast.ClassDef)) for n in _own(helper)):
            continue
        if cls is None:
            refs = [n for n in ast.walk(tree) if isinstance(n, ast.Name) and n.id == helper.name]
        else:
            # every mention of the attribute name in the module counts (other classes may call it through an instance: leave it then)
            refs = [n for n in ast.walk(tree) if isinstance(n, ast.Attribute) and n.attr == helper.name]
            if any(not (isinstance(r.value, ast.Name) and r.value.id == 'self' and any(x is r for x in ast.walk(cls))) for r in refs):
                continue
            if any(isinstance(n, ast.Constant) and n.value == helper.name for n in ast.walk(tree)):
                continue        # reached reflectively (getattr by name)
        if not 1 <= len(refs) <= 6:
            continue
        def _at(ref, helper=helper, cls=cls, home=home, a=a):
            # the one reference must be the callee of a call that is a whole statement value inside another function
            # B0: a helper whose body is one `return <expr>` is inlined as an expression, whatever the context of the call
            #     (comprehension condition, operand of `and`, argument): parameters are substituted by the argument expressions
            body0 = _strip_doc(helper.body)
            if len(body0) > 1 and not any(isinstance(n, (ast.For, ast.While, ast.Try, ast.With, ast.Raise, ast.Expr, ast.AugAssign, ast.Delete, ast.Assert))
                                          for st_ in body0 for n in ast.walk(st_)):
                folded = _fold_returns(body0)
                if folded is not None:
                    body0 = [ast.Return(value=folded)]
            callers = [c for c in ast.walk(tree) if isinstance(c, ast.Call) and c.func is ref]
            if len(body0) == 1 and isinstance(body0[0], ast.Return) and body0[0].value is not None and len(callers) == 1:
                call = callers[0]
                params0 = [x.arg for x in a.args][(1 if cls is not None else 0):]
                if len(call.args) + len(call.keywords) == len(params0) and not any(k.arg is None for k in call.keywords) and \
                        not any(isinstance(x, ast.Starred) for x in call.args):
                    bind0 = dict(zip(params0, call.args))
                    okb = True
                    for k in call.keywords:
                        if k.arg not in params0 or k.arg in bind0:
                            okb = False
                        bind0[k.arg] = k.value
                    # every parameter is used at most once, or its argument is a plain name/attribute chain/constant (no re-evaluation issue)
                    expr = copy.deepcopy(body0[0].value)
                    uses0 = {}
                    for n in ast.walk(expr):
                        if isinstance(n, ast.Name) and n.id in bind0:
                            uses0[n.id] = uses0.get(n.id, 0) + 1
                    simple = lambda e: all(isinstance(x, (ast.Name, ast.Attribute, ast.Constant, ast.Load)) for x in ast.walk(e))
                    if okb and set(bind0) == set(params0) and all(uses0.get(p_, 0) <= 1 or simple(bind0[p_]) for p_ in params0) and \
                            not any(isinstance(n, (ast.Lambda, ast.ListComp, ast.SetComp, ast.DictComp, ast.GeneratorExp)) and
                                    any(isinstance(x, ast.Name) and x.id in bind0 and isinstance(x.ctx, ast.Store) for x in ast.walk(n)) for n in ast.walk(expr)):
                        class _P(ast.NodeTransformer):
                            def visit_Name(self, node):
                                if isinstance(node.ctx, ast.Load) and node.id in bind0:
                                    return ast.copy_location(copy.deepcopy(bind0[node.id]), node)
                                return node
                        expr = _P().visit(expr)

                        class _C(ast.NodeTransformer):
                            def visit_Call(self, node):
                                if node is call:
                                    return ast.copy_location(expr, node)
                                return self.generic_visit(node)
                        for i_, t_ in enumerate(tree.body):
                            tree.body[i_] = _C().visit(t_)
                        ast.fix_missing_locations(tree)
                        done.append(('<expr>', helper.name, '<new single-expression helper inlined at a call>'))
                        return True
            site = None
            for q, f in functions_of(tree):
                if f is helper:
                    continue
                for holder in [f] + [n for n in _own(f) if not isinstance(n, FUNC)]:
                    lists = [getattr(holder, field, None) for field in ('body', 'orelse', 'finalbody')]
                    if isinstance(holder, ast.Try):
                        lists += [h.body for h in holder.handlers]
                    for lst in lists:
                        if not (isinstance(lst, list) and lst and isinstance(lst[0], ast.stmt)):
                            continue
                        for i, s in enumerate(lst):
                            call = None
                            if isinstance(s, ast.Assign) and len(s.targets) == 1 and isinstance(s.value, ast.Call):
                                call = s.value
                            elif isinstance(s, (ast.Return, ast.Expr)) and isinstance(s.value, ast.Call):
                                call = s.value
                            if call is not None and call.func is ref:
                                site = (f, lst, i, s, call)
                            hoist = None
                            if isinstance(s, ast.If):
                                t = s.test
                                while isinstance(t, ast.UnaryOp) and isinstance(t.op, ast.Not):
                                    t = t.operand
                                if isinstance(t, ast.Call) and t.func is ref:
                                    hoist = ('test', t)     # `if helper(...):` - the call is evaluated first
                            elif isinstance(s, ast.Raise) and isinstance(s.exc, ast.Call) and s.exc.func is ref and s.cause is None:
                                hoist = ('exc', s.exc)      # `raise helper(...)` - the call is evaluated, then its value raised
                            elif isinstance(s, ast.AugAssign) and isinstance(s.target, ast.Name) and isinstance(s.value, ast.Call) \
                                    and s.value.func is ref:
                                hoist = ('value', s.value)  # `xs += helper(...)` - a local on the left cannot change during the call
                            elif call is None and isinstance(s, (ast.Assign, ast.AugAssign, ast.Expr, ast.Return)) and s.value is not None \
                                    and (not isinstance(s, ast.AugAssign) or isinstance(s.target, ast.Name)):
                                inner = [c_ for c_ in ast.walk(s.value) if isinstance(c_, ast.Call) and c_.func is ref]
                                if inner and _first_evaluated(s.value, inner[0]):
                                    hoist = ('value', inner[0])     # `xs += reversed(helper(...))`: nothing else runs before the call
                            if hoist is not None:
                                # hoist the call into a fresh local and inline that assignment
                                fld, t = hoist
                                tmp = '_%s__val' % helper.name.lstrip('_')
                                asg = ast.Assign(targets=[ast.Name(id=tmp, ctx=ast.Store())], value=t)
                                ast.copy_location(asg, s)
                                ast.fix_missing_locations(asg)

                                class _R(ast.NodeTransformer):
                                    def visit_Call(self, node, t=t, tmp=tmp):
                                        if node is t:
                                            return ast.copy_location(ast.Name(id=tmp, ctx=ast.Load()), node)
                                        return self.generic_visit(node)
                                setattr(s, fld, _R().visit(getattr(s, fld)))
                                lst.insert(i, asg)
                                site = (f, lst, i, asg, t)
                                break
            if site is None:
                return False
            caller, lst, i, stmt, call = site
            params = [x.arg for x in a.args]
            if cls is not None:
                params = params[1:]             # `self` of the helper is the caller's `self`
                if not (caller.args.args and caller.args.args[0].arg == 'self'):
                    return False
            if len(call.args) + len(call.keywords) != len(params) or any(k.arg is None for k in call.keywords) or \
                    any(isinstance(x, ast.Starred) for x in call.args):
                return False        # defaults in play: leave it
            bind = dict(zip(params, call.args))
            for k in call.keywords:
                if k.arg not in params or k.arg in bind:
                    bind = None
                    break
                bind[k.arg] = k.value
            if bind is None or set(bind) != set(params):
                return False
            body = copy.deepcopy(_strip_doc(helper.body))
            if not body:
                return False
            stored = {n.id for s in body for n in ast.walk(s) if isinstance(n, ast.Name) and isinstance(n.ctx, (ast.Store, ast.Del))}
            # helper locals that clash with names of the caller get a suffix
            caller_names = _all_names(caller)
            mapping = {}
            # the helper's local that carries the result may keep its name when that name is the very target of the call and the caller
            # binds it nowhere else (extracting `xs = []; for ..: xs.append(..)` into `xs = helper()` keeps the name `xs` in both)
            same_as_target = None
            if isinstance(stmt, ast.Assign) and isinstance(stmt.targets[0], ast.Name):
                tn = stmt.targets[0].id
                other_stores = [x for x in ast.walk(caller) if isinstance(x, ast.Name) and x.id == tn and isinstance(x.ctx, (ast.Store, ast.Del))
                                and x is not stmt.targets[0]]
                early_loads = [x for x in ast.walk(caller) if isinstance(x, ast.Name) and x.id == tn and isinstance(x.ctx, ast.Load)
                               and getattr(x, 'lineno', 0) < stmt.lineno]
                if not other_stores and not early_loads:
                    same_as_target = tn
            for nm in stored - set(params):
                if nm in caller_names and nm != same_as_target:
                    mapping[nm] = nm + '__inl'
            pre = []
            for p_, arg in bind.items():
                if isinstance(arg, ast.Name) and p_ not in stored:
                    mapping[p_] = arg.id
                else:
                    # a parameter the helper re-binds never aliases the caller's variable of the same name (the caller may read it later)
                    tgt = p_ if p_ not in caller_names or (isinstance(arg, ast.Name) and arg.id == p_ and p_ not in stored) else p_ + '__inl'
                    # ... except in `X = helper(.., X, ..)`: whatever the helper does to its copy of X, the statement overwrites X with the
                    # result on every normal exit, so the helper may work on X itself (no handler of the caller can see the difference)
                    if isinstance(arg, ast.Name) and isinstance(stmt, ast.Assign) and len(stmt.targets) == 1 and isinstance(stmt.targets[0], ast.Name) \
                            and stmt.targets[0].id == arg.id and not any(isinstance(x, ast.Try) for x in _own(caller)) \
                            and sum(1 for a2 in call.args + [k.value for k in call.keywords] for x in ast.walk(a2) if isinstance(x, ast.Name) and x.id == arg.id) == 1:
                        tgt = arg.id
                    if tgt != p_:
                        mapping[p_] = tgt
                    if not (isinstance(arg, ast.Name) and arg.id == tgt):
                        pre.append(ast.Assign(targets=[ast.Name(id=tgt, ctx=ast.Store())], value=copy.deepcopy(arg)))
            ren = _Rename(mapping)
            body = [ren.visit(s) for s in body]
            rets = _own_returns(body)
            tail_only = len(rets) == 1 and body[-1] is rets[0]
            nested_tail = len(rets) == 1 and not tail_only and _tail_return(body) is rets[0] and not isinstance(stmt, ast.Return)
            falls_off = not isinstance(body[-1], (ast.Return, ast.Raise))
            new = list(pre)
            if isinstance(stmt, ast.Return):
                new += body
                if falls_off:
                    new.append(ast.Return(value=ast.Constant(value=None)))
            elif tail_only:
                val = rets[0].value if rets[0].value is not None else ast.Constant(value=None)
                new += body[:-1]
                if isinstance(stmt, ast.Assign):
                    if ast.unparse(stmt.targets[0]) != ast.unparse(val):
                        new.append(ast.Assign(targets=[copy.deepcopy(stmt.targets[0])], value=val))
                else:
                    new.append(ast.Expr(value=val))
            elif nested_tail:
                # the one return closes a try/with that closes the body: binding the value there and leaving the block normally is
                # the same run (the finally clause runs between the evaluation and the next statement in both forms)
                def make_plain(value, stmt=stmt):
                    v = value if value is not None else ast.Constant(value=None)
                    if isinstance(stmt, ast.Assign):
                        if ast.unparse(stmt.targets[0]) == ast.unparse(v):
                            return [ast.Pass()]
                        return [ast.Assign(targets=[copy.deepcopy(stmt.targets[0])], value=v)]
                    return [ast.Expr(value=v)]
                new += _replace_returns(body, make_plain)
            else:
                def make(value, stmt=stmt):
                    v = value if value is not None else ast.Constant(value=None)
                    if isinstance(stmt, ast.Assign):
                        if ast.unparse(stmt.targets[0]) == ast.unparse(v):
                            return [ast.Break()]        # `x = x`: the value is already where it belongs
                        return [ast.Assign(targets=[copy.deepcopy(stmt.targets[0])], value=v), ast.Break()]
                    return [ast.Expr(value=v), ast.Break()]
                inner = _replace_returns(body, make)
                if falls_off and isinstance(stmt, ast.Assign):
                    inner.append(ast.Assign(targets=[copy.deepcopy(stmt.targets[0])], value=ast.Constant(value=None)))
                new.append(ast.For(target=ast.Name(id='_once', ctx=ast.Store()),
                                   iter=ast.Tuple(elts=[ast.Constant(value=None)], ctx=ast.Load()), body=inner, orelse=[]))
            for k_, n in enumerate(new):
                for x in ast.walk(n):
                    # the inlined statements sit where the call was (their own line numbers belong to the helper's old place); keep their
                    # order by a fractional offset that stays below the next line
                    if hasattr(x, 'lineno') or isinstance(x, (ast.stmt, ast.expr)):
                        x.lineno = stmt.lineno
                        x.end_lineno = getattr(stmt, 'end_lineno', stmt.lineno)
                        x.col_offset = getattr(stmt, 'col_offset', 0)
                        x.end_col_offset = getattr(stmt, 'end_col_offset', 0)
                ast.fix_missing_locations(n)
            lst[i:i + 1] = new
            done.append((caller.name, helper.name, '<new helper inlined into a caller>'))
            return True

        # every call site must take the body (the helper stays when one cannot; the inlined sites remain equivalent code)
        if all([_at(r) for r in refs]):
            home.remove(helper)


# ------------------------------------------------------------------------------------------------ A: new temporaries
_IMPURE = (ast.Await, ast.Yield, ast.YieldFrom, ast.NamedExpr, ast.ListComp, ast.SetComp, ast.DictComp, ast.GeneratorExp, ast.Lambda)
_PURE_CALLS = {'str', 'len', 'int', 'float', 'bool', 'repr', 'tuple', 'frozenset', 'isinstance', 'type', 'id'}


def _is_pure(e):
    if isinstance(e, (ast.List, ast.Dict, ast.Set)):
        return False        # a fresh mutable object has identity: two reads of the expression are two objects
    for x in ast.walk(e):
        if isinstance(x, _IMPURE):
            return False
        if isinstance(x, ast.Call) and not (isinstance(x.func, ast.Name) and x.func.id in _PURE_CALLS and not x.keywords):
            return False
    return True


def _blocks(func):
    for node in [func] + [n for n in _own(func)]:
        for field in ('body', 'orelse', 'finalbody'):
            lst = getattr(node, field, None)
            if isinstance(lst, list) and lst and isinstance(lst[0], ast.stmt):
                yield lst
        if isinstance(node, ast.Try):
            for h in node.handlers:
                yield h.body


class _Subst(ast.NodeTransformer):
    def __init__(self, name, value):
        self.name, self.value, self.n = name, value, 0

    def visit_Name(self, node):
        if node.id == self.name and isinstance(node.ctx, ast.Load):
            self.n += 1
            return ast.copy_location(copy.deepcopy(self.value), node)
        return node


def _inline_new_temps(func, known, done, qual):
    changed = True
    rounds = 0
    while changed and rounds < 10:
        changed = False
        rounds += 1
        stores, loads = {}, {}
        for n in _own(func):
            if isinstance(n, ast.Name):
                (stores if isinstance(n.ctx, (ast.Store, ast.Del)) else loads).setdefault(n.id, []).append(n)
            elif isinstance(n, ast.ExceptHandler) and n.name:
                stores.setdefault(n.name, []).append(n)
        params = {x.arg for x in func.args.posonlyargs + func.args.args + func.args.kwonlyargs}
        for lst in _blocks(func):
            for i, s in enumerate(lst):
                if not (isinstance(s, ast.Assign) and len(s.targets) == 1 and isinstance(s.targets[0], ast.Name)):
                    continue
                nm = s.targets[0].id
                if nm in known or nm in params or len(stores.get(nm, [])) != 1:
                    continue
                if any(isinstance(x, (ast.Global, ast.Nonlocal)) and nm in x.names for x in _own(func)):
                    continue
                pure = _is_pure(s.value)
                # nested functions reading the name (closure): only for a pure value whose names are never re-bound in this function
                nested_uses = [x for f2 in _own(func) if isinstance(f2, FUNC + (ast.Lambda,)) for x in ast.walk(f2) if isinstance(x, ast.Name) and x.id == nm]
                if nested_uses:
                    reads0 = {x.id for x in ast.walk(s.value) if isinstance(x, ast.Name)}
                    if not pure or any(isinstance(x.ctx, (ast.Store, ast.Del)) for x in nested_uses) or \
                            any(any(st.lineno > s.lineno for st in stores.get(r, []) if hasattr(st, 'lineno')) for r in reads0):
                        continue
                uses = loads.get(nm, []) + [x for x in nested_uses if isinstance(x.ctx, ast.Load)]
                if not uses:
                    continue
                last_use = max(u.lineno for u in uses)
                first_use = min(u.lineno for u in uses)
                if first_use < s.lineno:
                    continue
                if pure:
                    # the names the expression reads must not be re-bound between the binding and the last use
                    reads = {x.id for x in ast.walk(s.value) if isinstance(x, ast.Name)}
                    rebound = any(st.lineno > s.lineno and st.lineno <= last_use for r in reads for st in stores.get(r, []) if hasattr(st, 'lineno'))
                    if rebound:
                        continue
                    # ... and no attribute/item it reads may be stored to anywhere in the function (`old = sys.path; sys.path = new; ...;
                    # sys.path = old` must keep its temporary)
                    read_places = {ast.unparse(x) for x in ast.walk(s.value) if isinstance(x, (ast.Attribute, ast.Subscript))}
                    stored_places = {ast.unparse(t) for n_ in _own(func) if isinstance(n_, (ast.Assign, ast.AugAssign, ast.AnnAssign, ast.Delete))
                                     for t in (n_.targets if isinstance(n_, (ast.Assign, ast.Delete)) else [n_.target])
                                     for t in ([t] + (list(t.elts) if isinstance(t, (ast.Tuple, ast.List)) else []))
                                     if isinstance(t, (ast.Attribute, ast.Subscript))}
                    if read_places & stored_places:
                        continue
                else:
                    nxt = lst[i + 1] if i + 1 < len(lst) else None
                    if len(uses) != 1 or nxt is None or not any(u is x for x in ast.walk(nxt) for u in uses):
                        continue
                    # the use must be evaluated before any other call of the next statement's header... keep it simple: compound statements
                    # only when the use sits in the header
                    if isinstance(nxt, (ast.For, ast.While, ast.If, ast.With, ast.Try)) and not any(
                            u is x for hdr in ([nxt.iter] if isinstance(nxt, ast.For) else [nxt.test] if isinstance(nxt, (ast.While, ast.If)) else
                                               [w.context_expr for w in nxt.items] if isinstance(nxt, ast.With) else []) for x in ast.walk(hdr) for u in uses):
                        continue
                sub = _Subst(nm, s.value)
                scope = lst[i + 1:]
                # uses may sit in later blocks of the same function (after the enclosing compound statement): substitute function-wide
                for st in list(_blocks(func)):
                    for j, t in enumerate(st):
                        if t is s:
                            continue
                        st[j] = sub.visit(t)        # NodeTransformer descends into nested defs and lambdas as well
                if sub.n:
                    lst.remove(s)
                    done.append((qual, nm, '<new temporary substituted at its %d use(s)>' % sub.n))
                    changed = True
                    break
            if changed:
                break


# ------------------------------------------------------------------------------------------------ A2: reference temporaries removed
def _restore_reference_temps(func, ref_aliases, done, qual):
    """The pinned function binds `name = <pure attribute chain>` once (reference table `__aliases__`) and the function as it is now has
    no such local but reads that chain: the local is put back (bound just before the first statement that reads the chain, read
    everywhere the chain was), so that rules see the statements they were written against.  Only when every read lies in or after
    that statement in one block, nothing the chain reads is bound in between, and the reads are not inside a comprehension or lambda
    that binds one of its names."""
    if not ref_aliases:
        return
    for _round in (1, 2):
        progressed = False
        names_here = {x.id for x in ast.walk(func) if isinstance(x, ast.Name)} | \
                     {a.arg for x in ast.walk(func) if isinstance(x, ast.arguments) for a in x.posonlyargs + x.args + x.kwonlyargs}
        for nm, etext in ref_aliases.items():
            if nm in names_here:
                continue
            try:
                eref = ast.parse(etext, mode='eval').body
            except SyntaxError:
                continue
            if not isinstance(eref, (ast.Attribute, ast.Subscript)) or not _is_pure_attr_chain(eref):
                continue
            reads = {x.id for x in ast.walk(eref) if isinstance(x, ast.Name)}
            canon_text = ast.unparse(eref)
            uses = [x for x in _own(func) if isinstance(x, type(eref)) and isinstance(getattr(x, 'ctx', None), ast.Load) and ast.unparse(x) == canon_text]
            # an occurrence that is the prefix of a stored place (`a.b.c = 1` reads a.b) is a read as well: fine
            if not uses:
                continue
            # binders (comprehensions, lambdas are not walked by _own) that bind a name the chain reads
            bad = False
            for comp in [c for c in _own(func) if isinstance(c, (ast.ListComp, ast.SetComp, ast.DictComp, ast.GeneratorExp))]:
                bound = {y.id for g in comp.generators for y in ast.walk(g.target) if isinstance(y, ast.Name)}
                if bound & reads and any(any(u is y for y in ast.walk(comp)) for u in uses):
                    bad = True
            if bad:
                continue
            # the block and statement that hold the first read; every read must be inside that statement or a later one of the block
            place = None
            for lst in _blocks(func):
                idxs = [i for i, st in enumerate(lst) if any(any(u is y for y in ast.walk(st)) for u in uses)]
                if not idxs:
                    continue
                covered = sum(1 for u in uses if any(any(u is y for y in ast.walk(st)) for st in lst))
                if covered == len(uses):
                    # deepest such block wins (blocks are yielded outer first)
                    place = (lst, idxs[0])
            if place is None:
                continue
            lst, i0 = place
            first = lst[i0]
            # a compound statement: the read must sit in its header (test/iter/items), else the binding would run on paths that never
            # read the chain - harmless for a pure chain, but an attribute read of None is not: keep to headers and simple statements
            if isinstance(first, (ast.For, ast.While, ast.If, ast.With, ast.Try)):
                hdr = [first.iter] if isinstance(first, ast.For) else [first.test] if isinstance(first, (ast.While, ast.If)) else \
                    [w.context_expr for w in first.items] if isinstance(first, ast.With) else []
                if not any(any(u is y for y in ast.walk(h)) for h in hdr for u in uses):
                    continue
                if isinstance(first, ast.While):
                    continue
            lo = getattr(first, 'lineno', 0)
            hi = max(getattr(u, 'lineno', lo) for u in uses)
            stores = [x for x in _own(func) if isinstance(x, ast.Name) and isinstance(x.ctx, (ast.Store, ast.Del)) and x.id in reads]
            if any(lo <= getattr(x, 'lineno', 0) <= hi for x in stores):
                continue
            use_ids = {id(u) for u in uses}

            class _Put(ast.NodeTransformer):
                def generic_visit(self, node):
                    if id(node) in use_ids:
                        return ast.copy_location(ast.Name(id=nm, ctx=ast.Load()), node)
                    return super().generic_visit(node)

                def visit_FunctionDef(self, node):
                    return node
                visit_AsyncFunctionDef = visit_ClassDef = visit_Lambda = visit_FunctionDef
            for j in range(i0, len(lst)):
                lst[j] = _Put().generic_visit(lst[j]) if not isinstance(lst[j], FUNC + (ast.ClassDef,)) else lst[j]
            asg = ast.Assign(targets=[ast.Name(id=nm, ctx=ast.Store())], value=eref)
            ast.copy_location(asg, first)
            for x in ast.walk(asg):
                ast.copy_location(x, first)
            asg.end_lineno = getattr(first, 'lineno', None)
            ast.fix_missing_locations(asg)
            lst.insert(i0, asg)
            done.append((qual, canon_text, '%s (temporary of the pinned function restored)' % nm))
            names_here.add(nm)
            progressed = True
        if not progressed:
            break


def restore_reference_temps(mname, tree, ref):
    done = []
    al = ref.get('__aliases__', {}).get(mname, {})
    if al:
        for q, f in functions_of(tree):
            if q in al:
                _restore_reference_temps(f, al[q], done, q)
    return done


# ------------------------------------------------------------------------------------------------ E: comparison spelling
_COMPLEMENT = {ast.In: ast.NotIn, ast.NotIn: ast.In, ast.Is: ast.IsNot, ast.IsNot: ast.Is, ast.Eq: ast.NotEq, ast.NotEq: ast.Eq}


class _CanonCompare(ast.NodeTransformer):
    """`CONST == x` -> `x == CONST`; `not a in b` -> `a not in b` (likewise is / ==): one spelling per comparison, so that no rule
    depends on which of the equivalent spellings the source uses."""
    def visit_Compare(self, node):
        self.generic_visit(node)
        if len(node.ops) == 1 and isinstance(node.ops[0], (ast.Eq, ast.NotEq)) and isinstance(node.left, ast.Constant) \
                and not isinstance(node.comparators[0], ast.Constant):
            node.left, node.comparators[0] = node.comparators[0], node.left
        return node

    def visit_BoolOp(self, node):
        # `x == 'a' or x == 'b'` -> `x in ('a', 'b')`; `x != 'a' and x != 'b'` -> `x not in ('a', 'b')` (runs of neighbouring operands that
        # compare the same side-effect-free expression with constants; an existing `x in (consts)` operand joins the run)
        self.generic_visit(node)
        is_or = isinstance(node.op, ast.Or)
        one, many = (ast.Eq, ast.In) if is_or else (ast.NotEq, ast.NotIn)

        def member(e):
            if not (isinstance(e, ast.Compare) and len(e.ops) == 1):
                return None
            l, r = e.left, e.comparators[0]
            if not all(isinstance(x, (ast.Name, ast.Attribute, ast.Load)) for x in ast.walk(l)):
                return None
            if isinstance(e.ops[0], one) and isinstance(r, ast.Constant) and isinstance(r.value, (str, bytes, int)) and not isinstance(r.value, bool):
                return ast.unparse(l), [r]
            if isinstance(e.ops[0], many) and isinstance(r, (ast.Tuple, ast.List)) and r.elts and all(isinstance(x, ast.Constant) for x in r.elts):
                return ast.unparse(l), list(r.elts)
            return None
        out, i = [], 0
        vals = node.values
        while i < len(vals):
            m = member(vals[i])
            j = i + 1
            if m is not None:
                elts = list(m[1])
                while j < len(vals):
                    m2 = member(vals[j])
                    if m2 is None or m2[0] != m[0]:
                        break
                    elts += m2[1]
                    j += 1
                if j - i >= 2:
                    first = vals[i]
                    c = ast.Compare(left=first.left, ops=[many()], comparators=[ast.Tuple(elts=elts, ctx=ast.Load())])
                    ast.copy_location(c, first)
                    ast.copy_location(c.comparators[0], first)
                    c.end_lineno, c.end_col_offset = getattr(vals[j - 1], 'end_lineno', None), getattr(vals[j - 1], 'end_col_offset', None)
                    out.append(c)
                    i = j
                    continue
            out.append(vals[i])
            i += 1
        if len(out) == 1:
            return out[0]
        node.values = out
        return node

    def visit_UnaryOp(self, node):
        self.generic_visit(node)
        if isinstance(node.op, ast.Not) and isinstance(node.operand, ast.Compare) and len(node.operand.ops) == 1 \
                and type(node.operand.ops[0]) in _COMPLEMENT:
            c = node.operand
            c.ops = [_COMPLEMENT[type(c.ops[0])]()]
            return ast.copy_location(c, node)
        return node


def _truth(e):
    """e in a position where only its truth value is used: `True if T else E` -> `T or E` and the three sibling forms"""
    if isinstance(e, ast.IfExp):
        t, b, o = _truth(e.test), _truth(e.body), _truth(e.orelse)
        const = lambda x, v: isinstance(x, ast.Constant) and x.value is v
        if const(b, True):
            r = ast.BoolOp(op=ast.Or(), values=[t, o])
        elif const(b, False):
            r = ast.BoolOp(op=ast.And(), values=[ast.UnaryOp(op=ast.Not(), operand=t), o])
        elif const(o, False):
            r = ast.BoolOp(op=ast.And(), values=[t, b])
        elif const(o, True):
            r = ast.BoolOp(op=ast.Or(), values=[ast.UnaryOp(op=ast.Not(), operand=t), b])
        else:
            # the general form, for its truth value only: `B if T else O` is `T and B or not T and O` (T is read twice, which matters
            # to nobody: the tree is analysed, not run)
            r = ast.BoolOp(op=ast.Or(), values=[ast.BoolOp(op=ast.And(), values=[t, b]),
                                                ast.BoolOp(op=ast.And(), values=[ast.UnaryOp(op=ast.Not(), operand=copy.deepcopy(t)), o])])
        return ast.fix_missing_locations(ast.copy_location(r, e))
    if isinstance(e, ast.BoolOp):
        e.values = [_truth(v) for v in e.values]
        return e
    if isinstance(e, ast.UnaryOp) and isinstance(e.op, ast.Not):
        e.operand = _truth(e.operand)
        return e
    return e


class _CanonTests(ast.NodeTransformer):
    def visit_If(self, node):
        self.generic_visit(node)
        node.test = _truth(node.test)
        return node
    visit_While = visit_If

    def visit_IfExp(self, node):
        self.generic_visit(node)
        node.test = _truth(node.test)
        return node

    def visit_comprehension(self, node):
        self.generic_visit(node)
        node.ifs = [_truth(x) for x in node.ifs]
        return node

    def visit_Assert(self, node):
        self.generic_visit(node)
        node.test = _truth(node.test)
        return node


class _CanonCollections(ast.NodeTransformer):
    """`set(<generator>)`, `list(<generator>)` and `dict((k, v) for ...)` read as the comprehension they are"""
    def visit_Call(self, node):
        self.generic_visit(node)
        if isinstance(node.func, ast.Name) and node.func.id in ('set', 'list', 'dict') and len(node.args) == 1 and not node.keywords \
                and isinstance(node.args[0], ast.GeneratorExp):
            g = node.args[0]
            if node.func.id == 'set':
                return ast.copy_location(ast.SetComp(elt=g.elt, generators=g.generators), node)
            if node.func.id == 'list':
                return ast.copy_location(ast.ListComp(elt=g.elt, generators=g.generators), node)
            if isinstance(g.elt, ast.Tuple) and len(g.elt.elts) == 2 and not any(isinstance(x, ast.Starred) for x in g.elt.elts):
                return ast.copy_location(ast.DictComp(key=g.elt.elts[0], value=g.elt.elts[1], generators=g.generators), node)
        return node


class _Flatten(ast.NodeTransformer):
    def visit_BoolOp(self, node):
        self.generic_visit(node)
        vals = []
        for v in node.values:
            if isinstance(v, ast.BoolOp) and type(v.op) is type(node.op):
                vals.extend(v.values)       # `a or (b or c)` is `a or b or c`: same operands, same order, same short-circuit
            else:
                vals.append(v)
        node.values = vals
        return node


def canonicalise_comparisons(tree):
    _CanonCollections().visit(tree)
    _CanonTests().visit(tree)
    _Flatten().visit(tree)
    _CanonCompare().visit(tree)
    return tree


# ------------------------------------------------------------------------------------------------ entry
def canonicalise_functions(mname, tree, ref):
    """steps C and B (before locals are renamed back).  ref: the whole reference table"""
    done = []
    ref_funcs = (ref.get('__functions__') or {}).get(mname)
    if ref_funcs is None:
        return done
    _renest_lifted_closures(tree, ref_funcs, done)
    _rename_functions_back(tree, ref_funcs, done)
    ref_consts = set((ref.get('__module_names__') or {}).get(mname) or ())
    if ref_consts:
        _inline_new_constants(tree, ref_consts, done)
    _inline_new_yielders(tree, ref_funcs, done)
    _inline_new_helpers(tree, ref_funcs, done)
    return done


def canonicalise_temps(mname, tree, ref):
    """step A (after locals were renamed back: a renamed reference local is not a new temporary)"""
    done = []
    ref_funcs = (ref.get('__functions__') or {}).get(mname)
    if ref_funcs is None:
        return done
    ref_locals = ref.get(mname) or {}
    for q, f in functions_of(tree):
        if q not in ref_funcs:
            continue
        _accumulators_to_comprehensions(f, set(ref_locals.get(q) or ()), done, q)
        _inline_new_temps(f, set(ref_locals.get(q) or ()), done, q)
    return done


def _accumulators_to_comprehensions(func, known, done, qual):
    """A NEW local that is an empty `{}` / `[]` / `set()` filled by the very next statement, a `for` loop whose whole body (under
    `if`s without else) is `D[K] = V` / `L.append(V)` / `S.add(V)`, and not touched otherwise inside the loop, is the comprehension
    `{K: V for T in I if C}` it was written out from: the elements, their order and the evaluation order are the same.  The loop
    variables must not be used after the loop (a comprehension does not leak them)."""
    for lst in _blocks(func):
        i = 0
        while i + 1 < len(lst):
            a, lp = lst[i], lst[i + 1]
            i += 1
            if not (isinstance(a, ast.Assign) and len(a.targets) == 1 and isinstance(a.targets[0], ast.Name) and a.targets[0].id not in known):
                continue
            nm = a.targets[0].id
            v = a.value
            kind = 'dict' if isinstance(v, ast.Dict) and not v.keys else 'list' if isinstance(v, ast.List) and not v.elts else \
                'set' if isinstance(v, ast.Call) and isinstance(v.func, ast.Name) and v.func.id == 'set' and not v.args and not v.keywords else None
            if kind is None or not (isinstance(lp, ast.For) and not lp.orelse):
                continue
            conds, body = [], lp.body
            while len(body) == 1 and isinstance(body[0], ast.If) and not body[0].orelse:
                conds.append(body[0].test)
                body = body[0].body
            if len(body) != 1:
                continue
            st = body[0]
            comp = None
            gen = lambda: [ast.comprehension(target=lp.target, iter=lp.iter, ifs=conds, is_async=0)]
            if kind == 'dict' and isinstance(st, ast.Assign) and len(st.targets) == 1 and isinstance(st.targets[0], ast.Subscript) \
                    and isinstance(st.targets[0].value, ast.Name) and st.targets[0].value.id == nm:
                comp = ast.DictComp(key=st.targets[0].slice, value=st.value, generators=gen())
            elif kind in ('list', 'set') and isinstance(st, ast.Expr) and isinstance(st.value, ast.Call) and isinstance(st.value.func, ast.Attribute) \
                    and isinstance(st.value.func.value, ast.Name) and st.value.func.value.id == nm and len(st.value.args) == 1 and not st.value.keywords \
                    and st.value.func.attr == ('append' if kind == 'list' else 'add'):
                comp = (ast.ListComp if kind == 'list' else ast.SetComp)(elt=st.value.args[0], generators=gen())
            if comp is None:
                continue
            uses_in_loop = sum(1 for x in ast.walk(lp) if isinstance(x, ast.Name) and x.id == nm)
            if uses_in_loop != 1:
                continue
            tvars = {x.id for x in ast.walk(lp.target) if isinstance(x, ast.Name)}
            later = [x for s2 in lst[i + 1:] for x in ast.walk(s2) if isinstance(x, ast.Name) and x.id in tvars]
            elsewhere = [x for x in _own(func) if isinstance(x, ast.Name) and x.id in tvars and not any(x is y for y in ast.walk(lp))]
            if later or elsewhere:
                continue
            new = ast.Assign(targets=[ast.Name(id=nm, ctx=ast.Store())], value=comp)
            ast.copy_location(new, lp)
            ast.fix_missing_locations(new)
            lst[i - 1:i + 1] = [new]
            done.append((qual, nm, '<accumulating loop read as the comprehension it spells out>'))
