"""Statement-level control-flow graphs for the statement kinds jedi uses.

Built back to front (continuation passing): `finally` bodies are copied once per kind of
continuation that enters them (normal, return, break, continue, exception), so questions like
"does every path from A to any exit pass B" are answered exactly for structured code.

Edge kinds:
  'n'    normal fall-through
  'T'/'F' outcome of a test node (conditions are split at and/or/not, so a test node holds
         one atomic condition; for-loops: T = next item, F = exhausted)
  'exc'  the statement raised (also GeneratorExit delivered at a `yield` when the consumer
         abandons the generator)
  'h'    dispatch -> matching except handler

The one query everything is built on is `reach`: is there a path from a set of nodes to a
target avoiding blocked nodes / blocked edges.  MUST, GATE and PAIR rules are phrased as
"no path exists that avoids the required thing", and the path found is the witness.
"""
import ast
from collections import deque

from .core import FUNC_TYPES, SCOPE_TYPES, norm, short


class Node:
    __slots__ = ('id', 'kind', 'ast', 'succ', 'pred', 'note')

    def __init__(self, id, kind, astnode=None, note=''):
        self.id = id
        self.kind = kind      # entry, exit, raise, stmt, test, for, with, dispatch, handler, join
        self.ast = astnode
        self.succ = []        # (Node, edgekind)
        self.pred = []
        self.note = note

    def __repr__(self):
        return '<%d %s %s>' % (self.id, self.kind, short(self.ast, 50) if self.ast is not None else self.note)

    @property
    def line(self):
        return getattr(self.ast, 'lineno', 0)


def _trivial_expr(e):
    """Expressions that cannot raise for our purposes: names, constants, attribute chains on
    names, tuples of those, comparisons by identity of those, `not` of those."""
    if e is None:
        return True
    if isinstance(e, (ast.Constant, ast.Name)):
        return True
    if isinstance(e, ast.Attribute):
        return _trivial_expr(e.value)
    if isinstance(e, (ast.Tuple, ast.List)):
        return all(_trivial_expr(x) for x in e.elts)
    if isinstance(e, ast.UnaryOp) and isinstance(e.op, ast.Not):
        return _trivial_expr(e.operand)
    if isinstance(e, ast.BoolOp):
        return all(_trivial_expr(x) for x in e.values)
    if isinstance(e, ast.Compare):
        return all(isinstance(o, (ast.Is, ast.IsNot)) for o in e.ops) and \
            _trivial_expr(e.left) and all(_trivial_expr(c) for c in e.comparators)
    if isinstance(e, ast.Starred):
        return _trivial_expr(e.value)
    return False


def can_raise(s):
    """May this statement / test expression raise?  Conservative except for the small set of
    forms that are plain data movement (see _trivial_expr)."""
    if isinstance(s, ast.expr):
        return not _trivial_expr(s)
    if isinstance(s, (ast.Pass, ast.Break, ast.Continue, ast.Global, ast.Nonlocal)):
        return False
    if isinstance(s, ast.Return):
        return not _trivial_expr(s.value)
    if isinstance(s, ast.Assign):
        return not (_trivial_expr(s.value) and all(_trivial_expr(t) for t in s.targets))
    if isinstance(s, ast.AnnAssign):
        return not (_trivial_expr(s.value) and _trivial_expr(s.target))
    if isinstance(s, ast.Expr):
        return not isinstance(s.value, ast.Constant)
    if isinstance(s, FUNC_TYPES + (ast.ClassDef,)):
        return bool(s.decorator_list)
    return True


class Ctx:
    """Continuations (ret/brk/cont/exc) of the statement being built; values may be
    computed lazily (finally copies are only created for continuations that are used)."""

    def __init__(self, getter, over=None):
        self._getter = getter
        self._memo = dict(over or {})

    def __getitem__(self, key):
        if key not in self._memo:
            self._memo[key] = self._getter(key)
        return self._memo[key]

    def derive(self, **over):
        return Ctx(self.__getitem__, over)


class CFG:
    def __init__(self, func):
        self.func = func
        self.nodes = []
        self.by_ast = {}     # id(ast node) -> [Node]
        self.entry = self._new('entry')
        self.exit = self._new('exit', note='normal return')
        self.raise_exit = self._new('raise', note='exception leaves the function')
        ctx = Ctx(None, {'ret': self.exit, 'brk': None, 'cont': None, 'exc': self.raise_exit})
        body = func.body if not isinstance(func, ast.Lambda) else [ast.Return(value=func.body)]
        first = self._seq(body, self.exit, ctx)
        self._edge(self.entry, first, 'n')
        for n in self.nodes:
            for m, k in n.succ:
                m.pred.append((n, k))

    # ---------------------------------------------------------------- construction
    def _new(self, kind, astnode=None, note=''):
        n = Node(len(self.nodes), kind, astnode, note)
        self.nodes.append(n)
        if astnode is not None:
            self.by_ast.setdefault(id(astnode), []).append(n)
        return n

    def _edge(self, a, b, kind):
        if b is None:
            return
        a.succ.append((b, kind))

    def _seq(self, stmts, nxt, ctx):
        for s in reversed(stmts):
            nxt = self._stmt(s, nxt, ctx)
        return nxt

    def _cond(self, e, t, f, ctx):
        if isinstance(e, ast.BoolOp):
            vals = e.values
            if isinstance(e.op, ast.And):
                nxt = t
                for v in reversed(vals):
                    nxt = self._cond(v, nxt, f, ctx)
                return nxt
            else:
                nxt = f
                for v in reversed(vals):
                    nxt = self._cond(v, t, nxt, ctx)
                return nxt
        if isinstance(e, ast.UnaryOp) and isinstance(e.op, ast.Not):
            return self._cond(e.operand, f, t, ctx)
        if isinstance(e, ast.Constant):
            # `while True:` / `if 0:` — the other branch is infeasible
            return t if e.value else f
        n = self._new('test', e)
        self._edge(n, t, 'T')
        self._edge(n, f, 'F')
        if can_raise(e):
            self._edge(n, ctx['exc'], 'exc')
        return n

    def _simple(self, s, nxt, ctx, kind='stmt'):
        n = self._new(kind, s)
        self._edge(n, nxt, 'n')
        if can_raise(s):
            self._edge(n, ctx['exc'], 'exc')
        return n

    def _stmt(self, s, nxt, ctx):
        if isinstance(s, ast.If):
            t = self._seq(s.body, nxt, ctx)
            f = self._seq(s.orelse, nxt, ctx)
            return self._cond(s.test, t, f, ctx)
        if isinstance(s, ast.While):
            head = self._new('join', s, note='while-head')
            after = self._seq(s.orelse, nxt, ctx)
            c2 = ctx.derive(brk=nxt, cont=head)
            body = self._seq(s.body, head, c2)
            test = self._cond(s.test, body, after, ctx)
            self._edge(head, test, 'n')
            return head
        if isinstance(s, (ast.For, ast.AsyncFor)):
            head = self._new('for', s)
            after = self._seq(s.orelse, nxt, ctx)
            c2 = ctx.derive(brk=nxt, cont=head)
            body = self._seq(s.body, head, c2)
            self._edge(head, body, 'T')
            self._edge(head, after, 'F')
            self._edge(head, ctx['exc'], 'exc')
            if isinstance(s.iter, (ast.List, ast.Tuple)) and s.iter.elts and \
                    not any(isinstance(x, ast.Starred) for x in s.iter.elts):
                # a non-empty literal is iterated at least once
                head0 = self._new('for', s)
                self._edge(head0, body, 'T')
                self._edge(head0, ctx['exc'], 'exc')
                return head0
            return head
        if isinstance(s, ast.Return):
            n = self._new('stmt', s)
            self._edge(n, ctx['ret'], 'n')
            if can_raise(s):
                self._edge(n, ctx['exc'], 'exc')
            return n
        if isinstance(s, ast.Raise):
            n = self._new('stmt', s)
            self._edge(n, ctx['exc'], 'exc')
            return n
        if isinstance(s, ast.Break):
            n = self._new('stmt', s)
            self._edge(n, ctx['brk'], 'n')
            return n
        if isinstance(s, ast.Continue):
            n = self._new('stmt', s)
            self._edge(n, ctx['cont'], 'n')
            return n
        if isinstance(s, (ast.With, ast.AsyncWith)):
            body = self._seq(s.body, nxt, ctx)
            n = self._new('with', s)
            self._edge(n, body, 'n')
            self._edge(n, ctx['exc'], 'exc')
            return n
        if isinstance(s, ast.Try) or s.__class__.__name__ == 'TryStar':
            return self._try(s, nxt, ctx)
        if isinstance(s, ast.Assert):
            n = self._new('stmt', s)
            self._edge(n, nxt, 'n')
            self._edge(n, ctx['exc'], 'exc')
            return n
        if s.__class__.__name__ == 'Match':
            n = self._new('stmt', s)
            for case in s.cases:
                self._edge(n, self._seq(case.body, nxt, ctx), 'n')
            self._edge(n, nxt, 'n')
            self._edge(n, ctx['exc'], 'exc')
            return n
        return self._simple(s, nxt, ctx)

    def _try(self, s, nxt, ctx):
        memo = {}

        def fin(k):
            """entry of a copy of the finally body that continues to k"""
            if k is None or not s.finalbody:
                return k
            if k.id not in memo:
                memo[k.id] = self._seq(s.finalbody, k, ctx)
            return memo[k.id]

        inner = Ctx(lambda key: fin(ctx[key]))
        after = fin(nxt)
        # the finally copy for the exceptional continuation re-raises afterwards
        if s.handlers:
            disp = self._new('dispatch', s, note='except-dispatch')
            catch_all = False
            for h in s.handlers:
                hb = self._seq(h.body, after, inner)
                hn = self._new('handler', h)
                self._edge(hn, hb, 'n')
                self._edge(disp, hn, 'h')
                if h.type is None or norm(h.type) in ('BaseException',):
                    catch_all = True
            if not catch_all:
                self._edge(disp, inner['exc'], 'exc')
            body_exc = disp
        else:
            body_exc = inner['exc']
        body_ctx = inner.derive(exc=body_exc)
        else_entry = self._seq(s.orelse, after, inner)
        return self._seq(s.body, else_entry, body_ctx)

    # ---------------------------------------------------------------- queries
    def nodes_of(self, astnode):
        """CFG nodes whose own AST is `astnode` (several when inside a copied finally)."""
        return list(self.by_ast.get(id(astnode), []))

    def nodes_containing(self, astnode):
        """CFG nodes for the innermost statement/test that contains `astnode`."""
        n = astnode
        while n is not None:
            got = self.by_ast.get(id(n))
            if got:
                return list(got)
            n = getattr(n, '_parent', None)
        return []

    def reach(self, sources, is_target, block_node=None, block_edge=None, kinds=None):
        """Breadth-first search over paths of length >= 1 that start at a source.
        Returns the path as a list of (node, kind-of-the-edge-taken-out-of-it) ending with
        (target, None), or None if no target is reachable.
        block_node(n): never pass through n (targets are recognised before blocking).
        block_edge(n, kind, m): never take that edge.  kinds: allowed edge kinds (None=all)."""
        prev = {}
        seen = set()
        dq = deque()
        for s in sources:
            if s.id not in seen:
                seen.add(s.id)
                dq.append(s)
        while dq:
            n = dq.popleft()
            for m, k in n.succ:
                if kinds is not None and k not in kinds:
                    continue
                if block_edge is not None and block_edge(n, k, m):
                    continue
                if is_target(m):
                    return self._path(prev, n, k) + [(m, None)]
                if m.id in seen:
                    continue
                if block_node is not None and block_node(m):
                    continue
                seen.add(m.id)
                prev[m.id] = (n, k)
                dq.append(m)
        return None

    def region(self, sources, block_node=None, block_edge=None, kinds=None):
        """Set of nodes reachable from the sources (sources included)."""
        seen = {s.id: s for s in sources}
        dq = deque(sources)
        while dq:
            n = dq.popleft()
            for m, k in n.succ:
                if kinds is not None and k not in kinds:
                    continue
                if block_edge is not None and block_edge(n, k, m):
                    continue
                if m.id in seen:
                    continue
                if block_node is not None and block_node(m):
                    continue
                seen[m.id] = m
                dq.append(m)
        return list(seen.values())

    def _path(self, prev, n, k):
        out = [(n, k)]
        cur = n
        while cur.id in prev:
            p, pk = prev[cur.id]
            out.append((p, pk))
            cur = p
        out.reverse()
        return out

    def describe(self, path, limit=14):
        parts = []
        for n, k in path:
            if n.kind in ('entry', 'exit', 'raise'):
                txt = n.kind if n.kind != 'raise' else 'RAISE-EXIT'
            elif n.kind == 'test':
                txt = 'L%d [%s]=%s' % (n.line, short(n.ast, 40), k)
            elif n.kind == 'for':
                txt = 'L%d for(%s)' % (n.line, {'T': 'item', 'F': 'done'}.get(k, k))
            elif n.kind in ('dispatch', 'join'):
                txt = 'L%d %s' % (n.line, n.note)
            elif n.kind == 'handler':
                txt = 'L%d except %s' % (n.line, short(n.ast.type, 30) if n.ast.type is not None else '')
            else:
                txt = 'L%d %s%s' % (n.line, short(n.ast, 40), '!exc' if k == 'exc' else '')
            parts.append(txt)
        if len(parts) > limit:
            parts = parts[:limit // 2] + ['...'] + parts[-limit // 2:]
        return ' -> '.join(parts)

    # convenience -----------------------------------------------------------
    def exits(self, normal=True, exceptional=True):
        out = []
        if normal:
            out.append(self.exit)
        if exceptional:
            out.append(self.raise_exit)
        return out

    def stmt_nodes(self, pred):
        return [n for n in self.nodes if n.ast is not None and pred(n)]


_cache = {}


def cfg_of(func):
    c = _cache.get(id(func))
    if c is None or c.func is not func:
        c = CFG(func)
        _cache[id(func)] = c
    return c


def clear_cache():
    _cache.clear()
