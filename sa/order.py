"""Which expressions are ValueSets (identity-hashed frozensets) and which sequences have an
address/hash dependent order — a small inter-procedural may-analysis used by C16.a.

ValueSet iteration order depends on object addresses (its elements hash by identity), and so
does iteration over set()/frozenset()/unite() of arbitrary objects.  An expression is
*unordered* if it is such a collection or a sequence built by iterating one without an
intervening sort."""
import ast

from .core import FUNC_TYPES, call_name, decorators, norm, own_nodes, short

SANITISERS = {'sorted', 'sorted_definitions', '_sort_names_by_start_pos'}
SET_MAKERS = {'set', 'frozenset', 'unite'}
SEQ_MAKERS = {'list', 'tuple', 'reversed', 'iter', 'chain', 'from_iterable', 'filter', 'map', 'enumerate', 'zip'}
VS_LIST_METHODS = {'get_signatures', 'goto', 'iterate', 'py__iter__'}   # ValueSet methods that walk the frozenset


class OrderAnalysis:
    def __init__(self, repo):
        self.repo = repo
        self.funcs = [f for _, _, f in repo.funcs]
        self.by_name = repo.methods_by_name
        self.vs = set()        # id(func) returning a ValueSet
        self.unord = set()     # id(func) returning / yielding an unordered sequence
        self._locals = {}
        self._param_memo = {}
        self._fix()

    # ------------------------------------------------------------------ helpers
    def _assignments(self, func):
        m = self._locals.get(id(func))
        if m is None:
            m = {}
            for n in own_nodes(func):
                if isinstance(n, ast.Assign):
                    for t in n.targets:
                        if isinstance(t, ast.Name):
                            m.setdefault(t.id, []).append(('=', n.value))
                        elif isinstance(t, (ast.Tuple, ast.List)):
                            for i, x in enumerate(t.elts):
                                if isinstance(x, ast.Name):
                                    if isinstance(n.value, (ast.Tuple, ast.List)) and len(n.value.elts) == len(t.elts):
                                        m.setdefault(x.id, []).append(('=', n.value.elts[i]))
                                    else:
                                        m.setdefault(x.id, []).append(('tup', (n.value, i)))
                elif isinstance(n, ast.AugAssign) and isinstance(n.target, ast.Name):
                    m.setdefault(n.target.id, []).append(('aug', n.value))
                    for lp in self._loops_around(n, func):
                        m.setdefault(n.target.id, []).append(('accum', lp.iter))
                elif isinstance(n, ast.Call) and isinstance(n.func, ast.Attribute) and n.func.attr in ('append', 'extend', 'insert') \
                        and isinstance(n.func.value, ast.Name):
                    for a in n.args:
                        m.setdefault(n.func.value.id, []).append(('aug', a) if n.func.attr == 'extend' else ('noop', a))
                    for lp in self._loops_around(n, func):
                        m.setdefault(n.func.value.id, []).append(('accum', lp.iter))
                elif isinstance(n, (ast.For, ast.AsyncFor)):
                    for x in ast.walk(n.target):
                        if isinstance(x, ast.Name):
                            m.setdefault(x.id, []).append(('elem', n.iter))
                elif isinstance(n, ast.comprehension):
                    for x in ast.walk(n.target):
                        if isinstance(x, ast.Name):
                            m.setdefault(x.id, []).append(('elem', n.iter))
            self._locals[id(func)] = m
        return m

    def _loops_around(self, node, func):
        out = []
        p = getattr(node, '_parent', None)
        while p is not None and p is not func:
            if isinstance(p, (ast.For, ast.AsyncFor)):
                out.append(p)
            p = getattr(p, '_parent', None)
        return out

    def callees(self, call, func):
        """Function defs a call may reach: exact resolution, self/cls methods through the
        hierarchy, else every def of that simple name (by-name)."""
        repo = self.repo
        f = call.func
        r = repo.resolve(f) if isinstance(f, (ast.Name, ast.Attribute)) else None
        if r:
            d = repo.def_by_dotted(r)
            if d is not None:
                if isinstance(d, ast.ClassDef):
                    init = repo.find_method(d._ci, '__init__')
                    return [], d
                return [d], None
            if isinstance(f, ast.Name):
                return [], None
        if isinstance(f, ast.Attribute):
            if isinstance(f.value, ast.Name) and f.value.id in ('self', 'cls') and func is not None:
                ci = repo.method_class(func)
                if ci is not None:
                    out = []
                    m = repo.find_method(ci, f.attr)
                    if m is not None:
                        out.append(m)
                    for sc in repo.subclasses(ci):
                        if f.attr in sc.methods:
                            out.append(sc.methods[f.attr])
                    if out:
                        return out, None
            return [d for _, _, d in self.by_name.get(f.attr, [])], None
        return [], None

    # ------------------------------------------------------------------ ValueSet typing
    def is_vs(self, e, func, depth=0):
        if depth > 6 or e is None:
            return False
        if isinstance(e, ast.Name):
            if e.id == 'NO_VALUES':
                return True
            if func is None:
                return False
            return any(kind in ('=', 'aug') and self.is_vs(v, func, depth + 1) for kind, v in self._assignments(func).get(e.id, []))
        if isinstance(e, ast.Attribute):
            return e.attr == 'NO_VALUES'
        if isinstance(e, ast.BinOp) and isinstance(e.op, (ast.BitOr, ast.BitAnd, ast.Sub)):
            return self.is_vs(e.left, func, depth + 1) or self.is_vs(e.right, func, depth + 1)
        if isinstance(e, ast.IfExp):
            return self.is_vs(e.body, func, depth + 1) or self.is_vs(e.orelse, func, depth + 1)
        if isinstance(e, ast.BoolOp):
            return any(self.is_vs(v, func, depth + 1) for v in e.values)
        if isinstance(e, ast.Call):
            cn = call_name(e)
            if cn == 'ValueSet' or (cn in ('from_sets', 'filter', '_from_frozen_set') and isinstance(e.func, ast.Attribute) and
                                    (norm(e.func.value) == 'ValueSet' or self.is_vs(e.func.value, func, depth + 1))):
                return True
            defs, cls = self.callees(e, func)
            if cls is not None:
                return self.repo.is_subclass(cls._ci, 'jedi.inference.base_value:ValueSet')
            if defs:
                hits = [d for d in defs if id(d) in self.vs]
                if isinstance(e.func, ast.Name) or (isinstance(e.func, ast.Attribute) and isinstance(e.func.value, ast.Name) and e.func.value.id in ('self', 'cls')):
                    return bool(hits)
                # by-name: a majority of the implementations return ValueSets
                return len(hits) * 2 > len(defs)
        return False

    # ------------------------------------------------------------------ order taint
    def is_unordered(self, e, func, depth=0):
        """may `e` be a collection whose iteration order depends on hashing/addresses?"""
        if depth > 8 or e is None:
            return False
        if self.is_vs(e, func):
            return True
        if isinstance(e, (ast.Set, ast.SetComp)):
            return True
        if isinstance(e, ast.Name):
            if func is None:
                return False
            for kind, v in self._assignments(func).get(e.id, []):
                if kind in ('=', 'aug', 'accum') and self.is_unordered(v, func, depth + 1):
                    return True
                if kind == 'tup' and self.tuple_elem_unordered(v[0], v[1], func, depth + 1):
                    return True
            return self.param_unordered(func, e.id, depth)
        if isinstance(e, (ast.ListComp, ast.GeneratorExp, ast.DictComp)):
            return any(self.is_unordered(g.iter, func, depth + 1) for g in e.generators)
        if isinstance(e, ast.BinOp) and isinstance(e.op, (ast.Add, ast.BitOr)):
            return self.is_unordered(e.left, func, depth + 1) or self.is_unordered(e.right, func, depth + 1)
        if isinstance(e, ast.IfExp):
            return self.is_unordered(e.body, func, depth + 1) or self.is_unordered(e.orelse, func, depth + 1)
        if isinstance(e, ast.Starred):
            return self.is_unordered(e.value, func, depth + 1)
        if isinstance(e, (ast.List, ast.Tuple)):
            return any(isinstance(x, ast.Starred) and self.is_unordered(x.value, func, depth + 1) for x in e.elts)
        if isinstance(e, ast.Call):
            cn = call_name(e)
            if cn in SANITISERS:
                return False
            if cn in SET_MAKERS and isinstance(e.func, ast.Name):
                return True
            if cn in SEQ_MAKERS:
                return any(self.is_unordered(a, func, depth + 1) for a in e.args)
            if isinstance(e.func, ast.Attribute) and cn in VS_LIST_METHODS and self.is_vs(e.func.value, func):
                return True
            if isinstance(e.func, ast.Attribute) and cn in ('values', 'keys', 'items', 'copy') and self.is_unordered(e.func.value, func, depth + 1):
                return True
            defs, cls = self.callees(e, func)
            if defs:
                hits = [d for d in defs if id(d) in self.unord]
                if isinstance(e.func, ast.Name) or (isinstance(e.func, ast.Attribute) and isinstance(e.func.value, ast.Name) and e.func.value.id in ('self', 'cls')):
                    return bool(hits)
                return len(hits) * 2 > len(defs)
        return False

    def tuple_elem_unordered(self, value, index, func, depth):
        """element `index` of a tuple-valued expression (a call returning a tuple literal)"""
        if depth > 8 or not isinstance(value, ast.Call):
            return False
        defs, _ = self.callees(value, func)
        precise = isinstance(value.func, ast.Name) or (isinstance(value.func, ast.Attribute) and isinstance(value.func.value, ast.Name)
                                                      and value.func.value.id in ('self', 'cls'))
        if not precise and len(defs) > 3:
            return False
        for d in defs:
            for n in own_nodes(d):
                if isinstance(n, ast.Return) and isinstance(n.value, ast.Tuple) and index < len(n.value.elts):
                    if self.is_unordered(n.value.elts[index], d, depth + 1):
                        return True
        return False

    def param_unordered(self, func, name, depth=0):
        """is some call site handing an unordered collection to parameter `name` of func?"""
        if depth > 3:
            return False
        a = func.args
        pos = [x.arg for x in a.posonlyargs + a.args]
        if name not in pos and name not in [x.arg for x in a.kwonlyargs]:
            return False
        key = (id(func), name)
        if key in self._param_memo:
            return self._param_memo[key]
        self._param_memo[key] = False
        idx = pos.index(name) if name in pos else None
        is_method = self.repo.method_class(func) is not None and pos and pos[0] in ('self', 'cls')
        res = False
        for c in self.repo.calls_of(func.name):
            caller = self.repo.enclosing_func(c)
            arg = None
            for k in c.keywords:
                if k.arg == name:
                    arg = k.value
            if arg is None and idx is not None:
                j = idx - 1 if (is_method and isinstance(c.func, ast.Attribute)) else idx
                if 0 <= j < len(c.args):
                    arg = c.args[j]
            if arg is not None and caller is not None and self.is_unordered(arg, caller, depth + 1):
                res = True
                break
        self._param_memo[key] = res
        return res

    def returns(self, func):
        """expressions a function hands to its caller: return values; for generators the
        yielded elements are modelled by the iterables they are drawn from."""
        outs = []
        for n in own_nodes(func):
            if isinstance(n, ast.Return) and n.value is not None:
                outs.append(('ret', n.value))
            elif isinstance(n, ast.YieldFrom):
                outs.append(('yieldfrom', n.value))
            elif isinstance(n, ast.Yield) and n.value is not None:
                outs.append(('yield', n))
        return outs

    def yield_in_unordered_loop(self, y, func):
        """is this `yield` executed once per element of an unordered iterable?"""
        p = getattr(y, '_parent', None)
        while p is not None and p is not func:
            if isinstance(p, (ast.For, ast.AsyncFor)) and self.is_unordered(p.iter, func):
                return True
            p = getattr(p, '_parent', None)
        return False

    def _fix(self):
        changed = True
        rounds = 0
        while changed and rounds < 12:
            changed = False
            rounds += 1
            self._param_memo = {}
            for f in self.funcs:
                outs = None
                if id(f) not in self.vs:
                    outs = self.returns(f)
                    decs = decorators(f)
                    for kind, v in outs:
                        if kind == 'ret' and self.is_vs(v, f):
                            self.vs.add(id(f))
                            changed = True
                            break
                        # signature_time_cache / generator protocol: the cached value is what is yielded last
                        if kind == 'yield' and ('signature_time_cache' in decs) and self.is_vs(v.value, f):
                            self.vs.add(id(f))
                            changed = True
                            break
                if id(f) not in self.unord:
                    outs = outs if outs is not None else self.returns(f)
                    sanitised = 'to_list' in decorators(f) and False
                    for kind, v in outs:
                        bad = False
                        if kind == 'ret':
                            bad = self.is_unordered(v, f) and not self.is_vs(v, f)
                        elif kind == 'yieldfrom':
                            bad = self.is_unordered(v, f)
                        elif kind == 'yield':
                            bad = self.yield_in_unordered_loop(v, f)
                        if bad:
                            self.unord.add(id(f))
                            changed = True
                            break
        self.rounds = rounds
        self._param_memo = {}
