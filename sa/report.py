"""Obligations, verdicts, known findings, evidence files."""
import json
import os
import re
import time

from .core import AnchorError, norm, short

VERIF = os.path.dirname(os.path.dirname(os.path.abspath(__file__)))


class Obligation:
    __slots__ = ('rule', 'ok', 'where', 'what', 'detail', 'key', 'known')

    def __init__(self, rule, ok, where, what, detail, key):
        self.rule = rule
        self.ok = ok
        self.where = where
        self.what = what
        self.detail = detail
        self.key = key
        self.known = None

    def as_dict(self):
        d = {'rule': self.rule, 'ok': self.ok, 'where': self.where, 'what': self.what}
        if self.detail:
            d['detail'] = self.detail
        if not self.ok:
            d['key'] = self.key
        return d


def _key_text(s):
    return re.sub(r'\s+', ' ', s).strip()


class Check:
    """Collects the obligations of one property run and turns them into the verdict."""

    def __init__(self, prop, tier, repo, root):
        self.prop = prop
        self.tier = tier
        self.repo = repo
        self.root = root
        self.obs = []
        self.floors = {}       # rule -> (count, floor)
        self.assumptions = []
        self.not_decided = []
        self.clauses = []
        self.notes = {}
        self.trusted = []
        self.exhaustive_rules = []
        self.t0 = time.time()
        self.analysed_funcs = set()

    # ------------------------------------------------------------ recording
    def ob(self, rule, ok, node, what, detail='', key=None):
        """Record one obligation.  `node`: AST node (or (relpath, line, qual) tuple) the
        obligation is discharged on.  key: stable identity of the construct for the
        known-findings file (default: qualified function + normalised statement)."""
        if isinstance(node, tuple):
            rel, line, qual = node
            where = '%s:%s %s' % (rel, line, qual)
            dkey = '%s|%s' % (qual, _key_text(what))
        elif node is None:
            where = '-'
            dkey = _key_text(what)
        else:
            where = self.repo.where(node)
            mod = getattr(node, '_mod', None)
            dkey = '%s:%s|%s' % (mod.name if mod else '?', self.repo.qual_of(node), _key_text(what))
            f = self.repo.qual_of(node)
            self.analysed_funcs.add((mod.name if mod else '?', f))
        o = Obligation(rule, bool(ok), where, what, detail, '%s|%s' % (rule, key if key is not None else dkey))
        self.obs.append(o)
        return bool(ok)

    def floor(self, rule, count, minimum, what=''):
        """Vacuity guard: a rule that matched fewer instances than confirmed by hand means
        the anchor moved: analysis error, not a violation."""
        self.floors[rule] = (count, minimum)
        if count < minimum:
            raise AnchorError('rule %s matched %d instance(s), floor is %d %s' % (rule, count, minimum, what))

    def clause(self, rule, text):
        self.clauses.append('%s: %s' % (rule, text))

    def assume(self, text):
        if text not in self.assumptions:
            self.assumptions.append(text)

    def undecided(self, text):
        self.not_decided.append(text)

    def trust(self, text):
        if text not in self.trusted:
            self.trusted.append(text)

    # ------------------------------------------------------------ verdict
    def finish(self, seed=0, extra=None, write=True, quiet=False):
        known = load_known(self.prop)
        violations = [o for o in self.obs if not o.ok]
        new, listed = [], []
        used = set()
        for o in violations:
            k = known.get(o.key)
            if k is not None:
                o.known = k
                listed.append(o)
                used.add(o.key)
            else:
                new.append(o)
        out = []
        for o in listed:
            out.append('KNOWN-FINDING: property=%s %s [%s at %s]' % (self.prop, o.known.get('what', o.what), o.rule, o.where))
        replay_paths = []
        if new:
            os.makedirs(os.path.join(VERIF, 'replay'), exist_ok=True)
        for i, o in enumerate(new):
            rp = os.path.join(VERIF, 'replay', '%s-%d.json' % (self.prop, i))
            if write:
                with open(rp, 'w') as f:
                    json.dump({'property': self.prop, 'rule': o.rule, 'where': o.where, 'what': o.what,
                               'detail': o.detail, 'key': o.key, 'root': self.root,
                               'rerun': './check %s --tier %s --root %s --rule %s' % (self.prop, self.tier, self.root, o.rule)},
                              f, indent=1)
            replay_paths.append(rp)
            out.append('VIOLATION property=%s replay=%s' % (self.prop, rp))
            out.append('  %s — %s — %s%s' % (o.where, o.rule, o.what, (' — ' + o.detail) if o.detail else ''))
        rules = {}
        for o in self.obs:
            r = rules.setdefault(o.rule, {'obligations': 0, 'discharged': 0})
            r['obligations'] += 1
            r['discharged'] += 1 if o.ok else 0
        for r, (c, m) in self.floors.items():
            rules.setdefault(r, {'obligations': 0, 'discharged': 0}).update({'instances': c, 'floor': m})
        distinct = len({o.key for o in self.obs})
        samples = []
        seen_rules = set()
        for o in self.obs:           # one sample per rule first, then fill up
            if o.rule not in seen_rules:
                seen_rules.add(o.rule)
                samples.append(o.as_dict())
        for o in self.obs:
            if len(samples) >= 40:
                break
            d = o.as_dict()
            if d not in samples:
                samples.append(d)
        stats = self.repo.stats() if self.repo is not None else {}
        cov = {
            'explanation': ('Static analysis (ast + own CFG/call-graph rules) of %s/jedi. Decides the necessary structural '
                            'conditions listed under "clauses" for property %s on this tree — NOT the behavioural '
                            'property for all inputs. Not decided: %s' % (self.root, self.prop, ' | '.join(self.not_decided) or '-')),
            'clauses': self.clauses,
            'obligations': len(self.obs),
            'discharged': len([o for o in self.obs if o.ok]),
            'known_findings': [{'key': o.key, 'where': o.where, 'what': o.known.get('what', o.what)} for o in listed],
            'evaluations': len(self.obs),
            'distinct_nontrivial': distinct,
            'rule': 'one evaluation = one obligation (rule instance on a concrete construct of the source); distinct = distinct (rule, construct) keys; every obligation is non-trivial in that its rule matched a real construct (floors guard against vacuous matches)',
            'rules': rules,
            'analysed': dict(stats, functions_with_obligations=len(self.analysed_funcs), root=self.root),
            'samples': samples,
            'trusted_base': ['python ast module', '/verif/sa engine (core.py, cfg.py)', 'sa/reference_locals.json (names of function locals on the pinned tree, used to undo behaviour-preserving renames)'] + self.trusted,
            'exhaustive_rules': self.exhaustive_rules,
            'checker_cmd': './check %s --tier %s' % (self.prop, self.tier),
        }
        ren = [(m.name,) + tuple(r) for m in (self.repo.modules.values() if self.repo is not None else []) for r in getattr(m, 'renames', [])]
        if ren:
            self.notes['locals_renamed_back_to_reference'] = ['%s:%s %s->%s' % r for r in ren[:20]]
        if self.notes:
            cov['notes'] = self.notes
        if extra:
            cov.update(extra)
        ev = {
            'property_id': self.prop, 'tier': self.tier, 'seed': int(seed), 'level': 'other',
            'coverage': cov,
            'assumptions': self.assumptions,
            'wall_s': round(time.time() - self.t0, 3),
            'violations': len(new),
        }
        if write:
            os.makedirs(os.path.join(VERIF, 'evidence'), exist_ok=True)
            with open(os.path.join(VERIF, 'evidence', '%s.json' % self.prop), 'w') as f:
                json.dump(ev, f, indent=1, sort_keys=False)
                f.write('\n')
        if not quiet:
            for line in out:
                print(line)
            print('%s %s: %d obligations, %d discharged, %d known finding(s), %d violation(s); %d rules; %.2fs'
                  % (self.prop, self.tier, len(self.obs), cov['discharged'], len(listed), len(new), len(rules), ev['wall_s']))
        return (1 if new else 0), new, listed


class Relabel:
    """re-labels the obligations of a rule shared between two properties"""
    def __init__(self, chk, rule):
        self._chk, self._rule = chk, rule

    def ob(self, rule, *a, **k):
        return self._chk.ob(self._rule, *a, **k)

    def floor(self, rule, *a, **k):
        return self._chk.floor(self._rule, *a, **k)

    def clause(self, *a, **k):
        pass

    def __getattr__(self, n):
        return getattr(self._chk, n)


def load_known(prop=None):
    """known_findings.json: {"findings": [{property, key, what, witness}], "fixed": [...]}.
    Only `findings` entries suppress; `fixed` entries suppress nothing."""
    p = os.path.join(VERIF, 'known_findings.json')
    if not os.path.exists(p):
        return {}
    with open(p) as f:
        data = json.load(f)
    out = {}
    for e in data.get('findings', []):
        if prop is None or e.get('property') == prop:
            out[e['key']] = e
    return out
