"""Program model of /repo/jedi for the static checks: modules, symbol tables, import maps,
class hierarchy, parent links, name resolution and call-site indexes.

Nothing from jedi is imported or executed: every fact comes from `ast` over the sources.
"""
import ast
import hashlib
import os
from collections import defaultdict


class AnchorError(Exception):
    """A function/class/table a rule is anchored in could not be found (or a floor was not
    reached).  Turned into `ANALYSIS-ERROR` + exit 2 by the driver: a vanished anchor means
    the checker needs attention, not that jedi is wrong."""


FUNC_TYPES = (ast.FunctionDef, ast.AsyncFunctionDef)
SCOPE_TYPES = FUNC_TYPES + (ast.ClassDef, ast.Lambda)


class NormStr(str):
    """Normalised source text of an AST node that compares equal to an expected text *up to a
    consistent renaming of variables bound inside the expression itself* (lambda parameters,
    comprehension targets).  Keeps rules that state an expected expression robust against
    behaviour-preserving renames of such variables."""
    __slots__ = ('node',)

    def __new__(cls, text, node):
        o = str.__new__(cls, text)
        o.node = node
        return o

    def __eq__(self, other):
        if str.__eq__(self, other) is True:     # NotImplemented (other is not a str) is truthy
            return True
        if isinstance(other, str) and not isinstance(other, NormStr) and self.node is not None:
            return _alpha_eq(self.node, other) or _alias_eq(self.node, other)
        return False

    def __ne__(self, other):
        return not self.__eq__(other)

    __hash__ = str.__hash__


def _alias_eq(node, expected):
    """is the expression `node` the expected expression up to temporaries?  The expected text is written with the names of the pinned
    tree: its single-assignment pure temporaries (reference table `__aliases__` of the enclosing function) are expanded, and so are
    those of the function as it is now - `str(path) not in s` and `str(file_io.path) not in s` are one expression when the reference
    has `path = file_io.path`, whether or not the temporary still exists."""
    if not isinstance(node, ast.expr):
        return False
    func = getattr(node, '_parent', None)
    while func is not None and not isinstance(func, FUNC_TYPES):
        func = getattr(func, '_parent', None)
    mod = getattr(func, '_mod', None)
    if func is None or mod is None:
        return False
    try:
        exp = ast.parse(expected, mode='eval').body
    except SyntaxError:
        return False
    from .locals_ref import load_reference
    from .lib import xnorm
    ral = load_reference().get('__aliases__', {}).get(mod.name, {}).get(getattr(func, '_qual', None), {})

    class _X(ast.NodeTransformer):
        depth = 0

        def visit_Name(self, n):
            if isinstance(n.ctx, ast.Load) and n.id in ral and self.depth < 6:
                self.depth += 1
                r = self.visit(ast.parse(ral[n.id], mode='eval').body)
                self.depth -= 1
                return r
            return n
    try:
        right = ast.unparse(ast.fix_missing_locations(_X().visit(exp)))
        left = str.__str__(xnorm(node, func))
    except Exception:
        return False
    return left == right


def _renameable(node):
    """names that may be renamed consistently without changing meaning: variables bound INSIDE the
    compared node itself (lambda parameters, comprehension targets).  Function-level locals are not
    renamed: rules use their names to select statements."""
    names = set()
    for n in ast.walk(node) if isinstance(node, ast.AST) else []:
        if isinstance(n, ast.Lambda):
            names |= {x.arg for x in n.args.args + n.args.kwonlyargs + n.args.posonlyargs}
        elif isinstance(n, ast.comprehension):
            names |= {x.id for x in ast.walk(n.target) if isinstance(x, ast.Name)}
    return names


def _alpha_eq(node, text):
    try:
        if isinstance(node, ast.expr):
            exp = ast.parse(text, mode='eval').body
        elif isinstance(node, ast.stmt):
            body = ast.parse(text).body
            if len(body) != 1:
                return False
            exp = body[0]
        else:
            return False
    except SyntaxError:
        return False
    ren = _renameable(node)
    fwd, back = {}, {}

    def uni(a, e):
        if type(a) is not type(e):
            return False
        if isinstance(a, ast.Name):
            if a.id == e.id and a.id not in back and e.id not in fwd:
                return True
            if a.id in ren:
                if fwd.get(e.id, a.id) != a.id or back.get(a.id, e.id) != e.id:
                    return False
                fwd[e.id] = a.id
                back[a.id] = e.id
                return True
            return a.id == e.id
        if isinstance(a, ast.arg):
            if a.arg in ren or a.arg == e.arg:
                if fwd.get(e.arg, a.arg) != a.arg or back.get(a.arg, e.arg) != e.arg:
                    return False
                fwd[e.arg] = a.arg
                back[a.arg] = e.arg
                return True
            return False
        for fld in a._fields:
            if fld in ('ctx', 'type_comment', 'kind'):
                continue
            x, y = getattr(a, fld, None), getattr(e, fld, None)
            if isinstance(x, list):
                if not isinstance(y, list) or len(x) != len(y):
                    return False
                for i, j in zip(x, y):
                    if isinstance(i, ast.AST):
                        if not uni(i, j):
                            return False
                    elif i != j:
                        return False
            elif isinstance(x, ast.AST):
                if not isinstance(y, ast.AST) or not uni(x, y):
                    return False
            elif x != y:
                return False
        return True
    return uni(node, exp)


def norm(node):
    """Normalised source text of an AST node (formatting/comment independent).  The result
    compares equal to an expected text up to a consistent renaming of locals (see NormStr)."""
    if node is None:
        return ''
    if isinstance(node, list):
        return '; '.join(norm(n) for n in node)
    try:
        return NormStr(ast.unparse(node), node)
    except Exception:  # pragma: no cover
        return ast.dump(node)


def short(node, n=110):
    s = norm(node).replace('\n', ' ')
    s = ' '.join(s.split())
    return s if len(s) <= n else s[:n - 3] + '...'


def walk_no_nested(node, include_self=True):
    """Walk a function body without descending into nested function/class/lambda scopes."""
    todo = [node] if include_self else list(ast.iter_child_nodes(node))
    first = True
    while todo:
        n = todo.pop()
        yield n
        if isinstance(n, SCOPE_TYPES) and not (first and include_self and n is node):
            first = False
            continue
        first = False
        todo.extend(ast.iter_child_nodes(n))


def own_nodes(func):
    """All AST nodes that belong to `func` itself (not to nested defs/lambdas/classes)."""
    todo = list(ast.iter_child_nodes(func))
    while todo:
        n = todo.pop()
        yield n
        if isinstance(n, SCOPE_TYPES):
            # decorators/defaults of a nested def are evaluated in this scope
            if isinstance(n, FUNC_TYPES + (ast.ClassDef,)):
                todo.extend(n.decorator_list)
            continue
        todo.extend(ast.iter_child_nodes(n))


class Module:
    def __init__(self, name, path, relpath, src):
        self.name = name
        self.path = path
        self.relpath = relpath
        self.src = src
        self.digest = hashlib.sha256(src.encode('utf-8')).hexdigest()
        self.tree = ast.parse(src, filename=path)
        from .locals_ref import normalise
        self.renames = normalise(name, self.tree)   # locals renamed back to their reference names
        self.is_package = os.path.basename(path) == '__init__.py'
        self.package = name if self.is_package else name.rpartition('.')[0]
        self.defs = {}      # qualname -> FunctionDef/ClassDef (nested included)
        self.top = {}       # top-level name -> binding node (def/class/assign)
        self.imports = {}   # module-level local name -> dotted target
        self.nloc = src.count('\n') + 1

    def __repr__(self):
        return '<Module %s>' % self.name


class ClassInfo:
    def __init__(self, mod, qual, node):
        self.mod = mod
        self.qual = qual
        self.node = node
        self.key = mod.name + ':' + qual
        self.bases = []       # resolved ClassInfo or dotted strings
        self.methods = {}     # name -> FunctionDef (own)
        self.attrs = {}       # name -> class-level Assign node

    def __repr__(self):
        return '<Class %s>' % self.key


class Repo:
    def __init__(self, root):
        self.root = os.path.abspath(root)
        self.pkgdir = os.path.join(self.root, 'jedi')
        if not os.path.isdir(self.pkgdir):
            raise AnchorError('no jedi package under %s' % self.root)
        self.modules = {}
        self._load()
        self._index()

    # ------------------------------------------------------------------ loading
    def _load(self):
        for dirpath, dirnames, filenames in os.walk(self.pkgdir):
            dirnames[:] = sorted(d for d in dirnames if d not in ('third_party', '__pycache__'))
            for fn in sorted(filenames):
                if not fn.endswith('.py'):
                    continue
                path = os.path.join(dirpath, fn)
                rel = os.path.relpath(path, self.root)
                parts = rel[:-3].split(os.sep)
                if parts[-1] == '__init__':
                    parts = parts[:-1]
                name = '.'.join(parts)
                with open(path, encoding='utf-8') as f:
                    src = f.read()
                try:
                    self.modules[name] = Module(name, path, rel, src)
                except SyntaxError as e:
                    raise AnchorError('cannot parse %s: %s' % (rel, e))

    def _index(self):
        self.classes = {}            # 'mod:Qual' -> ClassInfo
        self.classes_by_name = defaultdict(list)
        self.funcs = []              # (mod, qual, node)
        self.methods_by_name = defaultdict(list)   # simple name -> [(mod, qual, node)]
        self.calls_by_name = defaultdict(list)     # called simple name -> [Call]
        for mod in self.modules.values():
            self._index_module(mod)
        for ci in self.classes.values():
            for b in ci.node.bases:
                r = self.resolve(b)
                tgt = self.class_by_dotted(r) if r else None
                ci.bases.append(tgt if tgt is not None else (r or norm(b)))
        self._subclasses = defaultdict(list)
        for ci in self.classes.values():
            for b in ci.bases:
                if isinstance(b, ClassInfo):
                    self._subclasses[b.key].append(ci)

    def _index_module(self, mod):
        mod.tree._parent = None
        mod.tree._mod = mod

        def visit(node, qual):
            for child in ast.iter_child_nodes(node):
                if isinstance(child, (ast.expr_context, ast.operator, ast.boolop, ast.unaryop, ast.cmpop)):
                    continue        # singletons shared by every tree of the process: a back-link on them would tie all trees together
                child._parent = node
                child._mod = mod
                q = qual
                if isinstance(child, FUNC_TYPES + (ast.ClassDef,)):
                    q = (qual + '.' if qual else '') + child.name
                    child._qual = q
                    mod.defs.setdefault(q, child)
                    if isinstance(child, ast.ClassDef):
                        ci = ClassInfo(mod, q, child)
                        self.classes[ci.key] = ci
                        self.classes_by_name[child.name].append(ci)
                        child._ci = ci
                        for s in child.body:
                            if isinstance(s, FUNC_TYPES):
                                ci.methods.setdefault(s.name, s)
                            elif isinstance(s, ast.Assign):
                                for t in s.targets:
                                    if isinstance(t, ast.Name):
                                        ci.attrs[t.id] = s
                            elif isinstance(s, ast.AnnAssign) and isinstance(s.target, ast.Name):
                                ci.attrs[s.target.id] = s
                    else:
                        self.funcs.append((mod, q, child))
                        self.methods_by_name[child.name].append((mod, q, child))
                elif isinstance(child, ast.Call):
                    n = call_name(child)
                    if n:
                        self.calls_by_name[n].append(child)
                visit(child, q)

        visit(mod.tree, '')
        for s in mod.tree.body:
            self._bind_top(mod, s)

    def _bind_top(self, mod, s):
        if isinstance(s, FUNC_TYPES + (ast.ClassDef,)):
            mod.top[s.name] = s
        elif isinstance(s, ast.Assign):
            for t in s.targets:
                for n in ast.walk(t):
                    if isinstance(n, ast.Name):
                        mod.top[n.id] = s
        elif isinstance(s, (ast.AnnAssign, ast.AugAssign)) and isinstance(s.target, ast.Name):
            mod.top[s.target.id] = s
        elif isinstance(s, (ast.Import, ast.ImportFrom)):
            for local, target in self.import_bindings(mod, s):
                mod.imports[local] = target
        elif isinstance(s, (ast.If, ast.Try)):
            for sub in ast.iter_child_nodes(s):
                if isinstance(sub, ast.stmt):
                    self._bind_top(mod, sub)
                elif isinstance(sub, ast.ExceptHandler):
                    for x in sub.body:
                        self._bind_top(mod, x)

    def import_bindings(self, mod, s):
        out = []
        if isinstance(s, ast.Import):
            for a in s.names:
                if a.asname:
                    out.append((a.asname, a.name))
                else:
                    out.append((a.name.split('.')[0], a.name.split('.')[0]))
        elif isinstance(s, ast.ImportFrom):
            if s.level:
                base = mod.package.split('.') if mod.package else []
                if s.level > 1:
                    base = base[:len(base) - (s.level - 1)]
                prefix = '.'.join(base + ([s.module] if s.module else []))
            else:
                prefix = s.module or ''
            for a in s.names:
                if a.name == '*':
                    continue
                out.append((a.asname or a.name, (prefix + '.' if prefix else '') + a.name))
        return out

    # ------------------------------------------------------------------ lookup
    def module(self, name):
        m = self.modules.get(name)
        if m is None:
            raise AnchorError('module %s not found' % name)
        return m

    def find(self, modname, qual):
        """FunctionDef/ClassDef `qual` (dotted, nested allowed) in module `modname`."""
        m = self.module(modname)
        n = m.defs.get(qual)
        if n is None:
            raise AnchorError('%s:%s not found' % (modname, qual))
        return n

    def find_opt(self, modname, qual):
        m = self.modules.get(modname)
        return m.defs.get(qual) if m else None

    def cls(self, modname, qual):
        n = self.find(modname, qual)
        if not isinstance(n, ast.ClassDef):
            raise AnchorError('%s:%s is not a class' % (modname, qual))
        return n._ci

    def toplevel(self, modname, name):
        m = self.module(modname)
        n = m.top.get(name)
        if n is None:
            raise AnchorError('%s: top-level name %s not found' % (modname, name))
        return n

    def where(self, node):
        mod = getattr(node, '_mod', None)
        f = self.qual_of(node)
        return '%s:%s %s' % (mod.relpath if mod else '?', getattr(node, 'lineno', 0), f)

    def qual_of(self, node):
        """Qualified name of the def enclosing `node` (or of node itself if it is a def)."""
        n = node
        while n is not None:
            if isinstance(n, FUNC_TYPES + (ast.ClassDef,)) and hasattr(n, '_qual'):
                return n._qual
            n = getattr(n, '_parent', None)
        return '<module>'

    def enclosing_func(self, node):
        """Nearest FunctionDef whose *body* contains node (decorators, defaults and
        annotations of a def belong to the scope around it)."""
        child = node
        n = getattr(node, '_parent', None)
        while n is not None:
            if isinstance(n, FUNC_TYPES):
                if child in n.body:
                    return n
                if child is n.args and not getattr(node, '_in_defaults', False):
                    # a parameter (ast.arg) itself belongs to the function
                    if isinstance(node, ast.arg) or node is n.args:
                        return n
            child = n
            n = getattr(n, '_parent', None)
        return None

    def enclosing_class(self, node):
        n = getattr(node, '_parent', None)
        while n is not None:
            if isinstance(n, ast.ClassDef):
                return n
            if isinstance(n, FUNC_TYPES):
                return None
            n = getattr(n, '_parent', None)
        return None

    def method_class(self, func):
        """ClassInfo of the class a method is defined in (None for plain functions)."""
        p = getattr(func, '_parent', None)
        return p._ci if isinstance(p, ast.ClassDef) else None

    def enclosing_stmt(self, node):
        n = node
        while n is not None and not isinstance(n, ast.stmt):
            n = getattr(n, '_parent', None)
        return n

    def ancestors(self, node):
        n = getattr(node, '_parent', None)
        while n is not None:
            yield n
            n = getattr(n, '_parent', None)

    # ------------------------------------------------------------------ resolution
    def _local_imports(self, func):
        cache = getattr(func, '_limports', None)
        if cache is None:
            cache = {}
            for n in own_nodes(func):
                if isinstance(n, (ast.Import, ast.ImportFrom)):
                    for local, target in self.import_bindings(func._mod, n):
                        cache[local] = target
            func._limports = cache
        return cache

    def _local_bindings(self, func):
        cache = getattr(func, '_lbind', None)
        if cache is None:
            cache = set()
            a = func.args
            for x in a.posonlyargs + a.args + a.kwonlyargs:
                cache.add(x.arg)
            if a.vararg:
                cache.add(a.vararg.arg)
            if a.kwarg:
                cache.add(a.kwarg.arg)
            glob = set()
            for n in own_nodes(func):
                if isinstance(n, ast.Name) and isinstance(n.ctx, (ast.Store, ast.Del)):
                    cache.add(n.id)
                elif isinstance(n, (ast.Global, ast.Nonlocal)):
                    glob.update(n.names)
                elif isinstance(n, FUNC_TYPES + (ast.ClassDef,)):
                    cache.add(n.name)
                elif isinstance(n, ast.ExceptHandler) and n.name:
                    cache.add(n.name)
            cache -= glob
            func._lbind = cache
        return cache

    def resolve(self, expr):
        """Dotted name an expression denotes (`jedi.inference.compiled.load_module`,
        `builtins.getattr`, `sys.path`) or None for locals/unknown.  Follows module-level and
        function-local imports, re-exports and `self.`/`cls.` are NOT handled here."""
        if isinstance(expr, ast.Name):
            mod = expr._mod
            f = self.enclosing_func(expr)
            # comprehension / lambda variables
            for a in self.ancestors(expr):
                if isinstance(a, ast.Lambda):
                    if expr.id in {x.arg for x in a.args.args + a.args.kwonlyargs + a.args.posonlyargs}:
                        return None
                elif isinstance(a, (ast.ListComp, ast.SetComp, ast.DictComp, ast.GeneratorExp)):
                    for g in a.generators:
                        for t in ast.walk(g.target):
                            if isinstance(t, ast.Name) and t.id == expr.id:
                                return None
            while f is not None:
                li = self._local_imports(f)
                if expr.id in li:
                    return self.canonical(li[expr.id])
                if expr.id in self._local_bindings(f):
                    return None
                f = self.enclosing_func(f)
            # class body names
            if expr.id in mod.imports:
                return self.canonical(mod.imports[expr.id])
            if expr.id in mod.top:
                return mod.name + '.' + expr.id
            return 'builtins.' + expr.id
        if isinstance(expr, ast.Attribute):
            base = self.resolve(expr.value)
            if base is None:
                return None
            return self.canonical(base + '.' + expr.attr)
        return None

    def canonical(self, dotted, depth=0):
        """Follow re-exports: `jedi.api.Script` -> where it is defined."""
        if depth > 8:
            return dotted
        parts = dotted.split('.')
        for i in range(len(parts), 0, -1):
            mn = '.'.join(parts[:i])
            m = self.modules.get(mn)
            if m is not None:
                rest = parts[i:]
                if not rest:
                    return dotted
                if rest[0] in m.top:
                    return dotted
                if rest[0] in m.imports:
                    return self.canonical('.'.join([m.imports[rest[0]]] + rest[1:]), depth + 1)
                # a submodule?
                return dotted
        return dotted

    def class_by_dotted(self, dotted):
        if not dotted:
            return None
        parts = dotted.split('.')
        for i in range(len(parts) - 1, 0, -1):
            mn = '.'.join(parts[:i])
            if mn in self.modules:
                return self.classes.get(mn + ':' + '.'.join(parts[i:]))
        return None

    def def_by_dotted(self, dotted):
        """(module, node) of the def/class a canonical dotted name denotes, if in the package."""
        if not dotted:
            return None
        parts = dotted.split('.')
        for i in range(len(parts) - 1, 0, -1):
            mn = '.'.join(parts[:i])
            m = self.modules.get(mn)
            if m is not None:
                n = m.defs.get('.'.join(parts[i:]))
                if n is not None:
                    return n
                return None
        return None

    # ------------------------------------------------------------------ classes
    def mro(self, ci):
        out, seen = [], set()

        def rec(c):
            if c.key in seen:
                return
            seen.add(c.key)
            out.append(c)
            for b in c.bases:
                if isinstance(b, ClassInfo):
                    rec(b)
        rec(ci)
        return out

    def find_method(self, ci, name):
        for c in self.mro(ci):
            if name in c.methods:
                return c.methods[name]
        return None

    def find_attr(self, ci, name):
        for c in self.mro(ci):
            if name in c.attrs:
                return c.attrs[name]
        return None

    def subclasses(self, ci, transitive=True):
        out, todo, seen = [], [ci], {ci.key}
        while todo:
            c = todo.pop()
            for s in self._subclasses.get(c.key, []):
                if s.key not in seen:
                    seen.add(s.key)
                    out.append(s)
                    if transitive:
                        todo.append(s)
        return out

    def is_subclass(self, ci, base_key):
        return any(c.key == base_key for c in self.mro(ci))

    # ------------------------------------------------------------------ call sites
    def calls_of(self, name):
        """All Call nodes whose callee's simple name is `name` (by-name over-approximation)."""
        return list(self.calls_by_name.get(name, []))

    def all_calls(self):
        for lst in self.calls_by_name.values():
            for c in lst:
                yield c

    def stats(self):
        return {'modules': len(self.modules),
                'functions': len(self.funcs),
                'classes': len(self.classes),
                'lines': sum(m.nloc for m in self.modules.values()),
                'call_sites': sum(len(v) for v in self.calls_by_name.values())}


def call_name(call):
    if not isinstance(call, ast.Call):
        return None
    f = call.func
    if isinstance(f, ast.Name):
        return f.id
    if isinstance(f, ast.Attribute):
        return f.attr
    return None


def dotted_text(expr):
    """`a.b.c` text of a Name/Attribute chain, else None."""
    parts = []
    while isinstance(expr, ast.Attribute):
        parts.append(expr.attr)
        expr = expr.value
    if isinstance(expr, ast.Name):
        parts.append(expr.id)
        return '.'.join(reversed(parts))
    return None


def kwarg(call, name):
    for k in call.keywords:
        if k.arg == name:
            return k.value
    return None


def decorators(func):
    """Simple names of a function's decorators: `@a.b(x)` -> 'b', `@c` -> 'c'."""
    out = []
    for d in func.decorator_list:
        e = d.func if isinstance(d, ast.Call) else d
        out.append(e.attr if isinstance(e, ast.Attribute) else getattr(e, 'id', norm(e)))
    return out


def decorator_node(func, name):
    for d in func.decorator_list:
        e = d.func if isinstance(d, ast.Call) else d
        n = e.attr if isinstance(e, ast.Attribute) else getattr(e, 'id', None)
        if n == name:
            return d
    return None


def const_value(node):
    """Python value of a literal expression (constants, tuples/lists/sets/dicts of them)."""
    return ast.literal_eval(node)


def names_in(node):
    return {n.id for n in ast.walk(node) if isinstance(n, ast.Name)}


def atoms(expr, polarity=True):
    """Decompose a condition known to be `polarity` into atomic (expr, polarity) facts:
    (a and b)=T -> a=T, b=T;  (a or b)=F -> a=F, b=F;  not a -> flip."""
    if isinstance(expr, ast.UnaryOp) and isinstance(expr.op, ast.Not):
        return atoms(expr.operand, not polarity)
    if isinstance(expr, ast.BoolOp):
        if isinstance(expr.op, ast.And) and polarity:
            return [a for v in expr.values for a in atoms(v, True)]
        if isinstance(expr.op, ast.Or) and not polarity:
            return [a for v in expr.values for a in atoms(v, False)]
        return [(expr, polarity)]
    return [(expr, polarity)]


def expr_guards(node, stop):
    """Facts guaranteed by the *expression* context of `node` up to ancestor `stop`
    (exclusive): earlier conjuncts of an `and`, negated earlier disjuncts of an `or`, the
    test of a conditional expression, the `if`s of enclosing comprehension clauses."""
    facts = []
    child = node
    parent = getattr(node, '_parent', None)
    while parent is not None and child is not stop:
        if isinstance(parent, ast.BoolOp):
            idx = next((i for i, v in enumerate(parent.values) if v is child), None)
            if idx:
                pol = isinstance(parent.op, ast.And)
                for v in parent.values[:idx]:
                    facts.extend(atoms(v, pol))
        elif isinstance(parent, ast.IfExp):
            if child is parent.body:
                facts.extend(atoms(parent.test, True))
            elif child is parent.orelse:
                facts.extend(atoms(parent.test, False))
        elif isinstance(parent, (ast.ListComp, ast.SetComp, ast.GeneratorExp, ast.DictComp)):
            if not isinstance(child, ast.comprehension):
                for g in parent.generators:
                    for c in g.ifs:
                        facts.extend(atoms(c, True))
            else:
                idx = parent.generators.index(child)
                for g in parent.generators[:idx]:
                    for c in g.ifs:
                        facts.extend(atoms(c, True))
        elif isinstance(parent, ast.comprehension):
            if child in parent.ifs:
                i = parent.ifs.index(child)
                for c in parent.ifs[:i]:
                    facts.extend(atoms(c, True))
        child = parent
        parent = getattr(parent, '_parent', None)
    return facts
