"""Inventory of process-lifetime mutable stores in the package (C08.a / C09.b).

A store is state that survives from one Script to the next: module-level or class-level
containers that are mutated by function code, closure variables of factories that run at
import time (decorators) and are mutated by the inner function, module globals rebound through
`global`, functools caches, and writes to attributes of other jedi modules."""
import ast

from .core import FUNC_TYPES, call_name, decorators, dotted_text, norm, own_nodes, short

MUTATORS = {'add', 'append', 'appendleft', 'update', 'setdefault', 'pop', 'popitem', 'clear', 'extend', 'insert', 'remove',
            'discard', 'popleft', '__setitem__', '__delitem__', 'sort', 'reverse', 'put', 'move_to_end'}
CONTAINER_CTORS = {'dict', 'list', 'set', 'deque', 'defaultdict', 'OrderedDict', 'Counter', 'WeakKeyDictionary',
                   'WeakValueDictionary', 'WeakSet', 'Queue', 'ChainMap', 'bytearray'}
FUNCTOOLS_CACHES = {'lru_cache', 'cache', '_lru_cache_wrapper'}


def is_container_expr(repo, e):
    if isinstance(e, (ast.Dict, ast.List, ast.Set, ast.DictComp, ast.ListComp, ast.SetComp)):
        return True
    if isinstance(e, ast.Call):
        cn = call_name(e)
        if cn in CONTAINER_CTORS:
            return True
        r = repo.resolve(e.func)
        d = repo.def_by_dotted(r) if r else None
        if isinstance(d, ast.ClassDef):
            # an instance of a package class: a store if its __init__ creates containers
            init = repo.find_method(d._ci, '__init__')
            if init is not None:
                for s in own_nodes(init):
                    if isinstance(s, ast.Assign) and is_container_expr(repo, s.value) and any(isinstance(t, ast.Attribute) for t in s.targets):
                        return True
    return False


def _mutation_of(node):
    """if `node` mutates some expression X, return X (the expression being mutated)."""
    if isinstance(node, ast.Subscript) and isinstance(node.ctx, (ast.Store, ast.Del)):
        return node.value
    if isinstance(node, ast.Call) and isinstance(node.func, ast.Attribute) and node.func.attr in MUTATORS:
        return node.func.value
    if isinstance(node, ast.AugAssign):
        return node.target
    return None


def import_time_functions(repo):
    """ids of function defs that run while modules are imported: used as a decorator (directly
    or as a decorator factory), called at module/class level, or nested inside such a function
    and returned/applied by it."""
    used = set()
    for mod in repo.modules.values():
        for n in ast.walk(mod.tree):
            if isinstance(n, FUNC_TYPES + (ast.ClassDef,)):
                for d in n.decorator_list:
                    e = d.func if isinstance(d, ast.Call) else d
                    r = repo.resolve(e)
                    t = repo.def_by_dotted(r) if r else None
                    if isinstance(t, FUNC_TYPES):
                        used.add(id(t))
                    elif isinstance(e, ast.Attribute):
                        # plugin_manager.decorate() and friends: method decorators
                        for _, _, t2 in repo.methods_by_name.get(e.attr, []):
                            used.add(id(t2))
        for s in mod.tree.body:
            for n in ast.walk(s) if not isinstance(s, FUNC_TYPES + (ast.ClassDef,)) else []:
                if isinstance(n, ast.Call):
                    r = repo.resolve(n.func)
                    t = repo.def_by_dotted(r) if r else None
                    if isinstance(t, FUNC_TYPES):
                        used.add(id(t))
    # nested defs of import-time functions run at import time when they are returned/called there
    changed = True
    while changed:
        changed = False
        for _, _, f in repo.funcs:
            if id(f) in used:
                for n in own_nodes(f):
                    if isinstance(n, FUNC_TYPES) and id(n) not in used:
                        returned = any(isinstance(r, ast.Return) and isinstance(r.value, ast.Name) and r.value.id == n.name for r in own_nodes(f))
                        called = any(isinstance(c, ast.Call) and isinstance(c.func, ast.Name) and c.func.id == n.name for c in own_nodes(f))
                        if returned or called:
                            # a returned inner function of a decorator *factory* is the real decorator
                            used.add(id(n))
                            changed = True
    return used


def find_stores(repo):
    """-> list of dicts {key, kind, node, why}"""
    out = {}

    def add(key, kind, node, why):
        if key not in out:
            out[key] = {'key': key, 'kind': kind, 'node': node, 'why': [why]}
        else:
            out[key]['why'].append(why)
    # ---- module level
    mod_containers = {}
    for mod in repo.modules.values():
        for name, st in mod.top.items():
            v = getattr(st, 'value', None)
            if isinstance(st, (ast.Assign, ast.AnnAssign)) and v is not None and is_container_expr(repo, v):
                mod_containers[mod.name + '.' + name] = st
    class_containers = {}
    for ci in repo.classes.values():
        for name, st in ci.attrs.items():
            v = getattr(st, 'value', None)
            if v is not None and is_container_expr(repo, v):
                class_containers[(ci.key, name)] = st
    imp = import_time_functions(repo)
    for mod in repo.modules.values():
        for n in ast.walk(mod.tree):
            f = repo.enclosing_func(n) if not isinstance(n, ast.Module) else None
            tgt = _mutation_of(n)
            if tgt is not None and f is not None:
                r = repo.resolve(tgt)
                if r in mod_containers:
                    add(r, 'module-container', mod_containers[r], 'mutated in %s:%s `%s`' % (mod.name, repo.qual_of(n), short(repo.enclosing_stmt(n), 50)))
                # class-level container through self./cls./Class.
                if isinstance(tgt, ast.Attribute):
                    base = tgt.value
                    owner = None
                    if isinstance(base, ast.Name) and base.id in ('self', 'cls'):
                        ci = repo.method_class(f)
                        # nested function inside a method
                        ff = f
                        while ci is None and ff is not None:
                            ff = repo.enclosing_func(ff)
                            ci = repo.method_class(ff) if ff is not None else None
                        owner = ci
                    else:
                        rb = repo.resolve(base)
                        owner = repo.class_by_dotted(rb) if rb else None
                    if owner is not None:
                        for c in repo.mro(owner):
                            if (c.key, tgt.attr) in class_containers:
                                # per-instance re-initialisation in __init__ makes it an instance field
                                init = c.methods.get('__init__')
                                reinit = init is not None and any(isinstance(s, ast.Assign) and any(
                                    isinstance(t, ast.Attribute) and t.attr == tgt.attr and isinstance(t.value, ast.Name) and t.value.id == 'self'
                                    for t in s.targets) for s in own_nodes(init))
                                if not reinit:
                                    add('%s.%s' % (c.key.replace(':', '.'), tgt.attr), 'class-container', class_containers[(c.key, tgt.attr)],
                                        'mutated in %s:%s' % (mod.name, repo.qual_of(n)))
                                break
                # closure variable of an import-time factory
                if isinstance(tgt, ast.Name):
                    outer = repo.enclosing_func(f)
                    while outer is not None:
                        binds = [s for s in own_nodes(outer) if isinstance(s, (ast.Assign, ast.AnnAssign)) and getattr(s, 'value', None) is not None
                                 and any(isinstance(t, ast.Name) and t.id == tgt.id for t in (s.targets if isinstance(s, ast.Assign) else [s.target]))]
                        if binds:
                            if is_container_expr(repo, binds[0].value) and id(outer) in imp and tgt.id not in repo._local_bindings(f):
                                add('%s:%s:%s' % (mod.name, repo.qual_of(outer), tgt.id), 'closure', binds[0],
                                    'closure of import-time factory, mutated in %s' % repo.qual_of(n))
                            break
                        outer = repo.enclosing_func(outer)
            # global rebinding
            if isinstance(n, ast.Global) and f is not None:
                for name in n.names:
                    stores = [x for x in own_nodes(f) if isinstance(x, ast.Name) and x.id == name and isinstance(x.ctx, ast.Store)]
                    if stores:
                        add('%s.%s' % (mod.name, name), 'global-rebind', stores[0], 'rebound via `global` in %s' % repo.qual_of(n))
            # functools caches
            if isinstance(n, FUNC_TYPES):
                for d in n.decorator_list:
                    e = d.func if isinstance(d, ast.Call) else d
                    r = repo.resolve(e) or ''
                    if r.startswith('functools.') and r.split('.')[-1] in FUNCTOOLS_CACHES:
                        add('%s:%s' % (mod.name, repo.qual_of(n)), 'functools-cache', n, '@%s' % r)
            if isinstance(n, ast.Call) and f is None:
                r = repo.resolve(n.func) or ''
                if r.startswith('functools.') and r.split('.')[-1] in FUNCTOOLS_CACHES:
                    add('%s:%s' % (mod.name, norm(n)[:40]), 'functools-cache', n, 'module-level %s' % r)
            # attribute of another jedi module written from a function
            if isinstance(n, ast.Attribute) and isinstance(n.ctx, ast.Store) and f is not None:
                rb = repo.resolve(n.value)
                if rb in repo.modules and rb != mod.name:
                    add('%s.*' % rb, 'module-attr-write', n, '`%s` in %s:%s' % (short(repo.enclosing_stmt(n), 50), mod.name, repo.qual_of(n)))
                # attribute stored on a function object
                r = repo.resolve(n.value)
                t = repo.def_by_dotted(r) if r else None
                if isinstance(t, FUNC_TYPES):
                    add('%s.%s' % (r, n.attr), 'function-attr', n, 'attribute stored on a function object')
    return sorted(out.values(), key=lambda d: d['key'])
