"""Rename-normalisation of function locals.

Rules select statements by the names jedi's authors gave their local variables on the pinned
tree ("the assignment to `until_position`").  A behaviour-preserving rename of such a local
must not change a verdict, so before the rules run every function is compared with a reference
table of its locals (sa/reference_locals.json, generated from the pinned tree by
tools/mklocals.py): a reference local that no longer exists is matched with the one new local
whose first binding has the same *fingerprint* (kind of binding + right-hand side with all
locals abstracted), and the syntax tree is renamed back to the reference name.  If the binding
itself changed there is no match and the rules see the tree as it is."""
import ast
import json
import os

FUNC = (ast.FunctionDef, ast.AsyncFunctionDef)
REF_PATH = os.path.join(os.path.dirname(os.path.abspath(__file__)), 'reference_locals.json')


def _own(func):
    todo = list(ast.iter_child_nodes(func))
    while todo:
        n = todo.pop()
        yield n
        if isinstance(n, FUNC + (ast.ClassDef, ast.Lambda)):
            continue
        todo.extend(ast.iter_child_nodes(n))


def _params(func):
    a = func.args
    ps = {x.arg for x in a.posonlyargs + a.args + a.kwonlyargs}
    if a.vararg:
        ps.add(a.vararg.arg)
    if a.kwarg:
        ps.add(a.kwarg.arg)
    return ps


def local_names(func):
    names = set()
    glob = set()
    comp_targets = set()
    for n in _own(func):
        if isinstance(n, ast.comprehension):
            comp_targets |= {id(x) for x in ast.walk(n.target) if isinstance(x, ast.Name)}
    for n in _own(func):
        if isinstance(n, ast.Name) and isinstance(n.ctx, (ast.Store, ast.Del)) and id(n) not in comp_targets:
            names.add(n.id)
        elif isinstance(n, ast.ExceptHandler) and n.name:
            names.add(n.name)
        elif isinstance(n, (ast.Global, ast.Nonlocal)):
            glob.update(n.names)
    return names - _params(func) - glob


class _Abstract(ast.NodeTransformer):
    def __init__(self, locs):
        self.locs = locs

    def visit_Name(self, node):
        if node.id in self.locs:
            return ast.copy_location(ast.Name(id='_', ctx=node.ctx), node)
        return node


def _abs(node, locs):
    import copy
    return ast.unparse(_Abstract(locs).visit(copy.deepcopy(node)))


def fingerprints(func):
    """{local name: fingerprint of its FIRST binding}"""
    out = {}
    for nm, fp in _bindings(func):
        if nm not in out:
            out[nm] = fp
    return out


def fingerprints_all(func):
    """{local name: sorted fingerprints of ALL its bindings} - told apart `s = a; if c: s = '(' + a + ')'` from `n = a; ...; n = b`"""
    out = {}
    for nm, fp in _bindings(func):
        out.setdefault(nm, []).append(fp)
    return {k: sorted(v) for k, v in out.items()}


def _bindings(func):
    locs = local_names(func)
    out = []
    stmts = sorted([n for n in _own(func) if isinstance(n, (ast.stmt, ast.comprehension, ast.ExceptHandler, ast.withitem, ast.NamedExpr))],
                   key=lambda n: (getattr(n, 'lineno', 0), getattr(n, 'col_offset', 0)))

    def targets(t, prefix=''):
        if isinstance(t, ast.Name):
            yield t.id, prefix
        elif isinstance(t, (ast.Tuple, ast.List)):
            for i, e in enumerate(t.elts):
                yield from targets(e, prefix + '[%d]' % i)
        elif isinstance(t, ast.Starred):
            yield from targets(t.value, prefix + '*')
    for s in stmts:
        binds = []
        if isinstance(s, ast.Assign):
            for t in s.targets:
                for nm, pos in targets(t):
                    binds.append((nm, 'assign%s=%s' % (pos, _abs(s.value, locs))))
        elif isinstance(s, ast.AnnAssign) and s.value is not None:
            for nm, pos in targets(s.target):
                binds.append((nm, 'assign%s=%s' % (pos, _abs(s.value, locs))))
        elif isinstance(s, ast.AugAssign):
            for nm, pos in targets(s.target):
                binds.append((nm, 'aug%s' % _abs(s.value, locs)))
        elif isinstance(s, (ast.For, ast.AsyncFor)):
            for nm, pos in targets(s.target):
                binds.append((nm, 'for%s in %s' % (pos, _abs(s.iter, locs))))
        elif isinstance(s, ast.withitem) and s.optional_vars is not None:
            for nm, pos in targets(s.optional_vars):
                binds.append((nm, 'with%s %s' % (pos, _abs(s.context_expr, locs))))
        elif isinstance(s, ast.ExceptHandler) and s.name:
            binds.append((s.name, 'except %s' % (_abs(s.type, locs) if s.type is not None else '')))
        elif isinstance(s, ast.NamedExpr):
            binds.append((s.target.id, 'walrus=%s' % _abs(s.value, locs)))
        elif isinstance(s, FUNC):
            pass
        for nm, fp in binds:
            if nm in locs:
                out.append((nm, fp))
    return out


def functions_of(tree):
    """(qualname, node) for every def in a module tree"""
    out = []

    def rec(node, qual):
        for ch in ast.iter_child_nodes(node):
            if isinstance(ch, FUNC + (ast.ClassDef,)):
                q = (qual + '.' if qual else '') + ch.name
                if isinstance(ch, FUNC):
                    out.append((q, ch))
                rec(ch, q)
            else:
                rec(ch, qual)
    rec(tree, '')
    return out


def build_reference(modules):
    """modules: {module name: ast tree} -> reference table"""
    from .canon import build_function_reference, build_module_names_reference
    ref = {'__functions__': build_function_reference(modules), '__module_names__': build_module_names_reference(modules)}
    for mname, tree in modules.items():
        for q, f in functions_of(tree):
            fps = fingerprints(f)
            if fps:
                ref.setdefault(mname, {}).setdefault(q, fps)
                ref.setdefault('__allfp__', {}).setdefault(mname, {}).setdefault(q, fingerprints_all(f))
            from .lib import _alias_map
            al = {k: ast.unparse(v) for k, v in _alias_map(f).items()}
            if al:
                ref.setdefault('__aliases__', {}).setdefault(mname, {}).setdefault(q, al)
            bs = [[fp, names] for _n, fp, names in binders_of(f)]
            if bs:
                ref.setdefault('__binders__', {}).setdefault(mname, {}).setdefault(q, bs)
    return ref


_ref_cache = None


def load_reference():
    global _ref_cache
    if _ref_cache is None:
        if os.path.exists(REF_PATH):
            with open(REF_PATH) as f:
                _ref_cache = json.load(f)
        else:
            _ref_cache = {}
    return _ref_cache


def _inline_return_temps(f, known):
    out = []
    counts = {}
    for n in ast.walk(f):
        if isinstance(n, ast.Name):
            counts[n.id] = counts.get(n.id, 0) + 1
    for node in ast.walk(f):
        for field in ('body', 'orelse', 'finalbody'):
            body = getattr(node, field, None)
            if not isinstance(body, list):
                continue
            i = 0
            while i + 1 < len(body):
                a, r = body[i], body[i + 1]
                if isinstance(a, ast.Assign) and len(a.targets) == 1 and isinstance(a.targets[0], ast.Name) and isinstance(r, ast.Return) \
                        and isinstance(r.value, ast.Name) and r.value.id == a.targets[0].id and a.targets[0].id not in known \
                        and counts.get(a.targets[0].id) == 2:
                    new = ast.Return(value=a.value)
                    ast.copy_location(new, a)
                    new.end_lineno, new.end_col_offset = getattr(a, 'end_lineno', None), getattr(a, 'end_col_offset', None)
                    body[i:i + 2] = [new]
                    out.append((a.targets[0].id, None))
                i += 1
    return out


def normalise(mname, tree):
    """rename renamed locals of the module's functions back to their reference names; returns the list of renames done"""
    from .canon import canonicalise_functions, canonicalise_temps, canonicalise_comparisons
    canonicalise_comparisons(tree)
    done = list(canonicalise_functions(mname, tree, load_reference()))
    if done:
        canonicalise_comparisons(tree)      # inlined helpers may have produced new spellings
    ref = load_reference().get(mname)
    if not ref:
        done.extend(canonicalise_temps(mname, tree, load_reference()))
        return done
    for _round in (1, 2):
        _swap_param_copies(tree, ref, done)
        _rename_locals_back(tree, ref, done, load_reference().get('__allfp__', {}).get(mname, {}))
        # new temporaries are substituted only now (a renamed reference local is not a new temporary); a second round of renaming sees
        # right-hand sides without them
        more = canonicalise_temps(mname, tree, load_reference())
        done.extend(more)
        if not more:
            break
    _rename_binders_back(tree, load_reference().get('__binders__', {}).get(mname, {}), done)
    from .canon import restore_reference_temps
    done.extend(restore_reference_temps(mname, tree, load_reference()))
    return done


def _swap_param_copies(tree, ref, done):
    """The reference keeps the original value of a parameter in an alias and re-binds the parameter (`base = p; while p: ...; p = p.x`);
    a refactoring that leaves the parameter alone and walks a copy instead (`cur = p; while cur: ...; cur = cur.x`, `p` read later) is the
    same program with the two roles swapped.  Undone when: the reference local B is bound from the bare parameter P, B is missing,
    P is never stored in the function, and a NEW local X is first bound by the top-level statement `X = P` (so it dominates what
    follows) and re-bound later; no nested function reads P or X.  Then `X = P` becomes `B = P`, X is renamed P, and later reads of P
    become B."""
    for q, f in functions_of(tree):
        rf = ref.get(q)
        if not rf:
            continue
        ps = _params(f)
        act_names = local_names(f)
        for B, fp in rf.items():
            if B in act_names or not fp.startswith('assign=') or fp[7:] not in ps:
                continue
            P = fp[7:]
            if any(isinstance(n, ast.Name) and n.id == P and isinstance(n.ctx, (ast.Store, ast.Del)) for n in _own(f)):
                continue
            nested = [n for n in _own(f) if isinstance(n, FUNC + (ast.Lambda,))]
            for i, st in enumerate(f.body):
                if not (isinstance(st, ast.Assign) and len(st.targets) == 1 and isinstance(st.targets[0], ast.Name)
                        and isinstance(st.value, ast.Name) and st.value.id == P):
                    continue
                X = st.targets[0].id
                if X in rf or X in ps:
                    continue
                stores = [n for n in _own(f) if isinstance(n, ast.Name) and n.id == X and isinstance(n.ctx, ast.Store)]
                if len(stores) < 2:
                    continue
                if any(isinstance(n, ast.Name) and n.id in (P, X) for fn in nested for n in ast.walk(fn)):
                    continue
                if any(isinstance(n, ast.Name) and n.id == X for s0 in f.body[:i] for n in ast.walk(s0)):
                    continue
                for s1 in f.body[i + 1:]:
                    for n in ast.walk(s1):
                        if isinstance(n, ast.Name) and n.id == P:
                            n.id = B
                for s1 in f.body[i + 1:]:
                    for n in ast.walk(s1):
                        if isinstance(n, ast.Name) and n.id == X:
                            n.id = P
                st.targets[0].id = B
                done.append((q, X, '%s (parameter copy swapped with alias %s)' % (P, B)))
                break


def _rename_locals_back(tree, ref, done, refall=None):
    for q, f in functions_of(tree):
        rf = ref.get(q)
        # a local the reference function does not have, bound once and returned by the very next statement, is a "return through a
        # temporary" refactoring: inline it, so that rules see `return EXPR` as in the reference
        for a, r in _inline_return_temps(f, set(rf or ())):
            done.append((q, a, '<inlined into return>'))
        if not rf:
            continue
        act_names = local_names(f)
        missing = [r for r in rf if r not in act_names]
        if not missing:
            continue
        act = fingerprints(f)
        extra = [a for a in act if a not in rf]
        mapping = {}
        # first: locals whose whole set of bindings is unique on both sides
        rall = (refall or {}).get(q) or {}
        if rall:
            aall = fingerprints_all(f)
            for r in missing:
                if r not in rall or sum(1 for r2 in missing if rall.get(r2) == rall[r]) != 1:
                    continue
                cands = [a for a in extra if aall.get(a) == rall[r] and a not in mapping]
                if len(cands) == 1:
                    mapping[cands[0]] = r
        for r in missing:
            if r in mapping.values():
                continue
            cands = [a for a in extra if act[a] == rf[r] and a not in mapping]
            if len(cands) == 1:
                mapping[cands[0]] = r
        # several locals with the same fingerprint (`n = tree_name`, `s = replace_code`): pair them in the order of their first binding
        # (both tables keep that order) when the groups have the same size
        groups = {}
        for r in missing:
            if r not in mapping.values():
                groups.setdefault(rf[r], [[], []])[0].append(r)
        for a in extra:
            if a not in mapping and act[a] in groups:
                groups[act[a]][1].append(a)
        for fp, (rs, as_) in groups.items():
            if len(rs) == len(as_) and len(rs) > 1:
                for r, a in zip(rs, as_):
                    mapping[a] = r
        if not mapping:
            continue
        for n in ast.walk(f):
            if isinstance(n, ast.Name) and n.id in mapping:
                n.id = mapping[n.id]
            elif isinstance(n, ast.ExceptHandler) and n.name in mapping:
                n.name = mapping[n.name]
        done.extend((q, a, r) for a, r in mapping.items())


# ---------------------------------------------------------------------------------------------- comprehension / lambda variables
_BINDERS = (ast.ListComp, ast.SetComp, ast.DictComp, ast.GeneratorExp, ast.Lambda)


def _binder_targets(node):
    if isinstance(node, ast.Lambda):
        a = node.args
        return [x.arg for x in a.posonlyargs + a.args + a.kwonlyargs] + ([a.vararg.arg] if a.vararg else []) + ([a.kwarg.arg] if a.kwarg else [])
    out = []
    for g in node.generators:
        out += [x.id for x in ast.walk(g.target) if isinstance(x, ast.Name)]
    return out


class _RenameBinder(ast.NodeTransformer):
    def __init__(self, mapping):
        self.mapping = mapping

    def visit_Name(self, node):
        if node.id in self.mapping:
            node.id = self.mapping[node.id]
        return node

    def visit_arg(self, node):
        if node.arg in self.mapping:
            node.arg = self.mapping[node.arg]
        return node


def _binder_fp(node):
    import copy
    tg = _binder_targets(node)
    n2 = _RenameBinder({t: '_t%d' % i for i, t in enumerate(dict.fromkeys(tg))}).visit(copy.deepcopy(node))
    return ast.unparse(n2)


def binders_of(func):
    """comprehensions and lambdas of func (nested ones too), in source order: [(fingerprint with own variables anonymised, [names])]"""
    nodes = [n for n in _own(func) if isinstance(n, _BINDERS)]
    # lambdas' bodies are not walked by _own: reach comprehensions inside lambdas as well
    extra = []
    for n in nodes:
        if isinstance(n, ast.Lambda):
            extra += [x for x in ast.walk(n.body) if isinstance(x, _BINDERS)]
    nodes += [x for x in extra if not any(x is y for y in nodes)]
    nodes.sort(key=lambda n: (getattr(n, 'lineno', 0), getattr(n, 'col_offset', 0)))
    return [(n, _binder_fp(n), list(dict.fromkeys(_binder_targets(n)))) for n in nodes]


def _rename_binders_back(tree, refb, done):
    """a comprehension or lambda that is the reference one up to the names of its own variables gets the reference names back"""
    for q, f in functions_of(tree):
        rb = refb.get(q)
        if not rb:
            continue
        act = binders_of(f)
        used = set()
        for fp, names in rb:
            for i, (node, afp, anames) in enumerate(act):
                if i in used or afp != fp:
                    continue
                used.add(i)
                if anames != names and len(anames) == len(names):
                    # the new names must not capture a name the body reads from outside
                    free = {x.id for x in ast.walk(node) if isinstance(x, ast.Name)} - set(anames)
                    if free & set(names):
                        break
                    tmp = {a: '__b%d__' % k for k, a in enumerate(anames)}
                    _RenameBinder(tmp).visit(node)
                    _RenameBinder({'__b%d__' % k: r for k, r in enumerate(names)}).visit(node)
                    done.append((q, ','.join(anames), ','.join(names) + ' (comprehension/lambda variable)'))
                break
