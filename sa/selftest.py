"""Self-validation of the checker (thorough tier): every rule must fire when its instance is
broken and stay silent on behaviour-preserving edits.

Variants are source edits (exact, unique substring replacements — located by text only to
*construct* the scratch variant; the rules themselves never match text positions) applied to a
scratch copy of /repo/jedi under /tmp/verif-sa-<pid>/.  B = breaking variant: the property's
check must exit 1 and name the expected rule.  S = silent twin: it must exit 0.  Seeded changes
from /verif/seeded/<id>/patch.diff that a check is recorded to catch are replayed as B variants.
A variant whose anchor text is gone (the tree under /repo was edited) is counted inapplicable.
Known findings of the unchanged tree are subtracted: a variant is judged on NEW violations."""
import json
import os
import shutil
import subprocess
import sys
import tempfile
from concurrent.futures import ProcessPoolExecutor

VERIF = os.path.dirname(os.path.dirname(os.path.abspath(__file__)))


def _prepare(root, tmp, variant):
    dst = os.path.join(tmp, 'repo')
    shutil.copytree(os.path.join(root, 'jedi'), os.path.join(dst, 'jedi'), ignore=shutil.ignore_patterns('__pycache__', 'third_party'))
    if variant.get('patch'):
        p = subprocess.run(['patch', '-p1', '-s', '-d', dst, '-i', variant['patch'], '--no-backup-if-mismatch'],
                           stdout=subprocess.PIPE, stderr=subprocess.STDOUT, text=True)
        if p.returncode != 0:
            return None
        return dst
    path = os.path.join(dst, variant['file'])
    with open(path) as f:
        src = f.read()
    if 'rename' in variant:
        src = _rename_local(src, *variant['rename'])
        if src is None:
            return None
        compile(src, path, 'exec')
        with open(path, 'w') as f:
            f.write(src)
        return dst
    edits = variant['edits'] if 'edits' in variant else [(variant['old'], variant['new'])]
    for old, new in edits:
        if src.count(old) != 1:
            return None
        src = src.replace(old, new)
    compile(src, path, 'exec')
    with open(path, 'w') as f:
        f.write(src)
    return dst


def _rename_local(src, qual, old, new):
    """rename the local variable `old` of function `qual` to `new` (Name nodes only; attributes,
    keyword-argument names and strings are untouched)"""
    import ast
    tree = ast.parse(src)
    node = None
    parts = qual.split('.')

    def find(body, parts):
        for n in body:
            if isinstance(n, (ast.FunctionDef, ast.AsyncFunctionDef, ast.ClassDef)) and n.name == parts[0]:
                if len(parts) == 1:
                    return n
                return find(n.body, parts[1:])
            if isinstance(n, (ast.If, ast.Try)):
                r = find([x for x in ast.walk(n) if isinstance(x, (ast.FunctionDef, ast.ClassDef))], parts)
                if r is not None:
                    return r
        return None
    node = find(tree.body, parts)
    if node is None:
        return None
    if any(isinstance(x, ast.Name) and x.id == new for x in ast.walk(node)):
        return None
    spots = sorted({(x.lineno, x.col_offset) for x in ast.walk(node) if isinstance(x, ast.Name) and x.id == old}, reverse=True)
    if not spots:
        return None
    lines = src.split('\n')
    for ln, col in spots:
        line = lines[ln - 1]
        # col_offset is in utf-8 bytes; the sources are ascii where it matters
        b = line.encode('utf-8')
        if b[col:col + len(old)].decode('utf-8', 'replace') != old:
            return None
        lines[ln - 1] = (b[:col] + new.encode() + b[col + len(old):]).decode('utf-8')
    return '\n'.join(lines)


def _run_one(args):
    root, variant = args
    sys.path.insert(0, VERIF)
    from sa.main import run_property
    from sa import cfg
    tmp = tempfile.mkdtemp(prefix='verif-sa-%d-' % os.getpid())
    try:
        try:
            dst = _prepare_auto(root, tmp, variant) if 'auto' in variant else _prepare(root, tmp, variant)
        except SyntaxError as e:
            return dict(variant, verdict='broken-variant', detail='edited file does not compile: %s' % e)
        if dst is None:
            return dict(variant, verdict='inapplicable')
        cfg.clear_cache()
        code, chk = run_property(variant['prop'], 'quick', dst, write=False, quiet=True, selftest=False)
        fired = []
        if chk is not None:
            from sa.report import load_known
            known = load_known(variant['prop'])
            fired = sorted({o.rule for o in chk.obs if not o.ok and o.key not in known})
        if code == 2:
            return dict(variant, verdict='analysis-error', fired=fired)
        if variant['kind'] == 'B':
            want = variant.get('rule')
            ok = bool(fired) and (want is None or any(r.startswith(want) for r in fired))
            return dict(variant, verdict='ok' if ok else 'MISSED', fired=fired)
        ok = not fired
        return dict(variant, verdict='ok' if ok else 'FALSE-ALARM', fired=fired)
    finally:
        shutil.rmtree(tmp, ignore_errors=True)


def _prepare_auto(root, tmp, variant):
    from .autotwin import edit
    dst = os.path.join(tmp, 'repo')
    shutil.copytree(os.path.join(root, 'jedi'), os.path.join(dst, 'jedi'), ignore=shutil.ignore_patterns('__pycache__', 'third_party'))
    mod, qual, how = variant['auto']
    rel = mod.replace('.', '/')
    path = os.path.join(dst, rel + '.py')
    if not os.path.exists(path):
        path = os.path.join(dst, rel, '__init__.py')
    with open(path) as f:
        src = f.read()
    new = edit(src, qual, how)
    if new is None:
        return None
    compile(new, path, 'exec')
    with open(path, 'w') as f:
        f.write(new)
    return dst


def auto_twins(prop, funcs, cap=60):
    """a deterministic sample of automatic silent twins for the functions the property's rules put obligations on"""
    import hashlib
    jobs = []
    for mod, qual in sorted(funcs):
        if qual == '<module>':
            continue
        for how in ('pass', 'tmpret', 'ifswap', 'doc', 'guard', 'alias', 'yoda', 'notin', 'retelse', 'comprename', 'mergeif', 'splitif', 'demorgan'):
            jobs.append((hashlib.sha256(('%s|%s|%s|%s' % (prop, mod, qual, how)).encode()).hexdigest(), mod, qual, how))
    jobs.sort()
    return [{'prop': prop, 'kind': 'S', 'name': 'auto:%s:%s:%s' % (how, mod.split('.')[-1], qual), 'auto': (mod, qual, how), 'rule': None}
            for _, mod, qual, how in jobs[:cap * 3]], cap


def independent_twins(prop, funcs):
    """behaviour-preserving refactorings written by independent sub-agents (seeded/_twins*/<Cxx>/<i>/patch.diff) that touch a module
    the property's rules analysed: each must leave the check silent"""
    import glob
    import re
    mods = {m for m, _q in funcs or ()}
    out = []
    # refactorings the rules are KNOWN not to see through (DESIGN.md 6.9: the residue of the "inventive" wave 7) or that no longer apply
    # to the repaired tree are listed in seeded/twins_unresolved.json and are not replayed: the self-test guards what was achieved
    try:
        with open(os.path.join(VERIF, 'seeded', 'twins_unresolved.json')) as f:
            skip = set(json.load(f)['unresolved'])
    except Exception:
        skip = set()
    for pf in sorted(glob.glob(os.path.join(VERIF, 'seeded', '_twins*', 'C??', '*', 'patch.diff'))):
        if os.path.relpath(os.path.dirname(pf), os.path.join(VERIF, 'seeded')) in skip:
            continue
        with open(pf) as f:
            files = re.findall(r'^diff --git a/(\S+)', f.read(), re.M)
        touched = set()
        for fl in files:
            if fl.endswith('.py'):
                parts = fl[:-3].split('/')
                if parts[-1] == '__init__':
                    parts = parts[:-1]
                touched.add('.'.join(parts))
        if touched & mods:
            rel = os.path.relpath(os.path.dirname(pf), os.path.join(VERIF, 'seeded'))
            out.append({'prop': prop, 'kind': 'S', 'name': 'twin:%s' % rel, 'patch': pf, 'rule': None})
    return out


def variants_for(prop):
    from .variants import VARIANTS
    out = [dict(v) for v in VARIANTS if v['prop'] == prop]
    idx = os.path.join(VERIF, 'seeded', 'index.json')
    if os.path.exists(idx):
        for e in json.load(open(idx)):
            if prop in e.get('caught_by', []) and e.get('confirmed'):
                out.append({'prop': prop, 'kind': 'B', 'name': 'seeded:%s' % e['id'], 'patch': os.path.join(VERIF, 'seeded', e['id'], 'patch.diff')})
    return out


def run_for(prop, root, jobs=None, funcs=None):
    vs = variants_for(prop)
    n_auto_cap = 0
    if funcs:
        av, n_auto_cap = auto_twins(prop, funcs)
        vs = vs + av + independent_twins(prop, funcs)
    jobs = jobs or min(16, max(1, len(vs)))
    res = []
    if vs:
        with ProcessPoolExecutor(jobs) as ex:
            res = list(ex.map(_run_one, [(root, v) for v in vs]))
    # automatic twins: the sample is three times the cap because many edits do not apply to a given function; count the applicable ones
    auto = [r for r in res if 'auto' in r]
    auto_ok = [r for r in auto if r['verdict'] == 'ok']
    res = [r for r in res if 'auto' not in r or r['verdict'] not in ('inapplicable',)]
    summary = {'variants': len(res), 'automatic_twins_silent': len(auto_ok),
               'independent_refactorings_silent': sum(1 for r in res if r['name'].startswith('twin:') and r['verdict'] == 'ok'),
               'breaking_fired': sum(1 for r in res if r['kind'] == 'B' and r['verdict'] == 'ok'),
               'twins_silent': sum(1 for r in res if r['kind'] == 'S' and r['verdict'] == 'ok'),
               'inapplicable': sum(1 for r in res if r['verdict'] == 'inapplicable'),
               'failures': [{'name': r['name'], 'kind': r['kind'], 'verdict': r['verdict'], 'fired': r.get('fired')} for r in res
                            if r['verdict'] not in ('ok', 'inapplicable')],
               'samples': [{'name': r['name'], 'kind': r['kind'], 'verdict': r['verdict'], 'fired': r.get('fired')} for r in res[:12]]}
    if summary['failures']:
        from .core import AnchorError
        raise AnchorError('selftest of %s failed: %s' % (prop, summary['failures']))
    return summary


if __name__ == '__main__':
    # python -m sa.selftest [PROP...]  : development entry, prints every verdict
    sys.path.insert(0, VERIF)
    from sa.claims import CLAIMS
    props = sys.argv[1:] or sorted(CLAIMS)
    bad = 0
    for p in props:
        vs = variants_for(p)
        with ProcessPoolExecutor(16) as ex:
            for r in ex.map(_run_one, [('/repo', v) for v in vs]):
                flag = '' if r['verdict'] in ('ok', 'inapplicable') else '   <<<<<<'
                print('%s %s %-55s %-14s %s%s' % (p, r['kind'], r['name'], r['verdict'], r.get('fired', ''), flag))
                bad += bool(flag)
    sys.exit(1 if bad else 0)
