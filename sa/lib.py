"""Rule building blocks shared by the property modules (MUST / GATE / PAIR / WHO helpers)."""
import ast

from .core import (FUNC_TYPES, SCOPE_TYPES, AnchorError, atoms, call_name, dotted_text, expr_guards,
                   norm, own_nodes, short, kwarg)
from .cfg import cfg_of


# ---------------------------------------------------------------------------- finding things
def calls_in(func, name=None, pred=None, nested=False):
    """Call nodes inside `func` (own body only unless nested=True) by callee simple name."""
    it = ast.walk(func) if nested else own_nodes(func)
    out = []
    for n in it:
        if isinstance(n, ast.Call):
            if name is not None:
                cn = call_name(n)
                if isinstance(name, (set, frozenset, tuple, list)):
                    if cn not in name:
                        continue
                elif cn != name:
                    continue
            if pred is not None and not pred(n):
                continue
            out.append(n)
    out.sort(key=lambda n: (n.lineno, n.col_offset))
    return out


def stmts_in(func, types=None, pred=None, nested=False):
    it = ast.walk(func) if nested else own_nodes(func)
    out = [n for n in it if isinstance(n, ast.stmt) and (types is None or isinstance(n, types))
           and (pred is None or pred(n))]
    out.sort(key=lambda n: (n.lineno, n.col_offset))
    return out


def attr_stores(func, attr, nested=False):
    """Assign/AugAssign statements in func whose target is `<expr>.attr`."""
    out = []
    for s in stmts_in(func, (ast.Assign, ast.AugAssign, ast.AnnAssign), nested=nested):
        tgts = s.targets if isinstance(s, ast.Assign) else [s.target]
        for t in tgts:
            for x in (t.elts if isinstance(t, (ast.Tuple, ast.List)) else [t]):
                if isinstance(x, ast.Attribute) and x.attr == attr:
                    out.append(s)
    return out


def loop_escapes(loop, kinds=(ast.Break, ast.Continue, ast.Return)):
    """break/continue statements that belong to `loop` itself (those of loops nested in it leave only the nested loop - among them the
    one-pass `for _once in (None,)` wrapper an inlined helper is kept in) and every return inside it"""
    out = []

    def rec(stmts, depth):
        for x in stmts:
            if isinstance(x, (ast.Break, ast.Continue)):
                if depth == 0 and isinstance(x, kinds):
                    out.append(x)
                continue
            if isinstance(x, ast.Return):
                if ast.Return in kinds:
                    out.append(x)
                continue
            if isinstance(x, FUNC_TYPES + (ast.ClassDef,)):
                continue
            nested = isinstance(x, (ast.For, ast.AsyncFor, ast.While))
            for field in ('body', 'orelse', 'finalbody'):
                sub = getattr(x, field, None)
                if isinstance(sub, list) and sub and isinstance(sub[0], ast.stmt):
                    rec(sub, depth + (1 if nested and field == 'body' else 0))
            if isinstance(x, ast.Try):
                for h in x.handlers:
                    rec(h.body, depth)
            if hasattr(ast, 'Match') and isinstance(x, ast.Match):
                for c_ in x.cases:
                    rec(c_.body, depth)
    rec(loop.body, 0)
    rec(getattr(loop, 'orelse', []) or [], 1)
    return out


def is_call_to(node, name):
    return isinstance(node, ast.Call) and call_name(node) == name


def contains_call(node, name):
    return any(is_call_to(n, name) for n in ast.walk(node))


def contains(node, pred):
    return any(pred(n) for n in ast.walk(node))


# ---------------------------------------------------------------------------- CFG rules
def node_has(n, pred):
    """Does the CFG node's own AST (statement header only for compound statements) satisfy
    pred on some sub-node?"""
    a = n.ast
    if a is None:
        return False
    if n.kind == 'for':
        parts = [a.iter, a.target]
    elif n.kind == 'with':
        parts = [i.context_expr for i in a.items]
    elif n.kind in ('dispatch', 'join', 'handler'):
        return False
    else:
        parts = [a]
    for p in parts:
        for x in ast.walk(p):
            if isinstance(x, SCOPE_TYPES) and x is not p:
                pass
            if pred(x):
                return True
    return False


def must_pass(func, required, start=None, to_exception=False, kinds=None):
    """MUST: every path from `start` (default: entry) to a normal exit (and, if
    to_exception, to the exceptional exit) passes a CFG node for which `required(node)`.
    Returns None if it holds, else the witness path description."""
    c = cfg_of(func)
    srcs = [c.entry] if start is None else start
    targets = {c.exit.id}
    if to_exception:
        targets.add(c.raise_exit.id)
    p = c.reach(srcs, lambda n: n.id in targets, block_node=required, kinds=kinds)
    return None if p is None else c.describe(p)


_FLIP = {ast.NotIn: ast.In, ast.In: ast.NotIn, ast.NotEq: ast.Eq, ast.Eq: ast.NotEq, ast.IsNot: ast.Is, ast.Is: ast.IsNot}


def _flipped(e):
    """`a not in b` for `a in b` (and ==/!=, is/is not): the same fact with the opposite polarity"""
    if isinstance(e, ast.Compare) and len(e.ops) == 1 and type(e.ops[0]) in _FLIP:
        n = ast.Compare(left=e.left, ops=[_FLIP[type(e.ops[0])]()], comparators=e.comparators)
        ast.copy_location(n, e)
        n._parent = getattr(e, '_parent', None)
        n._mod = getattr(e, '_mod', None)
        return n
    return None


def accepts(accept, e, pol):
    """accept(e, pol), also trying the complementary spelling of a comparison: a rule that waits for `k not in seen` taken true is
    satisfied by `k in seen` taken false (guard-clause form)"""
    if accept(e, pol):
        return True
    f = _flipped(e)
    return f is not None and bool(accept(f, not pol))


def gate(func, sink_ast, accept, extra_ok=None):
    """GATE: every path from entry to the statement/test containing `sink_ast` takes at
    least one test edge accepted by `accept(test_expr, polarity)` — or the sink's own
    expression context (earlier `and` conjuncts, conditional expression, comprehension ifs)
    guarantees an accepted fact.  Returns None if gated, else a witness path."""
    c = cfg_of(func)
    nodes = c.nodes_containing(sink_ast)
    if not nodes:
        raise AnchorError('no CFG node for %s in %s' % (short(sink_ast), getattr(func, 'name', '?')))
    stop = nodes[0].ast
    for e, pol in expr_guards(sink_ast, stop):
        if accepts(accept, e, pol):
            return None
    ids = {n.id for n in nodes}

    def block_edge(n, k, m):
        if n.kind == 'test' and k in ('T', 'F'):
            return accepts(accept, n.ast, k == 'T')
        return False
    p = c.reach([c.entry], lambda n: n.id in ids, block_edge=block_edge)
    if p is None:
        return None
    # second chance: a test of a plain local (`if ok:`) establishes what the last value bound to it establishes
    # (`ok = A and B` ... `if ok:`; `for _once..: if not A: ok = False; break ... ok = B; break`), followed per path
    if _gate_through_flags(func, c, ids, accept):
        return None
    return c.describe(p)


def _gate_through_flags(func, c, ids, accept):
    """path search with the last binding of every tested flag variable as state; True if no ungated path reaches the sink"""
    from collections import deque
    flags = {n.ast.id for n in c.nodes if n.kind == 'test' and isinstance(n.ast, ast.Name)}
    if not flags:
        return False

    def defs_of(n):
        a = n.ast
        if n.kind == 'stmt' and isinstance(a, ast.Assign) and len(a.targets) == 1 and isinstance(a.targets[0], ast.Name) and a.targets[0].id in flags:
            return a.targets[0].id, a.value
        return None
    start = (c.entry.id, frozenset())
    seen = {start}
    dq = deque([(c.entry, frozenset())])
    budget = 20000
    while dq and budget > 0:
        budget -= 1
        n, st = dq.popleft()
        for m, k in n.succ:
            if n.kind == 'test' and k in ('T', 'F'):
                if accepts(accept, n.ast, k == 'T'):
                    continue
                if isinstance(n.ast, ast.Name) and n.ast.id in flags:
                    val = dict(st).get(n.ast.id)
                    if val is not None:
                        e = _node_by_id.get(val)
                        if e is not None and _flag_establishes(e, k == 'T', accept):
                            continue
            if m.id in ids:
                return False
            st2 = st
            d = defs_of(m)
            if d is not None:
                _node_by_id[id(d[1])] = d[1]
                dd = dict(st)
                dd[d[0]] = id(d[1])
                st2 = frozenset(dd.items())
            key = (m.id, st2)
            if key in seen:
                continue
            seen.add(key)
            dq.append((m, st2))
    return budget > 0


_node_by_id = {}


def _flag_establishes(e, outcome, accept):
    """does `flag = e` followed by the flag testing `outcome` establish an accepted fact?  Conjunctions taken true and disjunctions
    taken false establish each of their operands"""
    if isinstance(e, ast.Constant):
        # `flag = False` then `if flag:` taken true is an infeasible path (and the other way round)
        return bool(e.value) != outcome
    if isinstance(e, ast.UnaryOp) and isinstance(e.op, ast.Not):
        return _flag_establishes(e.operand, not outcome, accept)
    if isinstance(e, ast.BoolOp):
        if (isinstance(e.op, ast.And) and outcome) or (isinstance(e.op, ast.Or) and not outcome):
            return any(_flag_establishes(v, outcome, accept) for v in e.values)
        return False
    return accepts(accept, e, outcome)


def paired(func, acquire_stmt, is_release, include_exc=True):
    """PAIR: from the acquire statement every path to any exit of the function (normal and
    exceptional) passes a release node.  Returns None if it holds, else the witness path."""
    c = cfg_of(func)
    srcs = c.nodes_of(acquire_stmt)
    if not srcs:
        raise AnchorError('no CFG node for acquire %s' % short(acquire_stmt))
    targets = {c.exit.id}
    if include_exc:
        targets.add(c.raise_exit.id)

    def block_edge(n, k, m):
        # the acquire itself raising means nothing was acquired
        return n in srcs and k == 'exc'
    p = c.reach(srcs, lambda n: n.id in targets, block_node=is_release, block_edge=block_edge)
    return None if p is None else c.describe(p)


def stmt_pred(pred):
    """CFG-node predicate from an AST predicate over the node's own header."""
    return lambda n: node_has(n, pred)


def enclosing_handlers(stmt, func):
    """The chain of `try` statements whose *body* contains stmt, innermost first, as
    (try_node, [handler type texts])."""
    out = []
    child = stmt
    p = getattr(stmt, '_parent', None)
    while p is not None and p is not func:
        if isinstance(p, ast.Try) and child in p.body:
            out.append(p)
        child = p
        p = getattr(p, '_parent', None)
    return out


def handler_types(h):
    """Names an except clause catches: `except (A, b.C)` -> {'A', 'C'}; bare -> {'*'}."""
    if h.type is None:
        return {'*'}
    ts = h.type.elts if isinstance(h.type, ast.Tuple) else [h.type]
    out = set()
    for t in ts:
        d = dotted_text(t)
        out.add(d.split('.')[-1] if d else norm(t))
    return out


def raises_in(func, nested=False):
    return stmts_in(func, ast.Raise, nested=nested)


def raised_name(r):
    """Simple class name a `raise` statement raises (None for bare re-raise / variables)."""
    e = r.exc
    if e is None:
        return None
    if isinstance(e, ast.Call):
        e = e.func
    d = dotted_text(e)
    return d.split('.')[-1] if d else None


def params(func):
    a = func.args
    return [x.arg for x in a.posonlyargs + a.args + a.kwonlyargs]


def param_default(func, name):
    a = func.args
    pos = a.posonlyargs + a.args
    for i, x in enumerate(pos):
        if x.arg == name:
            j = i - (len(pos) - len(a.defaults))
            return a.defaults[j] if j >= 0 else None
    for x, d in zip(a.kwonlyargs, a.kw_defaults):
        if x.arg == name:
            return d
    return None


def is_const(node, value):
    return isinstance(node, ast.Constant) and node.value is value or \
        (isinstance(node, ast.Constant) and not isinstance(value, bool) and node.value == value and type(node.value) is type(value))


def dominating_facts(func, astnode):
    """Atomic test outcomes every entry->node path must have taken: [(test_ast, polarity)]."""
    c = cfg_of(func)
    nodes = c.nodes_containing(astnode)
    ids = {n.id for n in nodes}
    facts = []
    for t in c.nodes:
        if t.kind != 'test':
            continue
        for k in ('T', 'F'):
            p = c.reach([c.entry], lambda n: n.id in ids,
                        block_edge=lambda n, kk, m, t=t, k=k: n is t and kk == k)
            if p is None:
                # blocking (t,k) cuts every path: so every path takes (t,k)... unless the node
                # is unreachable anyway
                if c.reach([c.entry], lambda n: n.id in ids) is not None:
                    facts.append((t.ast, k == 'T'))
    return facts


def paired_correlated(func, acquire_stmt, is_release, include_exc=True):
    """PAIR with correlated conditions: tests that are textually the same as a test that
    guards the acquire (and whose names are not re-assigned in the function) are assumed to
    evaluate the same way later (`if x is not None: acquire ... finally: if x is not None: release`)."""
    c = cfg_of(func)
    srcs = c.nodes_of(acquire_stmt)
    if not srcs:
        raise AnchorError('no CFG node for acquire %s' % short(acquire_stmt))
    facts = dominating_facts(func, acquire_stmt)
    assigned = set()
    for n in own_nodes(func):
        if isinstance(n, ast.Name) and isinstance(n.ctx, (ast.Store, ast.Del)):
            assigned.add(n.id)
    known = {}
    for e, pol in facts:
        names = {x.id for x in ast.walk(e) if isinstance(x, ast.Name)}
        if not (names & assigned) and not any(isinstance(x, ast.Call) for x in ast.walk(e)):
            known[norm(e)] = pol
    targets = {c.exit.id}
    if include_exc:
        targets.add(c.raise_exit.id)

    def block_edge(n, k, m):
        if n in srcs and k == 'exc':
            return True
        if n.kind == 'test' and k in ('T', 'F'):
            v = known.get(norm(n.ast))
            if v is not None and v != (k == 'T'):
                return True
        return False
    p = c.reach(srcs, lambda n: n.id in targets, block_node=is_release, block_edge=block_edge)
    return None if p is None else c.describe(p)


# ---------------------------------------------------------------------------- NONE rule
def none_accept(text):
    """gate predicate: facts that prove the expression whose normalised text is `text` is not None."""
    def accept(e, pol):
        if isinstance(e, ast.Compare) and len(e.ops) == 1 and norm(e.left) == text:
            o, r = e.ops[0], e.comparators[0]
            r_none = isinstance(r, ast.Constant) and r.value is None
            if isinstance(o, ast.Is) and r_none:
                return pol is False
            if isinstance(o, ast.IsNot) and r_none:
                return pol is True
            if isinstance(o, (ast.Eq, ast.In)) and not r_none and pol is True:
                # equal to / member of something that is not None
                if isinstance(r, ast.Constant) or (isinstance(r, (ast.Tuple, ast.List, ast.Set)) and
                                                   all(isinstance(x, ast.Constant) and x.value is not None for x in r.elts)):
                    return True
            if isinstance(o, (ast.NotEq,)) and r_none:
                return pol is True
            return False
        if norm(e) == text:
            return pol is True
        if isinstance(e, ast.Call) and call_name(e) == 'isinstance' and e.args and norm(e.args[0]) == text:
            return pol is True
        if isinstance(e, ast.NamedExpr) and norm(e.target) == text:
            return pol is True
        return False
    return accept


def derefs_of(func, text, nested=False):
    """Nodes that dereference the expression `text` (attribute access, subscript, call)."""
    out = []
    it = ast.walk(func) if nested else own_nodes(func)
    for n in it:
        if isinstance(n, ast.Attribute) and norm(n.value) == text:
            out.append(n)
        elif isinstance(n, ast.Subscript) and norm(n.value) == text:
            out.append(n)
        elif isinstance(n, ast.Call) and norm(n.func) == text:
            out.append(n)
    out.sort(key=lambda n: (n.lineno, n.col_offset))
    return out


def none_safe(func, use, text, def_stmt=None):
    """Is the dereference `use` of expression `text` guarded against None on every path from
    its definition (def_stmt; None = function entry)?  Returns None if safe, else a witness."""
    c = cfg_of(func)
    un = c.nodes_containing(use)
    if not un:
        raise AnchorError('no CFG node for %s' % short(use))
    accept = none_accept(text)
    for e, pol in expr_guards(use, un[0].ast):
        if accept(e, pol):
            return None
    # a dereference inside `try: ... except AttributeError` is the EAFP form of the None test
    st = use
    while st is not None and not isinstance(st, ast.stmt):
        st = getattr(st, '_parent', None)
    if st is not None:
        for t in enclosing_handlers(st, func):
            for h in t.handlers:
                if handler_types(h) & {'AttributeError', 'Exception', 'BaseException', '*'}:
                    return None
    ids = {n.id for n in un}
    var = text if text.isidentifier() else None

    def is_def(n):
        a = n.ast
        if var is None or a is None:
            return False
        if isinstance(a, (ast.Assign, ast.AugAssign, ast.AnnAssign)):
            tg = a.targets if isinstance(a, ast.Assign) else [a.target]
            return any(isinstance(x, ast.Name) and x.id == var for t in tg for x in ast.walk(t))
        if n.kind == 'for':
            return any(isinstance(x, ast.Name) and x.id == var for x in ast.walk(a.target))
        return False

    def block_edge(n, k, m):
        return n.kind == 'test' and k in ('T', 'F') and accept(n.ast, k == 'T')
    if def_stmt is None:
        srcs = [c.entry]
    else:
        srcs = c.nodes_of(def_stmt)
        if not srcs:
            raise AnchorError('no CFG node for def %s' % short(def_stmt))
    src_ids = {s.id for s in srcs}
    # a use inside the defining statement's own test (while x.y: x = nav()) is reached after the def
    p = c.reach(srcs, lambda n: n.id in ids, block_node=lambda n: is_def(n) and n.id not in ids, block_edge=block_edge)
    if p is None:
        return None
    # a path may be an artefact of taking two tests of the same text differently (`if not e and x is None: raise` ... `if e: .. else: x[0]`)
    return consistent_reach(func, srcs, lambda n: n.id in ids, block_node=lambda n: is_def(n) and n.id not in ids, block_edge=block_edge)


def none_safe_chain(func, use, text):
    """Like none_safe for an attribute chain (`context.name`): facts are killed by any
    re-assignment of the chain's root variable, so the search starts at the function entry and
    at every assignment of the root, and may not pass through another one."""
    c = cfg_of(func)
    un = c.nodes_containing(use)
    if not un:
        raise AnchorError('no CFG node for %s' % short(use))
    accept = none_accept(text)
    for e, pol in expr_guards(use, un[0].ast):
        if accept(e, pol):
            return None
    root = text.split('.')[0].split('[')[0]
    ids = {n.id for n in un}

    def is_def(n):
        a = n.ast
        if a is None:
            return False
        if isinstance(a, (ast.Assign, ast.AugAssign, ast.AnnAssign)):
            tg = a.targets if isinstance(a, ast.Assign) else [a.target]
            return any(isinstance(x, ast.Name) and x.id == root and isinstance(x.ctx, ast.Store) for t in tg for x in ast.walk(t))
        if n.kind == 'for':
            return any(isinstance(x, ast.Name) and x.id == root for x in ast.walk(a.target))
        return False

    def block_edge(n, k, m):
        return n.kind == 'test' and k in ('T', 'F') and accept(n.ast, k == 'T')
    srcs = [c.entry] + [n for n in c.nodes if is_def(n)]
    p = c.reach(srcs, lambda n: n.id in ids, block_node=lambda n: is_def(n) and n.id not in ids, block_edge=block_edge)
    return None if p is None else c.describe(p)


# ---------------------------------------------------------------------------- PATH-PREFIX rule
_PATHY = ('path', 'dir', 'folder')


def _pathy(func, e, depth=0):
    """does the expression denote a filesystem path in string form (by construction or by the repo's naming)?"""
    if isinstance(e, ast.Call) and isinstance(e.func, ast.Name) and e.func.id == 'str' and e.args:
        return True
    if isinstance(e, ast.Call) and isinstance(e.func, ast.Attribute) and e.func.attr in ('join', 'abspath', 'realpath', 'dirname', 'normpath'):
        return True
    if isinstance(e, ast.BinOp) and isinstance(e.op, ast.Add):
        return _pathy(func, e.left, depth)
    ident = e.id if isinstance(e, ast.Name) else e.attr if isinstance(e, ast.Attribute) else None
    if ident is None:
        if isinstance(e, ast.Subscript):
            return _pathy(func, e.value, depth)
        return False
    if any(k in ident.lower() for k in _PATHY):
        return True
    if isinstance(e, ast.Name) and depth < 2:
        # a loop / comprehension variable over a collection of paths (`for p in sys_path`), or p = str(path)
        for n in ast.walk(func):
            if isinstance(n, (ast.For, ast.comprehension)) and any(isinstance(x, ast.Name) and x.id == e.id for x in ast.walk(n.target)):
                if _pathy(func, n.iter, depth + 1):
                    return True
            if isinstance(n, ast.Assign) and any(isinstance(t, ast.Name) and t.id == e.id for t in n.targets) and _pathy(func, n.value, depth + 1):
                return True
    return False


def _ends_with_separator(e):
    if isinstance(e, ast.BinOp) and isinstance(e.op, ast.Add):
        r = e.right
        if isinstance(r, ast.Constant) and r.value in ('/', '\\'):
            return True
        if norm(r) in ('os.path.sep', 'os.sep', 'sep', 'os.path.sep'):
            return True
    if isinstance(e, ast.Call) and norm(e.func) == 'os.path.join' and e.args and isinstance(e.args[-1], ast.Constant) and e.args[-1].value == '':
        return True
    return False


def path_prefix_sites(repo, modnames):
    """[(func, qual, call)]: `<path string>.startswith(<path string>)` in the given modules"""
    out = []
    for mn in modnames:
        m = repo.module(mn)
        for q, f in sorted(m.defs.items()):
            if not isinstance(f, FUNC_TYPES):
                continue
            for c in own_nodes(f):
                if isinstance(c, ast.Call) and isinstance(c.func, ast.Attribute) and c.func.attr == 'startswith' and len(c.args) == 1:
                    a = c.args[0]
                    if isinstance(a, ast.Constant):
                        continue
                    if _pathy(f, c.func.value) and _pathy(f, a):
                        out.append((f, q, c))
    return out


def path_prefix_check(repo, chk, rule, modnames, triaged=None, checked=None, floor=1):
    """PATH-PREFIX: containment of one path in another is decided on whole components: a str.startswith between two path strings
    needs a separator at the end of the prefix (or an explicit test of what follows); `/a/pkg` is a string prefix of `/a/pkg2/x.py`."""
    triaged = triaged or {}
    checked = checked or {}
    sites = path_prefix_sites(repo, modnames)
    for f, q, c in sites:
        mod = getattr(c, '_mod', None)
        key = (mod.name if mod else '?', q, norm(c))
        if _ends_with_separator(c.args[0]):
            chk.ob(rule, True, c, '`%s`: the prefix ends with a separator' % short(c, 60))
        elif key in triaged:
            chk.ob(rule, True, c, '`%s`: triaged (%s)' % (short(c, 60), triaged[key]))
        elif key in checked or key[:2] + ('*',) in checked:
            why, fn = checked.get(key) or checked[key[:2] + ('*',)]
            w = fn(repo, f, c)
            chk.ob(rule, w is None, c, '`%s`: %s' % (short(c, 60), why), w or '', key='path-prefix|%s:%s|%s' % key)
        else:
            chk.ob(rule, False, c, 'path containment `%s` in %s is decided on whole path components' % (short(c, 60), q),
                   'a plain string prefix: `/a/pkg` also matches `/a/pkg2/x.py`', key='path-prefix|%s:%s|%s' % key)
    chk.floor(rule, len(sites), floor, '(string-prefix tests between paths)')
    return sites


# ---------------------------------------------------------------------------- STR-vs-PATH rule
_PATH_ATTRS = {'parent', 'parents'}
_PATH_METHODS = {'absolute', 'resolve', 'joinpath', 'with_suffix', 'with_name', 'relative_to', 'expanduser', 'py__file__'}
_STR_FUNCS = {'str', 'abspath', 'realpath', 'normpath', 'dirname', 'basename', 'join', 'as_posix', 'fspath', 'getcwd'}


def path_kind(f, e, self_attrs=None, depth=0):
    """'path' (a pathlib.Path), 'str' (a path in string form) or None (unknown) for expression e in function f.  Deliberately
    conservative: only constructions whose kind is certain are classified."""
    if depth > 3:
        return None
    if isinstance(e, ast.Call):
        cn = call_name(e)
        if cn == 'Path':
            return 'path'
        if cn in _PATH_METHODS and isinstance(e.func, ast.Attribute):
            return 'path'
        if cn in _STR_FUNCS:
            return 'str'
    if isinstance(e, ast.JoinedStr) or (isinstance(e, ast.Constant) and isinstance(e.value, str)):
        return 'str'
    if isinstance(e, ast.BinOp) and isinstance(e.op, ast.Div) and path_kind(f, e.left, self_attrs, depth + 1) == 'path':
        return 'path'
    if isinstance(e, ast.Attribute):
        if e.attr in _PATH_ATTRS and path_kind(f, e.value, self_attrs, depth + 1) == 'path':
            return 'path'
        if norm(e.value) == 'self' and self_attrs:
            mod = getattr(e, '_mod', None)
            return self_attrs.get((mod.name if mod else None, e.attr))
    if isinstance(e, ast.Name):
        for n in ast.walk(f):
            if isinstance(n, (ast.For, ast.comprehension)) and isinstance(n.target, ast.Name) and n.target.id == e.id:
                if 'sys_path' in norm(n.iter):
                    return 'str'        # search path entries are strings everywhere in jedi (sys.path convention)
        ks = set()
        for a in stmts_in(f, ast.Assign):
            if any(isinstance(t, ast.Name) and t.id == e.id for t in a.targets):
                ks.add(path_kind(f, a.value, self_attrs, depth + 1))
        if len(ks) == 1:
            return ks.pop()
    return None


def self_path_attrs(repo):
    """(module, attr) -> kind for `self.<attr> = <path-kind expr>` assignments in __init__ methods"""
    out = {}
    for m in repo.modules.values():
        for q, f in m.defs.items():
            if isinstance(f, FUNC_TYPES) and f.name == '__init__':
                for a in stmts_in(f, ast.Assign):
                    for t in a.targets:
                        if isinstance(t, ast.Attribute) and norm(t.value) == 'self':
                            k = path_kind(f, a.value)
                            if k:
                                out[(m.name, t.attr)] = k
    return out


def str_path_comparisons(repo):
    """[(func, qual, compare, kind_left, kind_right)] for ==/!= between a Path and a path string (never equal in Python)"""
    sa = self_path_attrs(repo)
    out = []
    for m in sorted(repo.modules.values(), key=lambda m: m.name):
        for q, f in sorted(m.defs.items()):
            if not isinstance(f, FUNC_TYPES):
                continue
            for c in own_nodes(f):
                if isinstance(c, ast.Compare) and len(c.ops) == 1 and isinstance(c.ops[0], (ast.Eq, ast.NotEq)):
                    a, b = path_kind(f, c.left, sa), path_kind(f, c.comparators[0], sa)
                    if a and b and a != b:
                        out.append((f, q, c, a, b))
    return out, sa


def effective_body(func):
    """statements of a function body that do something: docstrings / bare constants and `pass` are dropped"""
    return [s for s in func.body if not isinstance(s, ast.Pass) and not (isinstance(s, ast.Expr) and isinstance(s.value, ast.Constant))]


# ---------------------------------------------------------------------------- UNBOUND rule
def _bound_names(node):
    """names bound by the CFG node's own statement header"""
    out = set()
    a = node.ast
    if a is None:
        return out
    if node.kind == 'for':
        return {x.id for x in ast.walk(a.target) if isinstance(x, ast.Name)}
    if node.kind == 'with':
        for it in a.items:
            if it.optional_vars is not None:
                out |= {x.id for x in ast.walk(it.optional_vars) if isinstance(x, ast.Name)}
        return out
    if node.kind == 'handler':
        return {a.name} if getattr(a, 'name', None) else out
    if node.kind == 'test':
        return {x.target.id for x in ast.walk(a) if isinstance(x, ast.NamedExpr) and isinstance(x.target, ast.Name)}
    if isinstance(a, (ast.FunctionDef, ast.AsyncFunctionDef, ast.ClassDef)):
        return {a.name}
    if isinstance(a, (ast.Import, ast.ImportFrom)):
        return {(al.asname or al.name).split('.')[0] for al in a.names}
    if isinstance(a, ast.stmt):
        comp = set()
        for x in ast.walk(a):
            if isinstance(x, ast.comprehension):
                comp |= {id(t) for t in ast.walk(x.target) if isinstance(t, ast.Name)}
        for x in ast.walk(a):
            if isinstance(x, ast.Name) and isinstance(x.ctx, ast.Store) and id(x) not in comp:
                out.add(x.id)
            if isinstance(x, ast.NamedExpr) and isinstance(x.target, ast.Name):
                out.add(x.target.id)
    return out


def _used_names(node, candidates):
    """candidate local names read by the CFG node's own header (comprehension variables and nested function bodies excluded)"""
    a = node.ast
    if a is None or node.kind in ('join', 'dispatch'):
        return set()
    hdr = [a]
    if node.kind == 'for':
        hdr = [a.iter]
    elif node.kind == 'with':
        hdr = [i.context_expr for i in a.items]
    elif node.kind == 'handler':
        hdr = [a.type] if a.type is not None else []
    elif isinstance(a, (ast.FunctionDef, ast.AsyncFunctionDef, ast.ClassDef)):
        hdr = list(a.decorator_list)
    used = set()

    def visit(x, shadow):
        if isinstance(x, (ast.FunctionDef, ast.AsyncFunctionDef, ast.ClassDef)):
            for d in x.decorator_list:
                visit(d, shadow)
            return
        if isinstance(x, ast.Lambda):
            return
        if isinstance(x, (ast.ListComp, ast.SetComp, ast.GeneratorExp, ast.DictComp)):
            sh = set(shadow)
            for i, g in enumerate(x.generators):
                visit(g.iter, shadow if i == 0 else sh)
                sh |= {t.id for t in ast.walk(g.target) if isinstance(t, ast.Name)}
                for i_ in g.ifs:
                    visit(i_, sh)
            if isinstance(x, ast.DictComp):
                visit(x.key, sh)
                visit(x.value, sh)
            else:
                visit(x.elt, sh)
            return
        if isinstance(x, ast.Name):
            if isinstance(x.ctx, (ast.Load, ast.Del)) and x.id in candidates and x.id not in shadow:
                used.add(x.id)
            return
        for ch in ast.iter_child_nodes(x):
            visit(ch, shadow)
    for h in hdr:
        if h is not None:
            visit(h, set())
    return used


def possibly_unbound(func):
    """[(use_cfg_node, name, witness_path_text)]: reads of a local that some path from the entry reaches without passing a binding.
    Paths are followed without exception edges; two tests with the same text whose names are not re-bound in the function are taken the same
    way (`if flag: x = ..` ... `if flag: use(x)` is consistent)."""
    c = cfg_of(func)
    ps = set(params(func))
    if func.args.vararg:
        ps.add(func.args.vararg.arg)
    if func.args.kwarg:
        ps.add(func.args.kwarg.arg)
    assigned = {}
    for n in c.nodes:
        for nm in _bound_names(n):
            assigned.setdefault(nm, []).append(n)
    decl = set()
    for x in own_nodes(func):
        if isinstance(x, (ast.Global, ast.Nonlocal)):
            decl |= set(x.names)
    locals_ = set(assigned) - ps - decl
    if not locals_:
        return []
    # names bound at more than one place (or loop variables) may change between two tests of the same text
    rebound = {k for k, v in assigned.items() if len(v) > 1 or any(d.kind == 'for' for d in v)}
    out = []
    from collections import deque
    for n in c.nodes:
        for nm in sorted(_used_names(n, locals_)):
            defs = {d.id for d in assigned[nm] if d is not n}
            if n is c.entry:
                out.append((n, nm, 'entry'))
                continue
            # BFS over (node, known test outcomes)
            start = (c.entry.id, frozenset())
            prev = {start: None}
            dq = deque([(c.entry, frozenset())])
            found = None
            while dq and found is None:
                cur, known = dq.popleft()
                for m, k in cur.succ:
                    if k == 'exc':
                        continue
                    kn = known
                    if cur.kind == 'test' and k in ('T', 'F') and cur.ast is not None:
                        names = {x.id for x in ast.walk(cur.ast) if isinstance(x, ast.Name)}
                        pure = not any(isinstance(x, (ast.Call, ast.Await, ast.NamedExpr)) for x in ast.walk(cur.ast))
                        if pure and not (names & (rebound - ps)) and not (names & {nm}):
                            t, outcome = _test_key(cur.ast, k == 'T')
                            d = dict(known)
                            if t in d and d[t] != outcome:
                                continue
                            d[t] = outcome
                            kn = frozenset(d.items())
                    if m.id == n.id:
                        found = (cur, k, known)
                        break
                    if m.id in defs:
                        continue
                    if nm in _used_names(m, {nm}):
                        continue        # an earlier read on this path would already have raised: report that one
                    key = (m.id, kn)
                    if key in prev:
                        continue
                    prev[key] = (cur.id, known, k)
                    dq.append((m, kn))
            if found is not None:
                # rebuild a short description
                cur, k, known = found
                path = [(n, None), ]
                key = (cur.id, known)
                chain = [(cur, k)]
                while prev.get(key) is not None:
                    pid, pknown, pk = prev[key]
                    pn = next(x for x in c.nodes if x.id == pid)
                    chain.append((pn, pk))
                    key = (pid, pknown)
                chain.reverse()
                out.append((n, nm, c.describe(chain + [(n, None)])))
    return out


def _test_key(e, taken):
    """(canonical text, outcome) of a test: `x is not None` taken true and `x is None` taken false are the same fact"""
    f = _flipped(e)
    if f is not None and isinstance(e.ops[0], (ast.NotIn, ast.NotEq, ast.IsNot)):
        return norm(f), not taken
    return norm(e), taken


def stable_names(func):
    """names whose value cannot change between two tests: parameters never re-bound and locals bound at exactly one non-loop place"""
    c = cfg_of(func)
    assigned = {}
    for n in c.nodes:
        for nm in _bound_names(n):
            assigned.setdefault(nm, []).append(n)
    ps = set(params(func))
    st = {p_ for p_ in ps if p_ not in assigned}
    st |= {k for k, v in assigned.items() if len(v) == 1 and v[0].kind != 'for' and k not in ps}
    return st


def consistent_reach(func, sources, is_target, block_node=None, block_edge=None, kinds=None):
    """like CFG.reach, but two tests with the same text over stable names and without calls are taken the same way along a path.
    Returns a description of a witness path or None."""
    from collections import deque
    c = cfg_of(func)
    stable = stable_names(func)
    start = [(s_, frozenset()) for s_ in sources]
    prev = {(s_.id, frozenset()): None for s_ in sources}
    dq = deque(start)
    while dq:
        cur, known = dq.popleft()
        for m, k in cur.succ:
            if kinds is not None and k not in kinds:
                continue
            if block_edge is not None and block_edge(cur, k, m):
                continue
            kn = known
            if cur.kind == 'test' and k in ('T', 'F') and cur.ast is not None:
                names = {x.id for x in ast.walk(cur.ast) if isinstance(x, ast.Name)}
                pure = not any(isinstance(x, (ast.Call, ast.Await, ast.NamedExpr)) for x in ast.walk(cur.ast))
                if pure and names and names <= stable:
                    t, outcome = _test_key(cur.ast, k == 'T')
                    d = dict(known)
                    if t in d and d[t] != outcome:
                        continue
                    d[t] = outcome
                    kn = frozenset(d.items())
            if is_target(m):
                chain = [(cur, k)]
                key = (cur.id, known)
                while prev.get(key) is not None:
                    pid, pknown, pk = prev[key]
                    chain.append((next(x for x in c.nodes if x.id == pid), pk))
                    key = (pid, pknown)
                chain.reverse()
                return c.describe(chain + [(m, None)])
            if block_node is not None and block_node(m):
                continue
            key = (m.id, kn)
            if key in prev:
                continue
            prev[key] = (cur.id, known, k)
            dq.append((m, kn))
    return None


def if_test_texts(func, nested=False):
    """normalised texts of the conditions of all `if` statements, an outer `not (...)` stripped: presence checks must not depend on which
    branch the author put first"""
    out = []
    for n in (ast.walk(func) if nested else own_nodes(func)):
        if isinstance(n, ast.If):
            t = n.test
            while isinstance(t, ast.UnaryOp) and isinstance(t.op, ast.Not):
                t = t.operand
            out.append(norm(t))
    return out


# ---------------------------------------------------------------------------- alias expansion
_alias_cache = {}


def alias_map(func, pure_methods=()):
    """locals of func bound exactly once (by a plain assignment) to a side-effect-free expression: name -> value AST.
    pure_methods: method names whose calls count as side-effect free for the caller's purpose (`children.index(':')`)"""
    ck = (id(func), tuple(pure_methods))
    hit = _alias_cache.get(ck)
    if hit is not None and hit[0] is func:
        return hit[1]
    val = _alias_map(func, pure_methods)
    _alias_cache[ck] = (func, val)
    return val


def _alias_map(func, pure_methods=()):
    cnt, val = {}, {}
    for n in own_nodes(func):
        if isinstance(n, ast.Name) and isinstance(n.ctx, (ast.Store, ast.Del)):
            cnt[n.id] = cnt.get(n.id, 0) + 1
    from .canon import _is_pure, _IMPURE, _PURE_CALLS

    def pure(e):
        if not pure_methods:
            return _is_pure(e)
        for x in ast.walk(e):
            if isinstance(x, _IMPURE):
                return False
            if isinstance(x, ast.Call) and not (isinstance(x.func, ast.Name) and x.func.id in _PURE_CALLS and not x.keywords) \
                    and not (isinstance(x.func, ast.Attribute) and x.func.attr in pure_methods and not x.keywords):
                return False
        return True
    for a in stmts_in(func, ast.Assign):
        if len(a.targets) == 1 and isinstance(a.targets[0], ast.Name):
            # a fresh mutable container is an object with identity, not a name for an expression
            if pure(a.value) and cnt.get(a.targets[0].id) == 1 and not isinstance(a.value, (ast.List, ast.Dict, ast.Set)):
                val[a.targets[0].id] = a.value
    return val


def xnorm(expr, func, _depth=0, pure_methods=()):
    """normalised text of expr with single-assignment pure locals of func expanded (`par.type` reads as `tree_name.parent.type` when
    `par = tree_name.parent` is the only binding of par): for comparisons that must not depend on whether a temporary was introduced"""
    am = alias_map(func, pure_methods)
    if not am:
        return norm(expr)

    def clone(e):       # parent links hang on the nodes: a deep copy would drag the whole module along
        return ast.parse(ast.unparse(e), mode='eval').body

    class _X(ast.NodeTransformer):
        def visit_Name(self, node):
            if isinstance(node.ctx, ast.Load) and node.id in am and self.depth < 6:
                self.depth += 1
                r = self.visit(clone(am[node.id]))
                self.depth -= 1
                return r
            return node
    x = _X()
    x.depth = 0
    e = x.visit(clone(expr))
    return norm(ast.fix_missing_locations(e))


def key_function(repo, func, key):
    """what a `key=` argument computes: (list of normalised element texts of the returned tuple or [text], parameter name) for a lambda,
    a nested def, a module-level function or a method of the same class (`self.m`); temporaries of that function are expanded.
    None if it cannot be resolved."""
    if isinstance(key, ast.Name) and not any(isinstance(x, FUNC_TYPES) and x.name == key.id for x in ast.walk(func)):
        # a module-level name bound once to a lambda / attrgetter(...) stands for it
        mod = getattr(func, '_mod', None)
        binds = [st for st in (mod.tree.body if mod is not None else []) if isinstance(st, ast.Assign) and len(st.targets) == 1
                 and isinstance(st.targets[0], ast.Name) and st.targets[0].id == key.id]
        if len(binds) == 1 and isinstance(binds[0].value, (ast.Lambda, ast.Call)):
            return key_function(repo, func, binds[0].value)
    if isinstance(key, ast.Call) and norm(key.func).split('.')[-1] == 'attrgetter' and len(key.args) == 1 and not key.keywords \
            and isinstance(key.args[0], ast.Constant) and isinstance(key.args[0].value, str):
        return ['_x.%s' % key.args[0].value], '_x'
    if isinstance(key, ast.Call) and isinstance(key.func, ast.Name) and not key.keywords and not any(isinstance(a, ast.Starred) for a in key.args):
        # a key-function factory: `key=make_key(a, b)` where make_key defines one function (or lambda) over its parameters and returns it
        r = repo.resolve(key.func)
        fac = repo.def_by_dotted(r) if r else None
        if fac is not None and isinstance(fac, FUNC_TYPES):
            eb = effective_body(fac)
            ps = [a.arg for a in fac.args.args]
            inner = None
            if len(eb) == 1 and isinstance(eb[0], ast.Return) and isinstance(eb[0].value, ast.Lambda):
                inner = eb[0].value
            elif len(eb) == 2 and isinstance(eb[0], FUNC_TYPES) and isinstance(eb[1], ast.Return) and isinstance(eb[1].value, ast.Name) \
                    and eb[1].value.id == eb[0].name:
                inner = ast.Name(id=eb[0].name, ctx=ast.Load())
            if inner is not None and len(ps) == len(key.args) and not fac.args.vararg and not fac.args.kwarg:
                kf = key_function(repo, fac, inner)
                if kf is not None:
                    texts, arg = kf
                    bind = {p_: a for p_, a in zip(ps, key.args)}
                    if arg not in bind:
                        class _S(ast.NodeTransformer):
                            def visit_Name(self, node):
                                if node.id in bind:
                                    return ast.parse(norm(bind[node.id]), mode='eval').body
                                return node
                        return [norm(_S().visit(ast.parse(t, mode='eval').body)) for t in texts], arg
        return None
    if isinstance(key, ast.Lambda):
        body, arg, holder = key.body, key.args.args[0].arg, None
    else:
        d = None
        if isinstance(key, ast.Name):
            for x in ast.walk(func):
                if isinstance(x, FUNC_TYPES) and x.name == key.id:
                    d = x
            if d is None:
                r = repo.resolve(key)
                d = repo.def_by_dotted(r) if r else None
        elif isinstance(key, ast.Attribute) and norm(key.value) == 'self':
            cls = getattr(repo.enclosing_func(key), '_parent', None)
            while cls is not None and not isinstance(cls, ast.ClassDef):
                cls = getattr(cls, '_parent', None)
            if cls is not None:
                d = next((x for x in cls.body if isinstance(x, FUNC_TYPES) and x.name == key.attr), None)
        if d is None or not isinstance(d, FUNC_TYPES):
            return None
        eb = effective_body(d)
        rets = [x for x in eb if isinstance(x, ast.Return)]
        if len(rets) != 1 or eb[-1] is not rets[0]:
            return None
        ps = [a.arg for a in d.args.args if a.arg != 'self']
        if len(ps) != 1:
            return None
        body, arg, holder = rets[0].value, ps[0], d
    elts = body.elts if isinstance(body, ast.Tuple) else [body]
    texts = [xnorm(e, holder) if holder is not None else norm(e) for e in elts]
    return texts, arg


# ---------------------------------------------------------------------------- path summaries
def path_summaries(func, max_paths=200):
    """What a small loop-free function computes, independent of how it is written: the set of (facts, result) over all paths from the
    entry to a return/raise/fall-through (no exception edges), where locals bound by plain assignments are expanded symbolically into
    the expressions they stand for, tests are recorded with their canonical spelling (`x is not None` true == `x is None` false),
    conditional expressions in a returned value split the path, and a result is the expanded text of the returned expression,
    'raise <text>' or 'None'.  Returns None when the function has loops/with/try (not summarised) or too many paths."""
    for n in own_nodes(func):
        if isinstance(n, (ast.For, ast.AsyncFor, ast.While, ast.Try, ast.Yield, ast.YieldFrom)):
            return None
    c = cfg_of(func)
    out = set()
    count = [0]

    def clone(e):
        return ast.parse(ast.unparse(e), mode='eval').body

    def expand(e, env):
        class _X(ast.NodeTransformer):
            def visit_Name(self, node):
                if isinstance(node.ctx, ast.Load) and node.id in env:
                    return clone(env[node.id])
                return node
        return ast.fix_missing_locations(_X().visit(clone(e)))

    def results(e, env, facts):
        """split conditional expressions at the top of a returned value"""
        if isinstance(e, ast.IfExp):
            t = expand(e.test, env)
            yield from results(e.body, env, facts | {fact_of(t, True)})
            yield from results(e.orelse, env, facts | {fact_of(t, False)})
        else:
            yield facts, norm(expand(e, env))

    def fact_of(t, taken):
        while isinstance(t, ast.UnaryOp) and isinstance(t.op, ast.Not):
            t, taken = t.operand, not taken
        return _test_key(t, taken)

    def dfs(node, env, facts, seen):
        if count[0] > max_paths:
            return
        a = node.ast
        if node.kind == 'stmt' and isinstance(a, ast.Return):
            count[0] += 1
            if a.value is None:
                out.add((frozenset(facts), 'None'))
            else:
                for f2, r in results(a.value, env, frozenset(facts)):
                    out.add((frozenset(f2), r))
            return
        if node.kind == 'stmt' and isinstance(a, ast.Raise):
            count[0] += 1
            out.add((frozenset(facts), 'raise ' + (norm(expand(a.exc, env)) if a.exc is not None else '')))
            return
        if node is c.exit:
            count[0] += 1
            out.add((frozenset(facts), 'None'))
            return
        if node.kind == 'stmt' and isinstance(a, ast.Assign) and len(a.targets) == 1 and isinstance(a.targets[0], ast.Name):
            env = dict(env)
            env[a.targets[0].id] = expand(a.value, env)
        elif node.kind == 'with':
            env = dict(env)
            for it in a.items:
                if it.optional_vars is not None:
                    for x in ast.walk(it.optional_vars):
                        if isinstance(x, ast.Name):
                            # `with open(p) as f` : f stands for the context expression (good enough to tell two versions apart)
                            env[x.id] = expand(it.context_expr, env)
        elif node.kind == 'stmt' and isinstance(a, (ast.Assign, ast.AugAssign, ast.AnnAssign)):
            # anything else that binds names forgets what was known about them
            env = dict(env)
            for x in ast.walk(a):
                if isinstance(x, ast.Name) and isinstance(x.ctx, ast.Store):
                    env.pop(x.id, None)
        for m, k in node.succ:
            if k == 'exc' or m.id in seen:
                continue
            f2 = facts
            if node.kind == 'test' and k in ('T', 'F') and a is not None:
                key = fact_of(expand(a, env), k == 'T')
                if (key[0], not key[1]) in facts:
                    continue            # contradicts an earlier test of the same expression
                f2 = facts | {key}
            dfs(m, env, f2, seen | {m.id})
    dfs(c.entry, _module_constants(func), frozenset(), {c.entry.id})
    if count[0] > max_paths:
        return None
    return out


def _module_constants(func):
    """module-level names bound exactly once, to a number or a string, and not shadowed in func: they read as their value"""
    mod = getattr(func, '_mod', None)
    if mod is None:
        return {}
    cnt, val = {}, {}
    for n in ast.walk(mod.tree):
        if isinstance(n, ast.Name) and isinstance(n.ctx, (ast.Store, ast.Del)):
            cnt[n.id] = cnt.get(n.id, 0) + 1
        elif isinstance(n, (ast.Global, ast.Nonlocal)):
            for nm in n.names:
                cnt[nm] = cnt.get(nm, 0) + 2
    for st in mod.tree.body:
        if isinstance(st, ast.Assign) and len(st.targets) == 1 and isinstance(st.targets[0], ast.Name) and isinstance(st.value, ast.Constant) \
                and isinstance(st.value.value, (int, str)) and not isinstance(st.value.value, bool) and cnt.get(st.targets[0].id) == 1:
            val[st.targets[0].id] = st.value
    for p_ in params(func):
        val.pop(p_, None)
    return val


def summary_text(summ):
    return sorted(('%s => %s' % (' & '.join(('' if v else 'not ') + '(' + t + ')' for t, v in sorted(f)), r)) for f, r in (summ or ()))


# ---------------------------------------------------------------------------------------------------- decision tables over the CFG
_ORD = {ast.Lt: '<', ast.Eq: '==', ast.In: 'in', ast.Is: 'is'}


def atom_key(e, func=None, total_order=True, pure_methods=()):
    """(canonical text, polarity) of an atomic test, so that every spelling of one fact has one key: `not`, the complementary
    operators (!=, not in, is not), mirrored orderings (`a > b` is `b < a`) and - for totally ordered operands such as positions -
    `a >= b` as `not a < b`; single-assignment pure temporaries of func are expanded"""
    pol = True
    while isinstance(e, ast.UnaryOp) and isinstance(e.op, ast.Not):
        e, pol = e.operand, not pol
    x = (lambda t: xnorm(t, func, pure_methods=pure_methods)) if func is not None else norm
    if isinstance(e, ast.Compare) and len(e.ops) == 1:
        op, l, r = type(e.ops[0]), x(e.left), x(e.comparators[0])
        c0 = e.comparators[0]
        if op in (ast.In, ast.NotIn) and isinstance(c0, (ast.Tuple, ast.List, ast.Set)) and c0.elts and \
                all(isinstance(v, ast.Constant) and isinstance(v.value, str) for v in c0.elts):
            r = '{%s}' % ', '.join(sorted(repr(v.value) for v in c0.elts))      # membership in a display of constants: a set of them
        if op in (ast.NotEq, ast.NotIn, ast.IsNot):
            op, pol = {ast.NotEq: ast.Eq, ast.NotIn: ast.In, ast.IsNot: ast.Is}[op], not pol
        if op is ast.Gt:
            op, l, r = ast.Lt, r, l
        elif op is ast.GtE and total_order:
            op, pol = ast.Lt, not pol
        elif op is ast.LtE and total_order:
            op, l, r, pol = ast.Lt, r, l, not pol
        if op in (ast.Eq, ast.Is) and r < l:
            l, r = r, l
        if op in _ORD:
            return '%s %s %s' % (l, _ORD[op], r), pol
    return x(e), pol


def decide(func, start, value_of, label_of, limit=4000, pure_methods=()):
    """Runs the CFG of func from node `start` under an oracle for atomic tests: value_of(key, polarity-adjusted?, node) returns
    True/False for a test whose canonical key it knows and None otherwise (both branches are explored).  label_of(node) names the
    nodes at which a run ends.  Returns the set of labels reached ('<exit>' for leaving the function, '<loop>' for coming back to a
    node already seen).  Exception edges are not followed."""
    out, seen, todo = set(), set(), [start]
    steps = 0
    while todo:
        n = todo.pop()
        steps += 1
        if steps > limit:
            raise AnchorError('decision walk does not end in %s' % getattr(func, 'name', '?'))
        lab = label_of(n)
        if lab is not None and n is not start:
            out.add(lab)
            continue
        if n.id in seen:
            out.add('<loop>')
            continue
        seen.add(n.id)
        if n.kind in ('exit', 'raise'):
            out.add('<exit>')
            continue
        if n.kind == 'for':
            v = value_of('<for>', n)
            if v is not None:
                todo.extend(m for m, k in n.succ if k == ('T' if v else 'F'))
                continue
        if n.kind == 'test' and n.ast is not None:
            key, pol = atom_key(n.ast, func, pure_methods=pure_methods)
            v = value_of(key, n)
            if v is not None:
                truth = v if pol else not v
                nxt = [m for m, k in n.succ if k == ('T' if truth else 'F')]
                todo.extend(nxt)
                continue
        todo.extend(m for m, k in n.succ if k not in ('exc', 'h'))
    return out


def value_cases(func, expr, _depth=0):
    """what `expr` may evaluate to in func, by cases: [(list of (atom key, polarity) that select the case, value expression)].
    Understands a conditional expression, a local with one binding, and a local bound in the two arms of one if/else - the three
    spellings of `A if C else B`.  Anything else is one unconditional case."""
    if _depth > 4:
        return [([], expr)]
    if isinstance(expr, ast.IfExp):
        k, pol = atom_key(expr.test, func)
        return [([(k, pol)] + c, v) for c, v in value_cases(func, expr.body, _depth + 1)] + \
               [([(k, not pol)] + c, v) for c, v in value_cases(func, expr.orelse, _depth + 1)]
    if isinstance(expr, ast.Name) and isinstance(expr.ctx, ast.Load):
        binds = [a for a in stmts_in(func, ast.Assign) if len(a.targets) == 1 and isinstance(a.targets[0], ast.Name) and a.targets[0].id == expr.id]
        others = [n for n in own_nodes(func) if isinstance(n, ast.Name) and n.id == expr.id and isinstance(n.ctx, (ast.Store, ast.Del))
                  and not any(n is a.targets[0] for a in binds)]
        if others:
            return [([], expr)]
        if len(binds) == 1:
            return value_cases(func, binds[0].value, _depth + 1)
        if len(binds) == 2:
            for n in own_nodes(func):
                if isinstance(n, ast.If) and len(n.body) == 1 and len(n.orelse) == 1 and \
                        {id(n.body[0]), id(n.orelse[0])} == {id(b) for b in binds}:
                    k, pol = atom_key(n.test, func)
                    return [([(k, pol)] + c, v) for c, v in value_cases(func, n.body[0].value, _depth + 1)] + \
                           [([(k, not pol)] + c, v) for c, v in value_cases(func, n.orelse[0].value, _depth + 1)]
    return [([], expr)]


def sorted_returns(repo, func):
    """for every `return` of func that hands out a value: the resolved key function (see key_function) by which that value is sorted -
    `return sorted(xs, key=K)` or `xs.sort(key=K)` directly followed by `return xs` - or None for a return that is not sorted"""
    out = []
    for blk_owner in [func] + [n for n in own_nodes(func)]:
        for field in ('body', 'orelse', 'finalbody'):
            blk = getattr(blk_owner, field, None)
            if not (isinstance(blk, list) and blk and isinstance(blk[0], ast.stmt)):
                continue
            for i, st in enumerate(blk):
                if not isinstance(st, ast.Return) or st.value is None:
                    continue
                v, key = st.value, None
                if isinstance(v, ast.Call) and call_name(v) == 'sorted' and isinstance(v.func, ast.Name):
                    key = kwarg(v, 'key')
                elif isinstance(v, ast.Name) and i > 0 and isinstance(blk[i - 1], ast.Expr) and isinstance(blk[i - 1].value, ast.Call) \
                        and norm(blk[i - 1].value.func) == v.id + '.sort':
                    key = kwarg(blk[i - 1].value, 'key')
                out.append((st, key_function(repo, func, key) if key is not None else None))
    return out


def selection_of(func):
    """func hands out the elements of one iterable that satisfy predicates, in order: {'iter': text, 'preds': [texts with the element
    spelled _x], 'kind': 'list' | 'lazy'} for `for v in I: if P: yield v` (guard-clause form too; @to_list makes it a list),
    `return [v for v in I if P]`, `return list(<generator>)`, `return (v for v in I if P)`, `return filter(lambda v: P, I)`.  None
    for anything else."""
    def rn(e, var):
        class _R(ast.NodeTransformer):
            def visit_Name(self, node):
                return ast.copy_location(ast.Name(id='_x', ctx=node.ctx), node) if node.id == var else node
        return norm(ast.fix_missing_locations(_R().visit(ast.parse(ast.unparse(e), mode='eval').body)))
    body = effective_body(func)
    decs = {norm(d).split('.')[-1] for d in func.decorator_list}
    if len(body) == 1 and isinstance(body[0], ast.For) and isinstance(body[0].target, ast.Name) and not body[0].orelse:
        loop, var, preds = body[0], body[0].target.id, []
        stmts = list(loop.body)
        while stmts:
            st = stmts[0]
            if isinstance(st, ast.If) and not st.orelse and len(stmts) == 1:
                preds.append(rn(st.test, var))
                stmts = list(st.body)
            elif isinstance(st, ast.If) and not st.orelse and len(st.body) == 1 and isinstance(st.body[0], ast.Continue):
                k = ast.UnaryOp(op=ast.Not(), operand=st.test)
                from .canon import canonicalise_comparisons
                preds.append(rn(canonicalise_comparisons(ast.Expression(body=ast.parse(ast.unparse(k), mode='eval').body)).body, var))
                stmts = stmts[1:]
            elif isinstance(st, ast.Expr) and isinstance(st.value, ast.Yield) and isinstance(st.value.value, ast.Name) \
                    and st.value.value.id == var and len(stmts) == 1:
                return {'iter': norm(loop.iter), 'preds': preds, 'kind': 'list' if 'to_list' in decs else 'lazy'}
            else:
                return None
        return None
    if len(body) == 1 and isinstance(body[0], ast.Return) and body[0].value is not None and not decs:
        v, kind = body[0].value, 'lazy'
        if isinstance(v, ast.Call) and isinstance(v.func, ast.Name) and v.func.id == 'list' and len(v.args) == 1 and not v.keywords:
            v, kind = v.args[0], 'list'
        if isinstance(v, ast.ListComp):
            kind = 'list'
        if isinstance(v, (ast.ListComp, ast.GeneratorExp)) and len(v.generators) == 1 and isinstance(v.generators[0].target, ast.Name) \
                and isinstance(v.elt, ast.Name) and v.elt.id == v.generators[0].target.id and not v.generators[0].is_async:
            g = v.generators[0]
            return {'iter': norm(g.iter), 'preds': [rn(t, g.target.id) for t in g.ifs], 'kind': kind}
        if isinstance(v, ast.Call) and isinstance(v.func, ast.Name) and v.func.id == 'filter' and len(v.args) == 2 \
                and isinstance(v.args[0], ast.Lambda) and len(v.args[0].args.args) == 1:
            return {'iter': norm(v.args[1]), 'preds': [rn(v.args[0].body, v.args[0].args.args[0].arg)], 'kind': kind}
    return None


def decision_table(func, start, atoms, label_of, want, pure_methods=()):
    """decide() for every assignment of the named atomic facts `atoms` = [(name, source text of the fact)]; `want(facts)` is the label
    the run must end with.  Entering `start` is forced true (a test node taken true, a loop head taken into its body).  Returns the
    list of mismatches as text (empty = the code computes exactly the wanted table, however it is written)."""
    import itertools
    keys = []
    for nm, text in atoms:
        k, pol = atom_key(ast.parse(text, mode='eval').body, None)
        keys.append((nm, k, pol))
    bad = []
    for bits in itertools.product((False, True), repeat=len(keys)):
        facts = dict(zip([k[0] for k in keys], bits))
        env = {k: (v if pol else not v) for (nm, k, pol), v in zip(keys, bits)}
        got = decide(func, start, lambda key_, n, env=env: True if n is start else env.get(key_), label_of, pure_methods=pure_methods)
        w = want(facts)
        w = w if isinstance(w, set) else {w}
        if got != w:
            bad.append('%s -> %s, expected %s' % (', '.join('%s=%d' % kv for kv in facts.items()), sorted(got), sorted(w)))
    return bad


def fact_accept(func, text, pure_methods=()):
    """accept(e, pol) for gate(): the test e, taken with outcome pol, establishes the fact written as `text` - whatever the spelling
    (complement operators, `not`, mirrored orderings) and whether or not single-assignment temporaries stand for parts of it; write
    `text` without temporaries (`str(file_io.path) not in except_paths`, not `str(path) ...`)"""
    k0, p0 = atom_key(ast.parse(text, mode='eval').body, None)

    def accept(e, pol):
        k, p_ = atom_key(e, func, pure_methods=pure_methods)
        return k == k0 and (pol == p_) == p0
    return accept


def emission_points(func):
    """where func hands out the elements of its result, one at a time: [(node, element expression)] - the `yield X` of a generator, or,
    for a function that returns a list it builds (`acc = []` ... `acc.append(X)` ... `return acc`, nothing else done with acc), the
    append calls.  The two ways of writing "produce these elements in this order"."""
    ys = [y for y in own_nodes(func) if isinstance(y, ast.Yield) and y.value is not None]
    if ys:
        return [(y, y.value) for y in ys]
    rets = [r for r in stmts_in(func, ast.Return) if r.value is not None]
    if not rets or not all(isinstance(r.value, ast.Name) for r in rets) or len({r.value.id for r in rets}) != 1:
        return []
    acc = rets[0].value.id
    inits = [a for a in stmts_in(func, ast.Assign) if len(a.targets) == 1 and isinstance(a.targets[0], ast.Name) and a.targets[0].id == acc]
    if len(inits) != 1 or not (isinstance(inits[0].value, ast.List) and not inits[0].value.elts):
        return []
    out = []
    for n in own_nodes(func):
        if isinstance(n, ast.Name) and n.id == acc and isinstance(n.ctx, ast.Load):
            par = getattr(n, '_parent', None)
            gp = getattr(par, '_parent', None)
            if isinstance(par, ast.Attribute) and par.attr == 'append' and isinstance(gp, ast.Call) and gp.func is par and len(gp.args) == 1:
                out.append((gp, gp.args[0]))
            elif isinstance(par, ast.Return):
                pass
            else:
                return []
    return out
