"""Catalogue of self-test variants (see selftest.py).  Each entry edits one file of a scratch copy.
kind B = breaking (the check of `prop` must fire, rule prefix `rule`), kind S = silent twin."""

SUB = 'jedi/inference/compiled/subprocess/__init__.py'
ACC = 'jedi/inference/compiled/access.py'
API = 'jedi/api/__init__.py'
HLP = 'jedi/api/helpers.py'
CLS = 'jedi/api/classes.py'
CMP = 'jedi/api/completion.py'
IMP = 'jedi/inference/imports.py'
REF = 'jedi/inference/references.py'
RFA = 'jedi/api/refactoring/__init__.py'
PRJ = 'jedi/api/project.py'
FUN = 'jedi/inference/compiled/subprocess/functions.py'
VAL = 'jedi/inference/compiled/value.py'
CTX = 'jedi/inference/context.py'
REC = 'jedi/inference/recursion.py'
STX = 'jedi/inference/syntax_tree.py'


def V(prop, kind, name, file, old, new, rule=None):
    return {'prop': prop, 'kind': kind, 'name': name, 'file': file, 'old': old, 'new': new, 'rule': rule}


def R(prop, name, file, qual, old, new):
    """silent twin: rename a local variable of one function"""
    return {'prop': prop, 'kind': 'S', 'name': name, 'file': file, 'rename': (qual, old, new), 'rule': None}


def V2(prop, kind, name, file, edits, rule=None):
    return {'prop': prop, 'kind': kind, 'name': name, 'file': file, 'edits': edits, 'rule': rule}


def P(prop, kind, name, patch, rule=None):
    """variant given as a patch file under sa/twins/ (edits spanning several files)"""
    import os
    return {'prop': prop, 'kind': kind, 'name': name, 'patch': os.path.join(os.path.dirname(os.path.abspath(__file__)), 'twins', patch), 'rule': rule}


FIL = 'jedi/inference/filters.py'
KLS = 'jedi/inference/value/klass.py'
MOD = 'jedi/inference/value/module.py'
GST = 'jedi/inference/compiled/getattr_static.py'
SYS = 'jedi/inference/sys_path.py'
INS = 'jedi/inference/value/instance.py'

VARIANTS = [
    # ------------------------------------------------------------------ C14
    V('C14', 'B', 'read handler narrowed to EOFError', SUB, 'except (EOFError, pickle.UnpicklingError) as eof_error:', 'except EOFError as eof_error:', 'C14.b'),
    V('C14', 'B', 'write handler forgets _kill', SUB, "        except BrokenPipeError:\n            self._kill()\n", "        except BrokenPipeError:\n", 'C14.b'),
    V('C14', 'B', 'crash test after the write', SUB,
      "        if self.is_crashed:\n            raise InternalError(\"The subprocess %s has crashed.\" % self._executable)\n\n        data = inference_state_id, function, args, kwargs\n",
      "        data = inference_state_id, function, args, kwargs\n", 'C14.a'),
    V('C14', 'B', 'child not reaped', SUB, "        process.kill()\n        process.wait()\n", "        process.kill()\n", 'C14.c'),
    V('C14', 'B', 'finalizer holds self', SUB, "weakref.finalize(self,\n                                                  _cleanup_process,\n                                                  process,\n                                                  t)",
      "weakref.finalize(self,\n                                                  _cleanup_process,\n                                                  process,\n                                                  self._stderr_thread)", 'C14.d'),
    V('C14', 'B', 'get_sys_path bypasses _get_subprocess', 'jedi/api/environment.py', 'return self._get_subprocess().get_sys_path()', 'return self._subprocess.get_sys_path()', 'C14.e'),
    V('C14', 'B', 'reply with four fields', SUB, 'result = True, traceback.format_exc(), e', 'result = True, traceback.format_exc(), e, None', 'C14.f'),
    V('C14', 'B', '__del__ ignores the crash flag', SUB, 'if self._used and not self._compiled_subprocess.is_crashed:', 'if self._used:', 'C14.g'),
    V('C14', 'B', 'first contact failure escapes', 'jedi/api/environment.py', "        except Exception as exc:\n            raise InvalidPythonEnvironment(", "        except OSError as exc:\n            raise InvalidPythonEnvironment(", 'C14.h'),
    V('C14', 'S', 'wider read handler', SUB, 'except (EOFError, pickle.UnpicklingError) as eof_error:', 'except (EOFError, pickle.UnpicklingError, OSError) as eof_error:'),
    V('C14', 'S', 'rename local in _send', SUB, "        data = inference_state_id, function, args, kwargs\n        try:\n            pickle_dump(data,", "        request = inference_state_id, function, args, kwargs\n        try:\n            pickle_dump(request,"),
    V('C14', 'S', 'reorder stream closing', SUB, 'for stream in [process.stdin, process.stdout, process.stderr]:', 'for stream in [process.stderr, process.stdout, process.stdin]:'),
    V('C14', 'S', 'nested form of the crash test', SUB,
      "        if self.is_crashed:\n            raise InternalError(\"The subprocess %s has crashed.\" % self._executable)\n\n        data = inference_state_id, function, args, kwargs\n",
      "        if not self.is_crashed:\n            data = inference_state_id, function, args, kwargs\n        else:\n            raise InternalError(\"The subprocess %s has crashed.\" % self._executable)\n"),
    # ------------------------------------------------------------------ C12
    V('C12', 'B', 'plugin imports conftest for real', 'jedi/plugins/pytest.py', "def _is_pytest_func(func_name, decorator_nodes):\n",
      "def _really_collect(name):\n    import importlib\n    return importlib.import_module(name)\n\n\ndef _is_pytest_func(func_name, decorator_nodes):\n", 'C12.a'),
    V('C12', 'B', 'second caller of compiled.load_module', 'jedi/inference/sys_path.py', "def discover_buildout_paths(inference_state, script_path):\n",
      "def _peek(inference_state, name, paths):\n    from jedi.inference import compiled\n    return compiled.load_module(inference_state, dotted_name=name, sys_path=paths)\n\n\ndef discover_buildout_paths(inference_state, script_path):\n", 'C12.b'),
    V('C12', 'B', 'unsafe test inverted', IMP, 'if not project._load_unsafe_extensions:', 'if project._load_unsafe_extensions:', 'C12.c'),
    V('C12', 'B', 'filter computed but unfiltered list passed', IMP, "        sys_path = [p for p in sys_path if p in safe_paths]\n", "        filtered = [p for p in sys_path if p in safe_paths]\n", 'C12.c'),
    V('C12', 'B', 'find_spec with the dotted name', FUN, 'spec = importlib.util.find_spec(string)', 'spec = importlib.util.find_spec(full_name or string)', 'C12.e'),
    V('C12', 'B', 'sys.path.insert without restore', IMP, "def _load_python_module(inference_state, file_io,\n", "def _prime(path):\n    import sys\n    sys.path.insert(0, path)\n\n\ndef _load_python_module(inference_state, file_io,\n", 'C12.f'),
    V('C12', 'B', 'restore outside finally in access.load_module', ACC, "    finally:\n        sys.path = temp\n\n    # Just access the cache", "    sys.path = temp\n\n    # Just access the cache", 'C12.f'),
    V('C12', 'B', 'exec in namedtuple support', 'jedi/plugins/stdlib.py', "def _follow_param(inference_state, arguments, index):\n", "def _materialise(code):\n    ns = {}\n    exec(code, ns)\n    return ns\n\n\ndef _follow_param(inference_state, arguments, index):\n", 'C12.a'),
    V('C12', 'S', 'rename safe_paths', IMP, "        safe_paths = set(project._get_base_sys_path(inference_state))\n        sys_path = [p for p in sys_path if p in safe_paths]\n",
      "        trusted = set(project._get_base_sys_path(inference_state))\n        sys_path = [p for p in sys_path if p in trusted]\n"),
    V('C12', 'S', 'filter with filter()', IMP, "        sys_path = [p for p in sys_path if p in safe_paths]\n", "        sys_path = list(filter(lambda p: p in safe_paths, sys_path))\n"),
    V('C12', 'S', 'frozenset for the safe set', IMP, "safe_paths = set(project._get_base_sys_path(inference_state))", "safe_paths = frozenset(project._get_base_sys_path(inference_state))"),
    V2('C12', 'S', 'rename saved path in access.load_module', ACC, [("    temp, sys.path = sys.path, sys_path\n", "    saved, sys.path = sys.path, sys_path\n"),
                                                                     ("    finally:\n        sys.path = temp\n", "    finally:\n        sys.path = saved\n")]),
    # ------------------------------------------------------------------ C13
    V('C13', 'B', 'isinstance instead of exact type', ACC, "if safe and type(self._obj) not in ALLOWED_GETITEM_TYPES:", "if safe and not isinstance(self._obj, ALLOWED_GETITEM_TYPES):", 'C13.a'),
    V2('C13', 'B', 'new py__len__ on the live object', ACC, [("    def py__class__(self):\n", "    def py__len__(self):\n        return len(self._obj)\n\n    def py__class__(self):\n"),
                                                              ("def create_access(inference_state, obj):\n", "def length_of(handle):\n    return handle.py__len__()\n\n\ndef create_access(inference_state, obj):\n")], 'C13.a'),
    V('C13', 'B', 'safe= dropped in CompiledValue', VAL, "                    index,\n                    safe=not self.inference_state.allow_unsafe_executions\n", "                    index,\n                    safe=False\n", 'C13.c'),
    V('C13', 'B', 'real name for descriptors', VAL, "        if (is_descriptor or not has_attribute) \\\n                and not self._inference_state.allow_unsafe_executions:", "        if not has_attribute \\\n                and not self._inference_state.allow_unsafe_executions:", 'C13.b'),
    V('C13', 'B', 'property allowed as descriptor', ACC, "    staticmethod,\n    classmethod,\n)", "    staticmethod,\n    classmethod,\n    property,\n)", 'C13.d'),
    V('C13', 'B', 'Interpreter forces unsafe', API, "        self._inference_state.allow_unsafe_executions = \\\n            settings.allow_unsafe_interpreter_executions", "        self._inference_state.allow_unsafe_executions = True", 'C13.c'),
    V('C13', 'B', 'hasattr without the safe test', ACC, "            if not safe:\n                # Unsafe is mostly used", "            if True:\n                # Unsafe is mostly used", 'C13.b'),
    V('C13', 'B', 'ABC in ALLOWED_GETITEM_TYPES', ACC, "ALLOWED_GETITEM_TYPES = (str, list, tuple, bytes, bytearray, dict)", "import collections.abc\nALLOWED_GETITEM_TYPES = (str, list, tuple, bytes, bytearray, dict, collections.abc.Sequence)", 'C13.d'),
    V('C13', 'S', 'another exact builtin type', ACC, "ALLOWED_GETITEM_TYPES = (str, list, tuple, bytes, bytearray, dict)", "ALLOWED_GETITEM_TYPES = (str, list, tuple, bytes, bytearray, dict, range)"),
    V('C13', 'S', 'gate as early return with local', ACC, "        if safe and type(self._obj) not in ALLOWED_GETITEM_TYPES:\n            # Get rid of side effects, we won't call custom `__getitem__`s.\n            return None\n",
      "        if safe:\n            if type(self._obj) not in ALLOWED_GETITEM_TYPES:\n                return None\n"),
    V('C13', 'S', 'alias of the live object', ACC, "        return self._create_access_path(self._obj[index])", "        obj = self._obj\n        return self._create_access_path(obj[index])"),
    # ------------------------------------------------------------------ C01
    V('C01', 'B', 'decorator dropped from help', API, "    @validate_line_column\n    def help(self, line=None, column=None):", "    def help(self, line=None, column=None):", 'C01.a'),
    V('C01', 'B', 'new public method without validation', API, "    @validate_line_column\n    def help(self, line=None, column=None):", "    def hover(self, line=None, column=None):\n        return self.help(line + 0, column)\n\n    @validate_line_column\n    def help(self, line=None, column=None):", 'C01.a'),
    V('C01', 'B', 'off by one in the line test', HLP, "if not (0 < line <= len(self._code_lines)):", "if not (0 <= line <= len(self._code_lines)):", 'C01.b'),
    V('C01', 'B', 'wrapper raises IndexError', HLP, "raise ValueError('`line` parameter is not in a valid range.')", "raise IndexError('`line` parameter is not in a valid range.')", 'C01.b'),
    V('C01', 'B', 'OnErrorLeaf handler removed', CMP, "        except helpers.OnErrorLeaf as e:", "        except KeyError as e:", 'C01.c'),
    V('C01', 'B', 'error recovery off', HLP, "p = Parser(grammar._pgen_grammar, error_recovery=True)", "p = Parser(grammar._pgen_grammar, error_recovery=False)", 'C01.c'),
    V('C01', 'B', 'try_stmt branch deleted', STX, "    elif typ == 'try_stmt':", "    elif typ == 'try_stmt_':", 'C01.e'),
    V('C01', 'B', 'new scope kind without context', 'jedi/parser_utils.py', "return t in ('file_input', 'classdef', 'funcdef', 'lambdef', 'sync_comp_for')", "return t in ('file_input', 'classdef', 'funcdef', 'lambdef', 'sync_comp_for', 'match_stmt')", 'C01.e'),
    V('C01', 'B', 'operator removed from table', STX, "    '//': '__floordiv__',\n", "", 'C01.e'),
    V('C01', 'B', 'None guard removed in BaseName.line', CLS, "        start_pos = self._name.start_pos\n        if start_pos is None:\n            return None\n        return start_pos[0]", "        start_pos = self._name.start_pos\n        return start_pos[0]", 'C01.d'),
    V('C01', 'B', 'leaf None guard removed', HLP, "        leaf = leaf.get_previous_leaf()\n        if leaf is None:\n            return None\n\n    # Now that we know where we are", "        leaf = leaf.get_previous_leaf()\n\n    # Now that we know where we are", 'C01.g'),
    V('C01', 'B', 'bare py__simple_getitem__ in a helper', 'jedi/inference/helpers.py', "class SimpleGetItemNotFound(Exception):", "def first_item(value_set):\n    return value_set.py__simple_getitem__(0)\n\n\nclass SimpleGetItemNotFound(Exception):", 'C01.f'),
    V('C01', 'S', 'broader OnErrorLeaf handler', CMP, "        except helpers.OnErrorLeaf as e:", "        except (helpers.OnErrorLeaf, KeyError) as e:"),
    V('C01', 'S', 'nested form of a None guard', CLS, "        start_pos = self._name.start_pos\n        if start_pos is None:\n            return None\n        return start_pos[0]", "        start_pos = self._name.start_pos\n        if start_pos is not None:\n            return start_pos[0]\n        return None"),
    V('C01', 'S', 'new operator in the table', STX, "    '//': '__floordiv__',\n", "    '//': '__floordiv__',\n    '<=>': '__spaceship__',\n"),
    V('C01', 'S', 'equivalent form of the line test', HLP, "if not (0 < line <= len(self._code_lines)):", "if not (1 <= line <= len(self._code_lines)):"),
    V('C01', 'S', 'rename wrapper local', HLP, "        line_string = self._code_lines[line - 1]\n        line_len = len(line_string)\n        if line_string.endswith('\\r\\n'):\n            line_len -= 2\n        elif line_string.endswith('\\n'):",
      "        line_string = self._code_lines[line - 1]\n        line_len = len(line_string)\n        if line_string.endswith('\\r\\n'):\n            line_len -= 2\n        elif line_string.endswith('\\n') and True:"),
    # ------------------------------------------------------------------ C03
    V('C03', 'B', 'break removed in filter_name', 'jedi/inference/finder.py', "        names = filter.get(string_name)\n        if names:\n            break\n", "        names = filter.get(string_name) or names\n", 'C03.c'),
    V('C03', 'B', 'builtins consulted first', CTX, "    base_context = context\n    from jedi.inference.value.function import BaseFunctionExecutionContext\n    while context is not None:",
      "    base_context = context\n    from jedi.inference.value.function import BaseFunctionExecutionContext\n    yield next(base_context.inference_state.builtins_module.get_filters())\n    while context is not None:", 'C03.a'),
    V2('C03', 'B', 'position limit dropped before the yield', CTX, [("        if isinstance(context, (BaseFunctionExecutionContext, ModuleContext)):\n            # The position should be reset if the current scope is a function.\n            until_position = None\n\n        context = context.parent_context", "        context = context.parent_context"),
       ("    while context is not None:\n        # Names in methods cannot be resolved within the class.\n", "    while context is not None:\n        if isinstance(context, (BaseFunctionExecutionContext, ModuleContext)):\n            until_position = None\n")], 'C03.b'),
    V('C03', 'B', 'method sees the class context', 'jedi/inference/value/function.py', "                    context,\n                    parent_context=parent_context,\n                    tree_node=tree_node\n                )\n            else:", "                    context,\n                    parent_context=context,\n                    tree_node=tree_node\n                )\n            else:", 'C03.e'),
    V('C03', 'B', 'global names dropped from module filters', 'jedi/inference/value/module.py', "        yield MergedFilter(\n            ParserTreeFilter(\n                parent_context=self.as_context(),\n                origin_scope=origin_scope\n            ),\n            GlobalNameFilter(self.as_context()),\n        )",
      "        yield MergedFilter(\n            ParserTreeFilter(\n                parent_context=self.as_context(),\n                origin_scope=origin_scope\n            ),\n        )", 'C03.f'),
    V('C03', 'B', 'scope filter dropped', 'jedi/inference/filters.py', "        names = [n for n in names if self._is_name_reachable(n)]\n", "", 'C03.d'),
    V('C03', 'S', 'return instead of break in filter_name', 'jedi/inference/finder.py', "        names = filter.get(string_name)\n        if names:\n            break\n\n    return list(_remove_del_stmt(names))", "        names = filter.get(string_name)\n        if names:\n            return list(_remove_del_stmt(names))\n\n    return list(_remove_del_stmt(names))"),
    V2('C03', 'S', 'rename builtins filter variable', CTX, [("    b = next(base_context.inference_state.builtins_module.get_filters(), None)\n    assert b is not None", "    builtins_filter = next(base_context.inference_state.builtins_module.get_filters(), None)\n    assert builtins_filter is not None"), ("    # Add builtins to the global scope.\n    yield b", "    # Add builtins to the global scope.\n    yield builtins_filter")]),
    # ------------------------------------------------------------------ C04
    V('C04', 'B', 'sort key elements swapped', CMP, "                                                 x.name.startswith('__'),\n                                                 x.name.startswith('_'),", "                                                 x.name.startswith('_'),\n                                                 x.name.startswith('__'),", 'C04.e'),
    V('C04', 'B', 'dedup test removed', CMP, "            if k not in comp_dct:\n                comp_dct.add(k)\n", "            if True:\n                comp_dct.add(k)\n", 'C04.b'),
    V('C04', 'B', 'dedup keyed on the name only', CMP, "k = (new.name, new.complete)  # key", "k = new.name  # key", 'C04.b'),
    V('C04', 'B', 'prefix length of the candidate', CMP, "                stack,\n                len(like_name),\n", "                stack,\n                len(string),\n", 'C04.c'),
    V('C04', 'B', 'fuzzy complete returns empty string', CLS, "        if self._is_fuzzy:\n            return None\n        return self._complete(True)", "        if self._is_fuzzy:\n            return ''\n        return self._complete(True)", 'C04.d'),
    V('C04', 'B', 'break after first filter', CMP, "        for filter in value.get_filters(origin_scope=user_context.tree_node):\n            completion_names += filter.values()\n\n        if not value.is_stub()", "        for filter in value.get_filters(origin_scope=user_context.tree_node):\n            completion_names += filter.values()\n            break\n\n        if not value.is_stub()", 'C04.g'),
    V('C04', 'B', 'containment instead of startswith', HLP, "    return string.startswith(like_name)", "    return like_name in string", 'C04.f'),
    V('C04', 'S', 'key as a named function', CMP, "            + sorted(completions, key=lambda x: (not x.name.startswith(self._like_name),\n                                                 x.name.startswith('__'),\n                                                 x.name.startswith('_'),\n                                                 x.name.lower()))",
      "            + sorted(completions, key=lambda c: (not c.name.startswith(self._like_name),\n                                                 c.name.startswith('__'),\n                                                 c.name.startswith('_'),\n                                                 c.name.lower()))"),
    V('C04', 'S', 'dedup with a dict', CMP, "    comp_dct = set()\n", "    comp_dct = set()  # seen (name, complete) keys\n"),
    # ------------------------------------------------------------------ C05
    V('C05', 'B', 'only the first definition renamed', RFA, "    for d in definitions:\n        # This private access is ok in a way.", "    definitions = definitions[:1]\n    for d in definitions:\n        # This private access is ok in a way.", 'C05.b'),
    V('C05', 'B', 'prefix dropped', RFA, "fmap[tree_name] = tree_name.prefix + new_name", "fmap[tree_name] = new_name", 'C05.b'),
    V('C05', 'B', 'names in other files skipped', RFA, "            if tree_name is not None:\n                fmap =", "            if tree_name is not None and d.module_path == definitions[0].module_path:\n                fmap =", 'C05.b'),
    V('C05', 'B', 'flag restored after the try', REF, "    try:\n        inf.flow_analysis_enabled = False\n        found_names = _find_defining_names(module_context, tree_name)\n    finally:\n        inf.flow_analysis_enabled = True\n", "    inf.flow_analysis_enabled = False\n    found_names = _find_defining_names(module_context, tree_name)\n    inf.flow_analysis_enabled = True\n", 'C05.c'),
    V('C05', 'B', 'rename filters builtins differently', API, "        definitions = self.get_references(line, column, include_builtins=False)\n        return refactoring.rename(", "        definitions = self.get_references(line, column, include_builtins=False)[:50]\n        return refactoring.rename(", 'C05.a'),
    V('C05', 'S', 'enumerate in the rename loop', RFA, "    if not definitions:\n        raise RefactoringError(\"There is no name under the cursor\")\n\n    for d in definitions:", "    if len(definitions) == 0:\n        raise RefactoringError(\"There is no name under the cursor\")\n\n    for d in definitions:"),
    # ------------------------------------------------------------------ C07
    V('C07', 'B', 'apply renders a second time', RFA, "            f.write(self.get_new_code())", "            f.write(self._inference_state.grammar.refactor(self._module_node, dict(self._node_to_str_map)))", 'C07.a'),
    V('C07', 'B', 'get_changed_files writes to disk', RFA, "        renames = self.get_renames()\n        return {", "        renames = self.get_renames()\n        for path, map_ in self._file_to_node_changes.items():\n            if path is not None:\n                open(path, 'a').close()\n        return {", 'C07.b'),
    V('C07', 'B', 'newline argument dropped', RFA, "with open(self._from_path, 'w', newline='') as f:", "with open(self._from_path, 'w') as f:", 'C07.c'),
    V('C07', 'B', 'renames before writes', RFA, "        for f in self.get_changed_files().values():\n            f.apply()\n\n        for old, new in self.get_renames():\n            old.rename(new)", "        for old, new in self.get_renames():\n            old.rename(new)\n\n        for f in self.get_changed_files().values():\n            f.apply()", 'C07.d'),
    V('C07', 'B', 'inline raises ValueError', RFA, 'raise RefactoringError("There are no references to this name")', 'raise ValueError("There are no references to this name")', 'C07.e'),
    V('C07', 'B', 'until_line unvalidated again', API, "                if not (0 < until_line <= len(self._code_lines)):\n                    raise ValueError('`until_line` parameter is not in a valid range.')\n                until_column = len(self._code_lines[until_line - 1])\n            until_pos = until_line, until_column\n        return extract_variable(", "                until_column = len(self._code_lines[until_line - 1])\n            until_pos = until_line, until_column\n        return extract_variable(", 'C07.f'),
    V('C07', 'S', 'Path.open with newline', RFA, "with open(self._from_path, 'w', newline='') as f:", "with self._from_path.open('w', newline='') as f:"),
    V('C07', 'S', 'RefactoringError subclass message change', RFA, 'raise RefactoringError("There are no references to this name")', 'raise RefactoringError("This name has no references")'),
    # ------------------------------------------------------------------ C08
    V('C08', 'B', 'module-level memo of module names', IMP, "def _load_python_module(inference_state, file_io,\n", "_module_names_cache = {}\n\n\ndef _remember(key, value):\n    _module_names_cache[key] = value\n\n\ndef _load_python_module(inference_state, file_io,\n", 'C08.a'),
    V('C08', 'B', 'lru_cache on transform_path_to_dotted', 'jedi/inference/sys_path.py', "def transform_path_to_dotted(sys_path, module_path):", "import functools\n\n\n@functools.lru_cache(maxsize=None)\ndef transform_path_to_dotted(sys_path, module_path):", 'C08.a'),
    V('C08', 'B', 'definition name cache is a plain dict', 'jedi/inference/filters.py', "    = weakref.WeakKeyDictionary()", "    = {}", 'C08.c'),
    V('C08', 'B', 'None bypass removed', 'jedi/inference/filters.py', "    if parso_cache_node is None:\n        names = used_names.get(name_key, ())\n        return tuple(name for name in names if name.is_definition(include_setitem=True))\n", "", 'C08.c'),
    V('C08', 'B', 'clear_time_caches removed', API, "        cache.clear_time_caches()\n", "", 'C08.b'),
    V('C08', 'B', 'buffer parsed from the cache', API, "            cache=False,  # No disk cache, because the current script often changes.", "            cache=True,", 'C08.e'),
    V('C08', 'B', 'cached parent scope asked with include_flows', 'jedi/inference/filters.py', "return get_cached_parent_scope(self._parso_cache_node, base_node) == self._parser_scope", "return get_cached_parent_scope(self._parso_cache_node, base_node, include_flows=False) == self._parser_scope", 'C08.c'),
    V('C08', 'S', 'constant lookup table at module level', IMP, "def _load_python_module(inference_state, file_io,\n", "_KNOWN_SUFFIXES = {'.py': 'source', '.pyi': 'stub'}\n\n\ndef _load_python_module(inference_state, file_io,\n"),
    V('C08', 'S', 'new per-inference-state memo', 'jedi/inference/sys_path.py', "def transform_path_to_dotted(sys_path, module_path):", "@inference_state_method_cache(default=None)\ndef _noop_memo(module_context):\n    return None\n\n\ndef transform_path_to_dotted(sys_path, module_path):"),
    # ------------------------------------------------------------------ C09
    V('C09', 'B', 'project files parsed from text with cache', IMP, "        file_io=file_io,\n        cache=True,\n        diff_cache=settings.fast_parser,", "        code=file_io.read(),\n        cache=True,\n        diff_cache=settings.fast_parser,", 'C09.a'),
    V('C09', 'B', 'class-level ModuleCache state', IMP, "class ModuleCache:\n    def __init__(self):\n        self._name_cache = {}", "class ModuleCache:\n    _name_cache = {}\n\n    def __init__(self):\n        pass", 'C09.b'),
    V('C09', 'B', 'helper memoises module info', FUN, "def get_module_info(inference_state, sys_path=None, full_name=None, **kwargs):", "_info_memo = {}\n\n\ndef _memo(k, v):\n    _info_memo[k] = v\n\n\ndef get_module_info(inference_state, sys_path=None, full_name=None, **kwargs):", 'C09.c'),
    V('C09', 'S', 'file_io passed positionally renamed', IMP, "def _load_python_module(inference_state, file_io,\n                        import_names=None, is_package=False):\n    module_node = inference_state.parse(\n        file_io=file_io,", "def _load_python_module(inference_state, file_io,\n                        import_names=None, is_package=False):\n    module_node = inference_state.parse(\n        file_io=file_io,  # parso stats this handle"),
    # ------------------------------------------------------------------ C10
    V('C10', 'B', 'sys_path dropped from the global lookup', IMP, "            full_name=module_name,\n            sys_path=sys_path,\n            is_global_search=True,", "            full_name=module_name,\n            is_global_search=True,", 'C10.a'),
    V('C10', 'B', 'restore not in finally', FUN, "    finally:\n        if sys_path is not None:\n            sys.path = temp", "    finally:\n        pass", 'C10.b'),
    V('C10', 'B', 'first spec does not win', FUN, "                return implicit_ns_info, True\n            break\n", "                return implicit_ns_info, True\n", 'C10.b'),
    V('C10', 'B', 'sub-module before attribute in goto_import', IMP, "        if names and not any(n.tree_name is tree_name for n in names):\n            return names\n\n        path = import_path + (from_import_name,)\n        importer = Importer(context.inference_state, path, module_context, level)\n        values = importer.follow()\n    return set(s.name for s in values)",
      "        path = import_path + (from_import_name,)\n        importer = Importer(context.inference_state, path, module_context, level)\n        sub = importer.follow()\n        if sub:\n            return set(s.name for s in sub)\n        if names and not any(n.tree_name is tree_name for n in names):\n            return names\n    return set(s.name for s in values)", 'C10.c'),
    V('C10', 'B', 'string_names instead of the package', IMP, "            base = module_context.get_value().py__package__()", "            base = module_context.get_value().string_names", 'C10.d'),
    V('C10', 'S', 'keyword order in get_module_info call', IMP, "            string=import_names[-1],\n            full_name=module_name,\n            sys_path=sys_path,\n            is_global_search=True,", "            sys_path=sys_path,\n            string=import_names[-1],\n            full_name=module_name,\n            is_global_search=True,"),
    # ------------------------------------------------------------------ C11
    V('C11', 'B', 'TreeSignature keeps self when bound', 'jedi/inference/signature.py', "        if self.is_bound:\n            return params[1:]\n        return params", "        if self.is_bound:\n            return params\n        return params", 'C11.a'),
    V('C11', 'B', 'AbstractSignature drops two', 'jedi/inference/signature.py', "            return param_names[1:]", "            return param_names[2:]", 'C11.a'),
    V('C11', 'B', 'bind forgets is_bound', 'jedi/inference/signature.py', "return TreeSignature(value, self._function_value, is_bound=True)", "return TreeSignature(value, self._function_value)", 'C11.a'),
    V('C11', 'B', 'positional-only never reported', 'jedi/inference/names.py', "                if p == '/':\n                    return Parameter.POSITIONAL_ONLY", "                if p == '/':\n                    return Parameter.POSITIONAL_OR_KEYWORD", 'C11.b'),
    V('C11', 'B', 'slash dropped in to_string', 'jedi/inference/signature.py', "                if is_positional and kind != Parameter.POSITIONAL_ONLY:\n                    yield '/'\n                    is_positional = False", "                if is_positional and kind != Parameter.POSITIONAL_ONLY:\n                    is_positional = False", 'C11.b'),
    V('C11', 'B', 'docstring blank line dropped', CLS, "            return signature_text + '\\n\\n' + doc", "            return signature_text + '\\n' + doc", 'C11.d'),
    V('C11', 'S', 'reorder kind tests', 'jedi/inference/names.py', "        if kind == Parameter.VAR_POSITIONAL:  # *args\n            return '*'\n        if kind == Parameter.VAR_KEYWORD:  # **kwargs\n            return '**'\n        return ''", "        if kind == Parameter.VAR_KEYWORD:  # **kwargs\n            return '**'\n        if kind == Parameter.VAR_POSITIONAL:  # *args\n            return '*'\n        return ''"),
    # ------------------------------------------------------------------ C15
    V('C15', 'B', 'default dropped on infer_import', IMP, "@inference_state_method_cache(default=NO_VALUES)\ndef infer_import(context, tree_name):", "@inference_state_method_cache()\ndef infer_import(context, tree_name):", 'C15.a'),
    V('C15', 'B', '_limit_value_infers removed from _infer_node', STX, "@_limit_value_infers\ndef _infer_node(context, element):", "def _infer_node(context, element):", 'C15.a'),
    V('C15', 'B', 'pop outside finally', REC, "        try:\n            pushed_nodes.append(node)\n            yield True\n        finally:\n            pushed_nodes.pop()", "        pushed_nodes.append(node)\n        yield True\n        pushed_nodes.pop()", 'C15.b'),
    V2('C15', 'B', 'builtins exemption before the bookkeeping', REC, [("        # These two will be undone in pop_execution.\n        self._recursion_level += 1\n        self._parent_execution_funcs.append(funcdef)\n\n        module_context = execution.get_root_context()\n\n        if module_context.is_builtins_module():",
       "        module_context = execution.get_root_context()\n\n        if module_context.is_builtins_module():"),
       ("            return False\n\n        if self._recursion_level > recursion_limit:", "            return False\n\n        # These two will be undone in pop_execution.\n        self._recursion_level += 1\n        self._parent_execution_funcs.append(funcdef)\n\n        if self._recursion_level > recursion_limit:")], 'C15.b'),
    V('C15', 'B', 'equality instead of >=', REC, "if self._execution_count >= total_function_execution_limit:", "if self._execution_count == total_function_execution_limit:", 'C15.c'),
    V('C15', 'B', 'default stored after the call', 'jedi/inference/cache.py', "                if default is not _NO_DEFAULT:\n                    memo[key] = default\n                rv = function(obj, *args, **kwargs)", "                rv = function(obj, *args, **kwargs)\n                if default is not _NO_DEFAULT:\n                    memo[key] = default", 'C15.d'),
    V('C15', 'B', 'limit constant zero', REC, "per_function_recursion_limit = 2", "per_function_recursion_limit = 0", 'C15.c'),
    V('C15', 'B', 'setrecursionlimit removed', API, "sys.setrecursionlimit(3000)", "pass", 'C15.e'),
    V('C15', 'S', 'larger inference cap', STX, "            maximum = 300\n", "            maximum = 400\n"),
    V('C15', 'S', 'larger recursion limit', API, "sys.setrecursionlimit(3000)", "sys.setrecursionlimit(5000)"),
    # ------------------------------------------------------------------ C16
    V('C16', 'B', 'infer returns unsorted', API, "        return helpers.sorted_definitions(set(defs))\n\n    @validate_line_column\n    def goto(", "        return list(set(defs))\n\n    @validate_line_column\n    def goto(", 'C16.a'),
    V('C16', 'B', 'reset removed from infer', API, "        self._inference_state.reset_recursion_limitations()\n        pos = line, column\n        leaf = self._module_node.get_name_of_position(pos)", "        pos = line, column\n        leaf = self._module_node.get_name_of_position(pos)", 'C16.b'),
    V('C16', 'B', 'predefine_names without finally', CTX, "        try:\n            yield\n        finally:\n            if previous is None:\n                del predefined[flow_scope]\n            else:\n                predefined[flow_scope] = previous", "        yield\n        if previous is None:\n            del predefined[flow_scope]\n        else:\n            predefined[flow_scope] = previous", 'C16.c'),
    V('C16', 'B', 'sorted_definitions keyed on id', HLP, "                                       x.name))", "                                       id(x)))", 'C16.d'),
    V('C16', 'B', 'new temporary switch without restore', REF, "def _find_names(module_context, tree_name):\n", "def _quick_names(module_context, tree_name):\n    module_context.inference_state.flow_analysis_enabled = False\n    return _find_names(module_context, tree_name)\n\n\ndef _find_names(module_context, tree_name):\n", 'C16.c'),
    V('C16', 'S', 'equivalent sort through list.sort', API, "        return helpers.sorted_definitions(set(defs))\n\n    @validate_line_column\n    def goto(", "        result = helpers.sorted_definitions(set(defs))\n        return result\n\n    @validate_line_column\n    def goto("),
    # ------------------------------------------------------------------ C17
    V('C17', 'B', 'token position shifted', 'jedi/inference/names.py', "        return self.tree_name.start_pos\n", "        line, column = self.tree_name.start_pos\n        return line, column + 1\n", 'C17.a'),
    V('C17', 'B', 'line from the script lines', CLS, "        lines = self._name.get_root_context().code_lines", "        lines = self._inference_state.script_code_lines if hasattr(self._inference_state, 'script_code_lines') else self._name.get_root_context().code_lines", 'C17.c'),
    V('C17', 'B', 'definition/reference predicate wrong', HLP, "return definitions and is_def or references and not is_def", "return definitions or references and not is_def", 'C17.d'),
    V('C17', 'B', 'only one spelling enumerated', HLP, "names = list(chain.from_iterable(module.get_used_names().values()))", "names = list(chain.from_iterable(list(module.get_used_names().values())[:1]))", 'C17.d'),
    V('C17', 'S', 'predicate with explicit parentheses', HLP, "return definitions and is_def or references and not is_def", "return (definitions and is_def) or (references and not is_def)"),
    V('C17', 'S', 'predicate as conditional', HLP, "return definitions and is_def or references and not is_def", "return (references and not is_def) or (is_def and definitions)"),
    # ------------------------------------------------------------------ C18
    V('C18', 'B', 'parent via parent_context', CLS, "            cls_or_func_node = self._name.tree_name.get_definition()\n            parent = cls_or_func_node.search_ancestor('funcdef', 'classdef', 'file_input')", "            cls_or_func_node = self._name.tree_name.get_definition()\n            parent = cls_or_func_node.search_ancestor('funcdef', 'file_input')", 'C18.b'),
    V('C18', 'B', 'class-level name drops the parent part', 'jedi/inference/value/function.py', "            return n + (self.py__name__(),)\n        elif self.parent_context.is_module():", "            return (self.py__name__(),)\n        elif self.parent_context.is_module():", 'C18.c'),
    V('C18', 'B', 'header compared with the last child', CTX, "            colon = scope_node.children[scope_node.children.index(':')]", "            colon = scope_node.children[-1]", 'C18.a'),
    # ------------------------------------------------------------------ C19
    V('C19', 'B', 'pruning by rebinding', REF, "        folder_ios[:] = [\n", "        folder_ios = [\n", 'C19.b'),
    V('C19', 'B', 'ignored base names not consulted', REF, "            and folder_io.get_base_name() not in _IGNORE_FOLDERS\n", "", 'C19.b'),
    V('C19', 'B', 'venv removed from the table', REF, "_IGNORE_FOLDERS = ('.tox', '.venv', '.mypy_cache', 'venv', '__pycache__')", "_IGNORE_FOLDERS = ('.tox', '.venv', '.mypy_cache', '__pycache__')", 'C19.a'),
    V('C19', 'B', 'regex not escaped', REF, "re.compile(r'\\b' + re.escape(name) + (r'' if complete else r'\\b'))", "re.compile(r'\\b' + name + (r'' if complete else r'\\b'))", 'C19.c'),
    V('C19', 'B', 'duplicates wrapper removed', PRJ, "    @_try_to_skip_duplicates\n    def _search_func(", "    def _search_func(", 'C19.d'),
    V('C19', 'B', 'files compared as Path again', REF, "                if path not in except_paths \\\n                        and str(path) not in except_paths \\\n                        and str(path) not in except_paths_relative_expanded:", "                if path not in except_paths:", 'C19.e'),
    V('C19', 'S', 'one more ignored folder', REF, "_IGNORE_FOLDERS = ('.tox', '.venv', '.mypy_cache', 'venv', '__pycache__')", "_IGNORE_FOLDERS = ('.tox', '.venv', '.mypy_cache', 'venv', '__pycache__', 'node_modules')"),
    # ------------------------------------------------------------------ C20
    V('C20', 'B', 'new setting that load cannot accept', PRJ, "        self._django = False\n", "        self._django = False\n        self._cache_dir = None\n", 'C20.a'),
    V('C20', 'B', 'version written 2 accepted 1', PRJ, "_SERIALIZER_VERSION = 1", "_SERIALIZER_VERSION = 2", 'C20.a'),
    V('C20', 'B', 'path saved as Path', PRJ, "        data['path'] = str(data['path'])\n", "", 'C20.b'),
    V('C20', 'B', 'duplicates not removed', PRJ, "        return list(_remove_duplicates_from_path(path))", "        return path", 'C20.c'),
    V('C20', 'B', 'project dir prepended unconditionally', PRJ, "        if self._smart_sys_path:\n            prefixed.append(str(self._path))\n", "        prefixed.append(str(self._path))\n        if self._smart_sys_path:\n", 'C20.c'),
    V2('C20', 'B', 'importer reads the host sys.path', IMP, [("import os\nfrom pathlib import Path\n", "import os\nimport sys\nfrom pathlib import Path\n"),
       ("            self._inference_state.get_sys_path(add_init_paths=not is_completion)\n            + [", "            list(sys.path)\n            + [")], 'C20.d'),
    V('C20', 'S', 'dedup written as a loop building a list', PRJ, "def _remove_duplicates_from_path(path):\n    used = set()\n    for p in path:\n        if p in used:\n            continue\n        used.add(p)\n        yield p", "def _remove_duplicates_from_path(path):\n    seen = set()\n    for entry in path:\n        if entry in seen:\n            continue\n        seen.add(entry)\n        yield entry"),
    # ------------------------------------------------------------------ C06
    V('C06', 'B', 'factor removed from EXPRESSION_PARTS', RFA, "'expr xor_expr and_expr shift_expr arith_expr term factor power atom_expr'", "'expr xor_expr and_expr shift_expr arith_expr term power atom_expr'", 'C06'),
    V('C06', 'B', 'ternary parent not parenthesised', RFA, "    'test star_expr comp_for sync_comp_for comp_if dictorsetmaker'.split()", "    'star_expr comp_for sync_comp_for comp_if dictorsetmaker'.split()", 'C06.a'),
    V('C06', 'B', 'lambdef missing from a grammar still extractable', 'jedi/api/refactoring/extract.py', "    ('atom testlist_star_expr testlist test lambdef lambdef_nocond '", "    ('atom testlist_star_expr testlist test lambdef lambdef_nocond walrus_expr '", 'C06.b'),
    V('C06', 'S', 'table written as a tuple literal', RFA, "    'test star_expr comp_for sync_comp_for comp_if dictorsetmaker'.split()", "    ['test', 'star_expr', 'comp_for', 'sync_comp_for', 'comp_if', 'dictorsetmaker']"),
    # ------------------------------------------------------------------ local renames (silent twins)
    R('C01', 'rename line_len in the wrapper', HLP, 'validate_line_column', 'line_len', 'length'),
    R('C01', 'rename line_string in the wrapper', HLP, 'validate_line_column', 'line_string', 'text'),
    R('C03', 'rename loop variable in _check_flows', 'jedi/inference/filters.py', 'ParserTreeFilter._check_flows', 'check', 'status'),
    R('C03', 'rename names in filter_name', 'jedi/inference/finder.py', 'filter_name', 'names', 'found'),
    R('C03', 'rename b in get_global_filters', CTX, 'get_global_filters', 'b', 'builtins_filter'),
    R('C03', 'rename colon in create_context', CTX, 'TreeContextMixin.create_context', 'colon', 'header_end'),
    R('C04', 'rename new in filter_names', CMP, 'filter_names', 'new', 'completion'),
    R('C04', 'rename k in filter_names', CMP, 'filter_names', 'k', 'key'),
    R('C04', 'rename comp_dct in filter_names', CMP, 'filter_names', 'comp_dct', 'seen'),
    R('C04', 'rename string in filter_names', CMP, 'filter_names', 'string', 'candidate'),
    R('C05', 'rename fmap in rename', RFA, 'rename', 'fmap', 'file_map'),
    R('C05', 'rename d in rename', RFA, 'rename', 'd', 'definition'),
    R('C05', 'rename new in find_references', REF, 'find_references', 'new', 'candidate_map'),
    R('C07', 'rename new_lines in get_diff', RFA, 'ChangedFile.get_diff', 'new_lines', 'after'),
    R('C07', 'rename f in ChangedFile.apply', RFA, 'ChangedFile.apply', 'f', 'fh'),
    R('C08', 'rename for_module in the parent scope cache', 'jedi/parser_utils.py', '_get_parent_scope_cache', 'for_module', 'per_module'),
    R('C08', 'rename dct in signature_time_cache', 'jedi/cache.py', 'signature_time_cache', 'dct', 'entries'),
    R('C10', 'rename paths in import_module', IMP, 'import_module', 'paths', 'search_paths'),
    R('C10', 'rename spec in _find_module', FUN, '_find_module', 'spec', 'found_spec'),
    R('C11', 'rename is_positional in to_string', 'jedi/inference/signature.py', '_SignatureMixin.to_string', 'is_positional', 'in_posonly_run'),
    R('C11', 'rename params in TreeSignature.get_param_names', 'jedi/inference/signature.py', 'TreeSignature.get_param_names', 'params', 'names'),
    R('C12', 'rename temp in get_module_info', FUN, 'get_module_info', 'temp', 'saved_path'),
    R('C12', 'rename dotted_name local in _load_builtin_module', IMP, '_load_builtin_module', 'dotted_name', 'full_name'),
    R('C13', 'rename attr in is_allowed_getattr', ACC, 'DirectObjectAccess.is_allowed_getattr', 'attr', 'static_attr'),
    R('C13', 'rename has_attribute in _get', VAL, 'CompiledValueFilter._get', 'has_attribute', 'exists'),
    R('C14', 'rename reply fields in _send', SUB, 'CompiledSubprocess._send', 'is_exception', 'failed'),
    R('C14', 'rename stderr in _send', SUB, 'CompiledSubprocess._send', 'stderr', 'err_text'),
    R('C15', 'rename module_context in push_execution', REC, 'ExecutionRecursionDetector.push_execution', 'module_context', 'root'),
    R('C15', 'rename memo in _memoize_default', 'jedi/inference/cache.py', '_memoize_default', 'memo', 'table'),
    R('C16', 'rename definitions in get_references', API, 'Script.get_references', 'definitions', 'found'),
    R('C17', 'rename index in get_line_code', CLS, 'BaseName.get_line_code', 'index', 'idx'),
    R('C17', 'rename start_pos local in BaseName.line', CLS, 'BaseName.line', 'start_pos', 'pos'),
    R('C18', 'rename cls_or_func_node in parent', CLS, 'BaseName.parent', 'cls_or_func_node', 'node'),
    R('C18', 'rename names in full_name', CLS, 'BaseName.full_name', 'names', 'parts'),
    R('C19', 'rename path in the file walk', REF, 'recurse_find_python_folders_and_files', 'path', 'file_path'),
    R('C19', 'rename p in gitignored_paths', REF, 'gitignored_paths', 'p', 'pattern'),
    R('C20', 'rename suffixed in _get_sys_path', PRJ, 'Project._get_sys_path', 'suffixed', 'tail'),
    R('C20', 'rename data in save', PRJ, 'Project.save', 'data', 'payload'),
    # ------------------------------------------------------------------ rules added after the wave 3 blind evaluation
    V('C03', 'B', 'lone candidate skips the flow check', FIL, "        names = [n for n in names if self._is_name_reachable(n)]\n        return list(self._check_flows(names))",
      "        names = [n for n in names if self._is_name_reachable(n)]\n        if len(names) == 1:\n            return names\n        return list(self._check_flows(names))", 'C03.d'),
    V('C03', 'S', 'flow check result through a local', FIL, "        return list(self._check_flows(names))", "        checked = list(self._check_flows(names))\n        return checked"),
    V('C04', 'B', 'mro enumeration stops at the first known class', KLS, "                        if cls_new not in mro:\n                            mro.append(cls_new)\n                            yield cls_new",
      "                        if cls_new in mro:\n                            break\n                        mro.append(cls_new)\n                        yield cls_new", 'C04.h'),
    V('C04', 'S', 'mro membership test as continue', KLS, "                        if cls_new not in mro:\n                            mro.append(cls_new)\n                            yield cls_new",
      "                        if cls_new in mro:\n                            continue\n                        mro.append(cls_new)\n                        yield cls_new"),
    V('C04', 'B', 'star imports one level only', MOD, "                        modules += module.star_imports()\n", "                        pass\n", 'C04.h'),
    R('C04', 'rename module in star_imports', MOD, 'ModuleMixin.star_imports', 'module', 'imported'),
    V('C05', 'B', 'byte prefilter before decoding', REF, "    code = python_bytes_to_unicode(code, errors='replace')\n",
      "    if isinstance(code, bytes) and b'def' not in code:\n        return None\n    code = python_bytes_to_unicode(code, errors='replace')\n", 'C05.e'),
    V('C19', 'B', 'byte prefilter before decoding', REF, "    code = python_bytes_to_unicode(code, errors='replace')\n",
      "    if isinstance(code, bytes) and b'def' not in code:\n        return None\n    code = python_bytes_to_unicode(code, errors='replace')\n", 'C19.c'),
    V('C19', 'S', 'regex miss spelled `is None`', REF, "    if not regex.search(code):\n        return None", "    if regex.search(code) is None:\n        return None"),
    P('C07', 'S', 'until position helper that checks before indexing', 'c07_until_pos_helper_checked.diff'),
    V('C13', 'B', 'instance dict asked through its bound get', GST, "    return dict.get(instance_dict, attr, _sentinel)", "    return instance_dict.get(attr, _sentinel)", 'C13.f'),
    V('C13', 'B', 'instance dict membership test', GST, "    return dict.get(instance_dict, attr, _sentinel)", "    if attr in instance_dict:\n        return dict.get(instance_dict, attr, _sentinel)\n    return _sentinel", 'C13.f'),
    V('C13', 'S', 'instance dict result through a local', GST, "    return dict.get(instance_dict, attr, _sentinel)", "    found = dict.get(instance_dict, attr, _sentinel)\n    return found"),
    V('C13', 'B', 'array type by ABC', ACC, "        if isinstance(self._obj, dict):\n            return 'dict'", "        if hasattr(self._obj, 'keys'):\n            return 'dict'", 'C13.g'),
    V('C13', 'S', 'array type by exact type', ACC, "        if isinstance(self._obj, dict):\n            return 'dict'", "        if type(self._obj) is dict:\n            return 'dict'"),
    V('C14', 'B', 'strict decode of the dead helper\'s stderr', SUB, "stderr.read().decode('utf-8', 'replace')", "stderr.read().decode('utf-8')", 'C14.b'),
    V('C14', 'S', 'errors= keyword for the stderr decode', SUB, "stderr.read().decode('utf-8', 'replace')", "stderr.read().decode('utf-8', errors='replace')"),
    V('C14', 'B', 'listener ships KeyboardInterrupt to the host', SUB, "            except Exception as e:\n                result = True,", "            except (Exception, KeyboardInterrupt) as e:\n                result = True,", 'C14.f'),
    P('C16', 'S', 'detectors reset in place, every field', 'c16_reset_in_place_complete.diff'),
    V('C16', 'B', 'search path additions de-duplicated through a set', SYS, "    return added\n", "    return list(set(added))\n", 'C16.e'),
    V('C16', 'S', 'search path additions de-duplicated and sorted', SYS, "    return added\n", "    return sorted(set(added))\n"),
    V('C16', 'B', 'set iteration appended to a result', API, "        defs = [classes.Name(self._inference_state, d) for d in set(names)]\n        # Avoid duplicates\n        return helpers.sorted_definitions(set(defs))",
      "        defs = [classes.Name(self._inference_state, d) for d in set(names)]\n        return defs", 'C16.e'),
    V('C18', 'B', 'self-name context stops at the method', INS, "        return context.create_context(node)", "        return context", 'C18.e'),
    V('C18', 'S', 'self-name context through a local', INS, "        return context.create_context(node)", "        inner = context.create_context(node)\n        return inner"),
    V('C20', 'B', 'package directories skipped before the config is tried', PRJ, "    for dir in chain([check], check.parents):\n        try:",
      "    for dir in chain([check], check.parents):\n        if dir.name == '__pycache__':\n            continue\n        try:", 'C20.e'),
    V('C20', 'S', 'loaded project returned through a local', PRJ, "            return Project.load(dir)\n        except (FileNotFoundError", "            loaded = Project.load(dir)\n            return loaded\n        except (FileNotFoundError"),
    V('C04', 'B', 'dict keys not de-duplicated', 'jedi/api/strings.py', "sorted(set(_get_python_keys(dicts)), key=lambda x: repr(x))", "sorted(_get_python_keys(dicts), key=lambda x: repr(x))", 'C04.i'),
    V('C04', 'S', 'dict keys de-duplicated through a local', 'jedi/api/strings.py', "    for dict_key in sorted(set(_get_python_keys(dicts)), key=lambda x: repr(x)):", "    keys = set(_get_python_keys(dicts))\n    for dict_key in sorted(keys, key=lambda x: repr(x)):"),
    V('C01', 'B', 'named-param goto entered for everything but classdef', 'jedi/inference/names.py', "            if trailer.type in ('trailer', 'decorator'):", "            if trailer.type != 'classdef':", 'C01.j'),
    V('C01', 'S', 'named-param goto: two equality tests', 'jedi/inference/names.py', "            if trailer.type in ('trailer', 'decorator'):", "            if trailer.type == 'trailer' or trailer.type == 'decorator':"),
    V('C01', 'B', 'left operand of a string addition taken untested', 'jedi/api/file_name.py', "                if child_node.type in ('operator', 'keyword'):", "                if child_node.type in ('keyword',):", 'C01.j'),
    V('C01', 'S', 'left operand test spelled as two comparisons', 'jedi/api/file_name.py', "                if child_node.type in ('operator', 'keyword'):", "                if child_node.type in ('operator', 'keyword', 'error_leaf'):"),
    V('C07', 'B', 'renames applied by string prefix', RFA, "                if p == from_ or from_ in p.parents:\n                    p = to / p.relative_to(from_)\n            return p",
      "                if str(p).startswith(str(from_)):\n                    p = Path(str(to) + str(p)[len(str(from_)):])\n            return p", 'C07.h'),
    V('C07', 'B', 'renamed module file itself not mapped', RFA, "                if p == from_ or from_ in p.parents:", "                if from_ in p.parents:", 'C07.h'),
    V('C07', 'S', 'renames applied with is_relative_to', RFA, "                if p == from_ or from_ in p.parents:", "                if p.is_relative_to(from_):"),
    V('C19', 'B', 'gitignore folders compared as string prefixes', REF, "        if curr_path == p[0] or curr_path.startswith(os.path.join(p[0], ''))", "        if curr_path.startswith(p[0])", 'C19.f'),
    V('C19', 'S', 'gitignore folders compared with + os.sep', REF, "        if curr_path == p[0] or curr_path.startswith(os.path.join(p[0], ''))", "        if curr_path == p[0] or curr_path.startswith(p[0] + os.path.sep)"),
    V('C10', 'B', 'dotted name from a string prefix', SYS, "                elif rest and not p.endswith((os.path.sep, '/')):\n", "                elif rest and False:\n", 'C10.f'),
    V('C10', 'S', 'separator test of the dotted-name remainder restructured', SYS, "                elif rest and not p.endswith((os.path.sep, '/')):\n", "                elif rest and not (p.endswith(os.path.sep) or p.endswith('/')):\n"),
    V('C01', 'B', 'callable of a forwarding call taken as first child of the parent', 'jedi/inference/star_args.py',
      "    return infer_call_of_leaf(context, trailer.children[0], cut_own_trailer=True)", "    return context.infer_node(trailer.parent.children[0])", 'C01.j'),
    # ------------------------------------------------------------------ rules written for the defects the triage agents confirmed
    V('C13', 'B', 'metaclass data descriptor not asked first', GST, "    if obj is klass:\n        # For types the metaclass is what the class is for instances: A\n", "    if False:\n        # For types the metaclass is what the class is for instances: A\n", 'C13.d'),
    V('C13', 'B', 'classmethod judged without unwrapping', ACC, "                attr = attr.__func__\n", "                pass\n", 'C13.d'),
    V('C13', 'B', 'truth value asked of any type', ACC, "        if safe and type(self._obj) not in ALLOWED_BOOL_TYPES:", "        if safe and isinstance(self._obj, type):", 'C13.a'),
    V('C13', 'S', 'truth value: the safe test nested', ACC, "        if safe and type(self._obj) not in ALLOWED_BOOL_TYPES:\n", "        if safe:\n          if type(self._obj) not in ALLOWED_BOOL_TYPES:\n"),
    V('C13', 'B', 'a user type in the truth-value table', ACC, "tuple, dict, set, frozenset, range, type(None))", "tuple, dict, set, frozenset, range, type(None), object)", 'C13.d'),
    V('C13', 'B', 'has_iter calls iter() again', ACC, "        return attr is not None\n\n    def is_allowed_getattr", "        iter(self._obj)\n        return attr is not None\n\n    def is_allowed_getattr", 'C13.a'),
    V('C13', 'B', 'dict values through the bound method', ACC, "for v in dict.values(self._obj)]", "for v in self._obj.values()]", 'C13.g'),
    V('C13', 'B', 'dir() of the object uncontained', ACC, "        try:\n            names = dir(self._obj)\n        except Exception:\n            # A custom __dir__ can raise anything, completions should not crash.\n            return []\n",
      "        names = dir(self._obj)\n", 'C13.h'),
    V('C13', 'S', 'dir() contained by a wider handler', ACC, "            names = dir(self._obj)\n        except Exception:", "            names = dir(self._obj)\n        except BaseException:"),
    V('C08', 'B', 'cache node kept without the identity test', 'jedi/inference/filters.py', "                if self._parso_cache_node.node is not module_context.tree_node:", "                if False:", 'C08.f'),
    V('C08', 'B', 'missing cache item not tolerated', 'jedi/inference/filters.py', "            except KeyError:\n                # Not every module with a path is cached by parso", "            except ZeroDivisionError:\n                # Not every module with a path is cached by parso", 'C08.f'),
    V('C19', 'B', 'sys.path entry compared with the Path of the project', PRJ, "            if complete or p != str(self._path)", "            if complete or p != self._path", 'C19.g'),
    V('C20', 'B', 'sys.path entry compared with the Path of the project', PRJ, "            if complete or p != str(self._path)", "            if complete or p != self._path", 'C20.f'),
    V('C20', 'S', 'project path converted once', PRJ, "        sys_path = [\n            p for p in self._get_sys_path(inference_state)", "        own = str(self._path)\n        sys_path = [\n            p for p in self._get_sys_path(inference_state)"),
    V('C01', 'B', 'dotted name of a stub used without a None test', IMP, "            python_file_io = folder_io.get_file_io(path.stem + '.py')", "            python_file_io = folder_io.get_file_io(import_names[-1] + '.py')", 'C01.k'),
    V('C03', 'B', 'header rule not applied to lambdas in create_context', CTX, "        if scope_node.type in ('funcdef', 'lambdef', 'classdef'):\n            colon", "        if scope_node.type in ('funcdef', 'classdef'):\n            colon", 'C03.g'),
    V('C03', 'B', 'iterable of a comprehension taken as the last child', CTX, "                iterable = scope_node.children[scope_node.children.index('in') + 1]", "                iterable = scope_node.children[-1]", 'C03.i'),
    V('C01', 'B', 'yield ancestors searched without lambdef', 'jedi/inference/value/function.py', "search_ancestor('for_stmt', 'funcdef', 'lambdef',", "search_ancestor('for_stmt', 'funcdef',", 'C01.g'),
    V('C01', 'B', 'extract indices bound only inside the loops', 'jedi/api/refactoring/extract.py', "        start_index = 0\n        end_index = len(nodes) - 1\n", "", 'C01.l'),
    V('C01', 'S', 'extract indices initialised in one statement', 'jedi/api/refactoring/extract.py', "        start_index = 0\n        end_index = len(nodes) - 1\n", "        start_index, end_index = 0, len(nodes) - 1\n"),
]
