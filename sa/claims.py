"""Which properties are claimed, at what level, by what technique (feeds MANIFEST.json)."""

CLAIMS = {
    'C14': {
        'level': 'Static protocol check of the helper-process code: every pipe operation of _send is covered by handlers for the '
                 'peer-death exceptions that mark the helper crashed and raise InternalError; sticky flag, reaping, finalizer, '
                 'replacement on next use, wire-format agreement of both ends and release of helper-side state are decided on all '
                 'paths of the functions involved. The property is a typestate/protocol property, so path rules over the CFG are the '
                 'natural level; liveness (a silent helper) is not decided.',
        'technique': 'CFG must-pass / gate / handler-coverage rules + who-may-read/write + tuple-shape agreement (ast)',
    },
    'C01': {
        'level': 'Necessary structural conditions of the five mechanisms the property names: every position-taking public Script method is '
                 'wrapped by (or purely forwards to) validate_line_column; the wrapper raises only ValueError and its two range tests are '
                 'exact and dominate the line lookup and the wrapped call; error recovery and the OnErrorLeaf containment are wired; '
                 'None-discipline for names without tree position in api/classes.py and for parso navigator results in jedi/api/**; '
                 'grammar-derived exhaustiveness of the definition/scope/operator dispatch tables; containment of internal control-flow '
                 'exceptions; and package-wide contradiction rules for the crash classes the property lists: None results of parso '
                 'navigators AND of the package\'s own functions, possibly-unbound locals (UnboundLocalError), constant indices into '
                 'possibly empty slices (IndexError), sibling arithmetic / positional children / bracket content handed to the inference '
                 'entry points without positive type knowledge (AssertionError), interface completeness of the parameter-name and '
                 'execution-context families (AttributeError/NotImplementedError), and an inventory of tree-shape assertions. '
                 'Twenty genuine crashes were found this way and repaired. Totality over all inputs is not decided.',
        'technique': 'decorator/forwarding census + CFG gate rules + None / unbound-local / empty-index / type-knowledge contradiction rules '
                     '(per-function CFG with correlated tests, taint through locals and calls) + grammar-vs-table agreement + class-family interface check (ast)',
    },
    'C15': {
        'level': 'Each give-up mechanism named by the property is checked where the recursion enters and on all exits: table of entry points '
                 'and their guard (decorators, memo-with-default, execution_allowed keyed on the bare syntax node), PAIR rules for every '
                 'push/pop and counter, limits are positive constants compared with >/>= on a path that answers "limit reached", the only '
                 'exemptions are builtins/typing, defaults and sentinels are stored before computing, the interpreter limit is raised at '
                 'import for the whole process, and every directly recursive function is triaged (graph recursions must carry a growing '
                 'seen-set). Two genuine unbounded recursions on import cycles were repaired. The polynomial bound is not decided.',
        'technique': 'guard/decorator table + CFG pair/must/gate rules + recursion inventory (ast)',
    },
    'C16': {
        'level': 'Order: an inter-procedural may-analysis types expressions as ValueSet (identity-hashed) / set and marks sequences built by '
                 'iterating them without a sort; every listed query method\'s return value and every first-wins de-duplication in jedi/api is '
                 'checked against it. Reset: each query method resets the recursion bookkeeping before any inference (or delegates first to '
                 'one that does). Switches: every temporary write to an InferenceState switch, predefined_names or the global settings module '
                 'is PAIRed with its restore on all exits of the CFG; the per-query reset gives both detectors and every growing counter a clean '
                 'slate; no set built in place leaves a function as an unsorted sequence. The definition sort key is total. Equality of result sets across '
                 'processes is not decided. Seven genuine order dependences are recorded as known findings, three were repaired.',
        'technique': 'ValueSet typing fixpoint + order-taint at API boundary + CFG must/pair rules (ast)',
    },
    'C03': {
        'level': 'The order of consultation that LEGB is: the filter chain of get_global_filters walks outward by parent_context only and ends '
                 'with builtins; the position limit is dropped exactly when leaving function/module scopes and after that scope\'s filters '
                 'were produced; filter_name stops at the innermost non-empty answer; per-scope filters keep only own-scope names before '
                 'the position, latest reachable first; methods get a parent context climbed past classes; global statements are merged '
                 'into both module filter producers; the two header-rule implementations agree on comparison, exemption AND the set of scope kinds; '
                 'no negative child index selects a role on a node whose production ends in an optional group (grammar-derived). Two genuine '
                 'scoping defects (lambda defaults, comprehension if-clauses) were repaired. Which binding Python uses at run time is not decided.',
        'technique': 'CFG order/gate/must rules + sibling-implementation agreement + grammar-production analysis (ast, pgen grammar reader)',
    },
    'C04': {
        'level': 'The algebra between fragment, name, complete, prefix length, uniqueness and order, which lives in a few small functions: '
                 'CFG gate rules show the yield of a completion is control-dependent on match() and on the (name, complete) de-duplication, '
                 'def-use rules tie the reported prefix length to the very string matched, complete is None exactly when fuzzy and equals '
                 'name_with_symbols minus the prefix, the sort key equals the documented one, match() is startswith/subsequence, every '
                 'attribute source loop and every enumerator it draws from (MRO, star imports, filters) is exhaustive, and every producer of '
                 'Completion objects is duplicate-free by construction or by a seen-set. Completeness against live objects is not decided.',
        'technique': 'CFG gate rules + def-use shape rules + sort-key table comparison (ast)',
    },
    'C05': {
        'level': 'Rename as a pure function of the reported references: def-use and loop-shape rules on Script.rename and refactoring.rename '
                 '(every element consumed by one of three branches, token text = own prefix + new name), PAIR on the flow-analysis switch with '
                 'the whole defining-name closure inside the switched-off window, and key consistency of the late-merge table in '
                 'find_references. Behaviour preservation and the partition property are not decided.',
        'technique': 'def-use/shape rules + CFG pair/must rules + table-key agreement (ast)',
    },
    'C06': {
        'level': 'One table clause whose gaps are, deterministically, wrong or invalid output: from parso\'s grammar the checker derives every '
                 'nonterminal in which a name can be an operand tighter than a general expression and requires inline() to parenthesise '
                 'there (or the position to hold only assignment targets), with the parent-type test an unweakened disjunct of the wrapping '
                 'condition; plus grammar existence of every extractable type and the wrapper-climbing loop of the insertion point. Five '
                 'genuine gaps were found this way and repaired. Equivalence of refactored programs is not decided.',
        'technique': 'grammar-vs-table agreement (pgen grammar reader) + condition-shape check (ast)',
    },
    'C07': {
        'level': 'Single source of truth (the only call of the tree refactorer is get_new_code; diff and apply read it), a whole-package '
                 'inventory of file-system mutators against the triaged apply()/save() sites, the write discipline of ChangedFile.apply '
                 '(original path, newline=\'\', refusal without path), writes-before-renames order in Refactoring.apply, the exception '
                 'contract of the refactoring modules (every raise is RefactoringError; asserts triaged), range validation of every index into '
                 'the code lines in any method of Script, None discipline for the optional range end, and component-wise (not '
                 'string-prefix) mapping of changed paths through the announced renames. Byte-level preservation by parso/difflib is not decided.',
        'technique': 'who-may-write inventory over resolved call sites + def-use/shape checks + CFG order/gate rules (ast)',
    },
    'C08': {
        'level': 'Inventory of every process-lifetime mutable store of the package (module/class containers mutated by function code, closures '
                 'of import-time factories, global rebinding, functools caches, cross-module attribute writes, mutated default arguments) '
                 'against a triaged table, plus the invalidation wired to each: time caches purged at Script construction and served only '
                 'before expiry, tree-derived caches weak-keyed on the parso cache node and bypassed for path-less buffers, all inference '
                 'memoisation stored on the per-Script InferenceState, buffer parsed with cache=False, and the parso cache item kept for the '
                 'definition-name memo is tolerated missing and checked to hold the analysed tree. Equality with a fresh process is not decided.',
        'technique': 'store inventory (who-may-write) + CFG must/gate rules + decorator-storage classification (ast)',
    },
    'C17': {
        'level': 'Jedi\'s side of position fidelity: a census of every start_pos definition in the name-class hierarchy (parso token / (1, 0) / '
                 'None / two listed exceptions), line and column are its components, definition ranges come from the defining node with '
                 'exactly the documented special case, get_line_code indexes the name\'s own module lines under a None test, and the '
                 'definition/reference predicate of get_names is decided by its full truth table. parso\'s token positions are trusted.',
        'technique': 'class-hierarchy census + def-use shape rules + truth-table evaluation of a boolean AST (ast)',
    },
    'C18': {
        'level': 'Header rule of Script.get_context and its sibling implementations (shared with C03.g), tree-climbing parent() over the full '
                 'funcdef/classdef/file_input set with a loop over name-less contexts, the case table of qualified-name assembly and that the '
                 'stdlib pretty-name mapping touches only the first component of full_name. The position-to-scope mapping over all files is not decided.',
        'technique': 'sibling agreement + def-use/shape rules + None-dereference rule (ast)',
    },
    'C19': {
        'level': 'Pruning and pre-filter, where a small edit silently leaks or loses files: the ignore table, slice-assignment pruning with '
                 'all three exclusions before sub-folders are yielded, propagation into os.walk, files filtered by the same ignore sets in '
                 'matching types and only after the folder\'s .gitignore was read, trailing-slash handling order in gitignored_paths, the '
                 'regex pre-filter on decoded text with no other dismissal in front of it, the three search steps and identity-based '
                 'de-duplication, component-wise path containment for ignore rules, and str/Path type discipline of the test that keeps the '
                 'project folder from being searched twice. Three genuine defects were repaired. Completeness of hits is not decided.',
        'technique': 'table equality + CFG order/must rules + dominating-fact (gate) checks (ast)',
    },
    'C09': {
        'level': 'That jedi adds no staleness on top of parso/importlib: every parse call site is enumerated and classified (disk loaders '
                 'parse with cache=True, a stat-able file handle and the shared cache directory; snippets are uncached), module caches are '
                 'per-InferenceState with no class-level state, the process-lifetime store and time-cache inventories of C08 are re-checked '
                 'for module-name/path keyed memos, and module discovery goes to the helper and the directory listing each time. Races and '
                 'importlib finder caches inside the helper are assumptions.',
        'technique': 'call-site census + store inventory (who-may-write) + decorator/shape checks (ast)',
    },
    'C10': {
        'level': 'The delegation wiring only: the composed search path reaches get_module_info on the global branch and the parent __path__ on '
                 'the sub-module branch, sys.path is swapped and restored around the finder walk, sys.meta_path is consulted in order with '
                 'first-spec-wins, namespace portions are passed as a plain list, the attribute-before-sub-module order holds in both sibling '
                 'implementations, relative levels use py__package__, and a dotted name is derived only from a search path entry that is a parent '
                 'DIRECTORY of the file (separator test after the string prefix). Agreement with importlib over all layouts is not decided.',
        'technique': 'def-use/flow shape rules + CFG order/pair rules + sibling agreement (ast)',
    },
    'C11': {
        'level': 'The structural rules the statement contains: sibling signature classes drop exactly the first parameter exactly when bound; '
                 'the five parameter kinds are derivable and rendered with the "/" (also trailing) and bare "*" markers; bracket_start is '
                 'the matched "(" leaf; docstring composition and cleandoc on every path; the keyword guard of calculate_index is decided as '
                 'a boolean function by its truth table, as is the candidate test for a typed keyword; the dispatch of process_params (which '
                 'parameters of a wrapped callable stay reachable through a pure *args / **kwargs pass-through) is decided cell by cell over '
                 '5 kinds x 3 forwardings by abstract execution of the loop body. Equality with inspect.signature is not decided.',
        'technique': 'sibling agreement + CFG gate rules + truth-table evaluation of guard ASTs + decision-table evaluation of a dispatch loop (ast)',
    },
    'C12': {
        'level': 'Whole-package inventory of code-execution sinks and host-state writers by resolved callee (every call site classified), '
                 'who-may-call on the one real importer chain, gate/flow on the safe-path filter of _load_builtin_module, undotted '
                 'find_spec arguments, and PAIR on the two sys.path swaps. The property is a negative over all code paths, which a '
                 'who-may-call + dominance analysis decides for the mechanism; what the target interpreter and importlib do is assumed.',
        'technique': 'sink inventory over resolved call sites + who-may-call + CFG gate/pair rules (ast)',
    },
    'C13': {
        'level': 'Every operation in compiled/access.py and compiled/mixed.py that runs a listed user protocol on a live object (S1: '
                 'getattr/hasattr with a supplied name; S2: subscript, iteration, call, len, next, truth value) must be dominated by an '
                 'exact-builtin-type gate or the safe switch, in the method or at all call sites; wiring of the switch, content of the two '
                 'allow-tables, getattr_static classification (metaclass data descriptors first, chaining classmethod unwrapped, instance '
                 'dictionary read through dict.get only), bound keys()/values() under exact types only, containment of the dir() hook and '
                 'completeness of dir()-names are checked structurally. Eight genuine ungated routes were repaired; properties named like the '
                 'dunders jedi\'s own introspection reads are a stated assumption.',
        'technique': 'protocol-sink detection on live-object expressions + CFG edge-dominance (gate) rules + table checks (ast)',
    },
    'C20': {
        'level': 'Writer/reader agreement of Project.save()/load() decided as a set equation over the source (attributes assigned on a Project '
                 'minus popped keys == constructor keywords; nothing filtered; same version and file), coercion of every path-like setting to '
                 'JSON-serialisable str on every branch, the ordered composition prefixed + base + suffixed on private copies with a '
                 'first-wins order-preserving de-duplication and path-containment (not string-prefix) boundary of the ancestor walk, and a '
                 'who-may-read inventory of the host\'s sys.path, the order "Project.load before any heuristic" in the default-project walk, and '
                 'package-wide str-vs-Path comparison discipline. Three genuine defects were repaired.',
        'technique': 'writer/reader table agreement + def-use shape rules + CFG reachability + who-may-read inventory (ast)',
    },
}

# rules added after wave 8 (DESIGN.md 6.10)
_ADDED = {
    'C01': ' Optional values of the signature/keyword helpers (the typed key of `**<expr>`, the pydoc topic of True/None) are used only under the test or handler that makes them safe (C01.s); path strings of the analysed text with a NUL character are kept away from the file system calls (C01.t, two genuine crashes repaired).',
    'C04': ' Instance attributes: the self-attribute filter keeps a `<receiver>.x = ...` on the receiver\'s goto result alone (closures nested in methods included; path summary of _is_in_right_scope) and drops candidates only for the six listed reasons (C04.j); the seen-set of filter_names holds only keys of completions that were offered (C04.k, a genuine defect repaired).',
    'C05': ' The keyword of a call argument is linked to the parameter of every signature of every callable the callee may be: the walk over values x signatures x parameter names has no early exit (C05.g); a defining name is passed over by the global-statement step only when it has no tree name (C05.h).',
    'C06': ' The parenthesisation of inline is decided as a table over four facts of the use site and the value\'s tuple-ness (C06.a): nothing else can switch the parentheses off; the use site of a name that ends an attribute chain is the parent of the chain (a genuine defect repaired).',
    'C07': ' White space of the original is carried over as text: no indentation or padding is synthesised from a count, the indentation of a replacement statement is the last line of the first leaf\'s prefix (C07.k); which files move with a renamed directory is a decision table over (is the path / lies below it) (C07.h); inline deletes a token only when its prefix is blank (C07.l).',
    'C09': ' Freshness is judged by the full-resolution modification time: every get_last_modified returns os.path.getmtime/None, parso\'s implementation comes first in the MRO of the file-backed IO classes, no truncation anywhere (C09.e).',
    'C11': ' The collected keyword-only parameters of forwarded callables are emitted through one loop that skips and registers names in used_names (no parameter named twice, C11.f); pass-through detection decides by goto alone and a `name=` argument is the named one as soon as the cursor is behind the `=` (C11.g).',
    'C15': ' Memoising constructors stay memoising where per-object caches bound the work (GenericClass wrappers of base classes, TypeVar, TreeArguments: C15.g); the memo decorator stores every result and removes nothing (C15.h).',
    'C18': ' The dotted name of the analysed file is computed against the search path without the buffer\'s own ancestor directories (C18.g); the per-state memo table is touched by the memo decorators only, parent() keeps no hand-keyed table (C18.h).',
}
for _k, _v in _ADDED.items():
    CLAIMS[_k]['level'] += _v

WIP = 'check not built yet in this session (work in progress; see DESIGN.md section 4 for the planned rules)'
NOT_APPLICABLE = {
    'C02': 'relates an abstract interpreter\'s results to CPython\'s concrete semantics for every program; no clause is decided by the '
           'shape of jedi\'s code (any rule would restate the implementation) — needs execution, which is outside static analysis',
}
for _i in range(1, 21):
    _p = 'C%02d' % _i
    if _p not in CLAIMS and _p not in NOT_APPLICABLE:
        NOT_APPLICABLE[_p] = WIP
