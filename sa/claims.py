"""Which properties are claimed, at what level, by what technique (feeds MANIFEST.json)."""

CLAIMS = {
    'C14': {
        'level': 'Static protocol check of the helper-process code: every pipe operation of _send is covered by handlers for the '
                 'peer-death exceptions that mark the helper crashed and raise InternalError; sticky flag, reaping, finalizer, '
                 'replacement on next use, wire-format agreement of both ends and release of helper-side state are decided on all '
                 'paths of the functions involved. The property is a typestate/protocol property, so path rules over the CFG are the '
                 'natural level; liveness (a silent helper) is not decided.',
        'technique': 'CFG must-pass / gate / handler-coverage rules + who-may-read/write + tuple-shape agreement (ast)',
    },
}

WIP = 'check not built yet in this session (work in progress; see DESIGN.md section 4 for the planned rules)'
NOT_APPLICABLE = {
    'C02': 'relates an abstract interpreter\'s results to CPython\'s concrete semantics for every program; no clause is decided by the '
           'shape of jedi\'s code (any rule would restate the implementation) — needs execution, which is outside static analysis',
}
for _i in range(1, 21):
    _p = 'C%02d' % _i
    if _p not in CLAIMS and _p not in NOT_APPLICABLE:
        NOT_APPLICABLE[_p] = WIP
