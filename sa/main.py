"""Driver: ./check <Cxx> [--tier quick|thorough] [--root DIR] [--rule PREFIX] [--no-write]"""
import argparse
import importlib
import os
import sys
import time
import traceback

from .core import AnchorError, Repo
from .report import Check

PROPS = ['C%02d' % i for i in range(1, 21)]


_REPOS = {}


def run_property(prop, tier, root, rule_filter=None, write=True, quiet=False, selftest=True, share=False):
    """Returns (exit_code, check).  0 ok, 1 violation, 2 analysis error.  share=True (development runs of `all`
    with --share) re-uses one program model for every property; registered commands always build their own."""
    try:
        if share:
            if root not in _REPOS:
                _REPOS[root] = Repo(root)
            repo = _REPOS[root]
        else:
            repo = Repo(root)
        mod = importlib.import_module('sa.rules.%s' % prop.lower())
        chk = Check(prop, tier, repo, root)
        rules = [(n, f) for n, f in mod.RULES if rule_filter is None or n.startswith(rule_filter)]
        if not rules:
            raise AnchorError('no rule matches %r' % rule_filter)
        for name, fn in rules:
            fn(repo, chk)
        if hasattr(mod, 'describe'):
            mod.describe(chk)
        extra = None
        if tier == 'thorough':
            if hasattr(mod, 'thorough'):
                mod.thorough(repo, chk)
            if selftest and rule_filter is None:
                from . import selftest as st
                extra = {'selftest': st.run_for(prop, root, funcs=sorted(chk.analysed_funcs))}
        code, new, listed = chk.finish(seed=int(os.environ.get('VERIF_SEED', '0') or 0), extra=extra,
                                       write=write, quiet=quiet)
        return code, chk
    except AnchorError as e:
        if not quiet:
            print('ANALYSIS-ERROR property=%s %s' % (prop, e))
        return 2, None
    except Exception:
        if not quiet:
            print('ANALYSIS-ERROR property=%s internal error of the checker:' % prop)
            traceback.print_exc(file=sys.stdout)
        return 2, None


def main(argv=None):
    ap = argparse.ArgumentParser()
    ap.add_argument('prop')
    ap.add_argument('--tier', default=os.environ.get('VERIF_TIER') or 'quick', choices=['quick', 'thorough'])
    ap.add_argument('--root', default='/repo')
    ap.add_argument('--rule', default=None)
    ap.add_argument('--no-write', action='store_true')
    ap.add_argument('--no-selftest', action='store_true')
    ap.add_argument('-v', '--verbose', action='store_true')
    ap.add_argument('--share', action='store_true')
    a = ap.parse_args(argv)
    if a.prop == 'all':
        from .claims import CLAIMS
        props = sorted(CLAIMS)
    else:
        props = [a.prop.upper()]
    worst = 0
    for p in props:
        code, chk = run_property(p, a.tier, a.root, a.rule, write=not a.no_write, selftest=not a.no_selftest, share=a.share)
        if a.verbose and chk is not None:
            for o in chk.obs:
                print('  %s %-6s %s — %s%s' % ('ok ' if o.ok else 'BAD', o.rule, o.where, o.what, (' — ' + o.detail) if o.detail and not o.ok else ''))
                if not o.ok:
                    print('      key: %s' % o.key)
        worst = max(worst, code)
    return worst


if __name__ == '__main__':
    sys.exit(main())
