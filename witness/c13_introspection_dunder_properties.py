"""Witness: Interpreter safe mode (settings.allow_unsafe_interpreter_executions = False)
runs property getters whose NAME is one of the special attributes that jedi itself reads
while it inspects a namespace object: __class__, __wrapped__, __name__, __doc__,
__module__, __dict__, __signature__, __text_signature__, __annotations__, ... (on the class)
and __name__, __module__, __doc__, __mro__, __bases__, __dict__, ... (on the metaclass).

That is what lazy proxies look like (django.utils.functional.SimpleLazyObject,
werkzeug.local.LocalProxy, wrapt.ObjectProxy, mocks): their __class__/__doc__/__dict__/...
are properties that force the evaluation of the wrapped object.

The attribute filter of CompiledValueFilter is safe (getattr_static), but jedi's own
introspection reads these attributes with plain attribute access or through the stdlib:
  jedi/inference/compiled/mixed.py  _get_object_to_check: inspect.unwrap() (__wrapped__),
                                    python_object.__class__
                                    _find_syntax_node_name: inspect.getsourcefile()
                                    (__module__ of the class), python_object.__name__
  jedi/inference/compiled/access.py py__name__/_is_class_instance: obj.__class__, cls.__name__
                                    py__doc__: inspect.getdoc() (__doc__, __class__)
                                    get_api_type/is_class/is_module...: inspect.isclass()
                                    -> isinstance() falls back to obj.__class__
                                    get_qualified_names: getattr(obj, '__qualname__'/'__name__')
                                    dir(): object.__dir__ reads __dict__ and __class__
                                    getattr_paths: return_obj.__module__, inspect.getmodule()
                                    _get_signature: inspect.signature() (__signature__,
                                    __wrapped__, __text_signature__, __code__, __defaults__,
                                    __kwdefaults__, __annotations__, __self__, __mro__ ...)
                                    get_return_annotation: obj.__annotations__
                                    py__class__/py__mro__accesses/py__bases__
There is no fix.diff: see the report.
exit 1 = defect present.
"""
import sys

import jedi

calls = []


def special_property(name):
    def fget(self):
        calls.append(name)
        if name == '__class__':
            return type(self)
        if name == '__dict__':
            return {}
        if name in ('__doc__', '__name__', '__module__'):
            return 'x'
        raise AttributeError(name)
    return property(fget)


class LazyProxy:
    for _name in ['__class__', '__wrapped__', '__name__', '__doc__', '__module__', '__dict__',
                  '__signature__', '__text_signature__', '__annotations__', '__code__',
                  '__defaults__', '__kwdefaults__', '__self__', '__func__', '__objclass__',
                  '__file__', '__path__']:
        locals()[_name] = special_property(_name)
    del _name

    def __call__(self, arg):
        pass

    def method(self):
        pass


class Meta(type):
    for _name in ['__name__', '__module__', '__doc__', '__mro__', '__bases__', '__dict__',
                  '__wrapped__', '__signature__', '__text_signature__', '__annotations__']:
        locals()[_name] = property(
            lambda cls, _name=_name: calls.append('metaclass ' + _name)
            or (type.__dict__[_name].__get__(cls) if _name in type.__dict__ else None))
    del _name


class WithMeta(metaclass=Meta):
    attr = 1


namespace = {'proxy': LazyProxy(), 'WithMeta': WithMeta, 'with_meta': WithMeta(),
             'holder': [LazyProxy()]}
fired = {}
old = jedi.settings.allow_unsafe_interpreter_executions
jedi.settings.allow_unsafe_interpreter_executions = False
try:
    for code in ['proxy', 'proxy.', 'proxy.method', 'proxy(', 'x = proxy\nx.', 'holder[0].',
                 'WithMeta', 'WithMeta.', 'WithMeta.attr', 'WithMeta(', 'with_meta',
                 'with_meta.', 'class X(WithMeta): pass\nX.']:
        lines = code.split('\n')
        pos = len(lines), len(lines[-1])
        for method in ['complete', 'infer', 'goto', 'help', 'get_signatures']:
            del calls[:]
            try:
                result = getattr(jedi.Interpreter(code, [namespace]), method)(*pos)
                if method == 'complete':
                    result = [r for r in result if not r.name.startswith('_')][:5]
                for r in result:
                    r.docstring(), r.type, r.full_name, r.description
                    if method != 'get_signatures':
                        r.get_type_hint(), r.get_signatures()
            except Exception as e:
                print('note: Interpreter(%r).%s raises %s: %s'
                      % (code, method, type(e).__name__, e))
            for c in calls:
                fired.setdefault(c, '%s%r on %r' % (method, pos, code))
finally:
    jedi.settings.allow_unsafe_interpreter_executions = old

if fired:
    print('DEFECT PRESENT: property getters executed in safe mode (first query that did it):')
    for name, where in sorted(fired.items()):
        print('  %-28s %s' % (name, where))
    sys.exit(1)
print('ok')
sys.exit(0)
