"""C01 (total on any source text): a NUL character inside a string of the analysed text reached the file system calls unfiltered:
(1) completing a path in `x = "a\\x00b/` -> os.scandir raised ValueError('embedded null byte') (file_name.py caught OSError only);
(2) `sys.path.append('a\\0b')` in the analysed module -> the entry became part of the search path and open() raised ValueError while
looking for a stub.  exit 1 = defect present."""
import os, sys, tempfile, shutil
import jedi
bad = []
try:
    jedi.Script('x = "a\x00b/').complete()
except Exception as e:
    bad.append('complete() in a string with NUL: %s: %s' % (type(e).__name__, e))
d = tempfile.mkdtemp()
try:
    open(os.path.join(d, 'plain.py'), 'w').write('x = 1\n')
    src = "import sys\nsys.path.append('a\\0b')\nimport plain\nplain."
    try:
        jedi.Script(src, path=os.path.join(d, 'm.py')).complete()
    except Exception as e:
        bad.append('sys.path.append of a string with NUL: %s: %s' % (type(e).__name__, e))
finally:
    shutil.rmtree(d, ignore_errors=True)
if bad:
    print('DEFECT: ' + '; '.join(bad)); sys.exit(1)
print('ok: NUL characters in path strings of the analysed text are tolerated')
