"""Witness for C19 (PYTHONPATH=/repo /venv/bin/python witness/c19_gitignored_file.py).
A FILE named in .gitignore is still searched: recurse_find_python_folders_and_files compares file_io.path (a pathlib.Path)
with the ignore set, which holds strings, so the membership test is never true.  Ignored directories work."""
import os, shutil, sys, tempfile
import jedi
d = tempfile.mkdtemp(prefix='jedi-gitignore-')
try:
    open(os.path.join(d, '.gitignore'), 'w').write('generated.py\n/sub/also_generated.py\nignored_dir\n')
    open(os.path.join(d, 'generated.py'), 'w').write('def needle_in_ignored_file(): pass\n')
    os.mkdir(os.path.join(d, 'sub'))
    open(os.path.join(d, 'sub', 'also_generated.py'), 'w').write('def needle_in_ignored_file(): pass\n')
    os.mkdir(os.path.join(d, 'ignored_dir'))
    open(os.path.join(d, 'ignored_dir', 'x.py'), 'w').write('def needle_in_ignored_file(): pass\n')
    open(os.path.join(d, 'kept.py'), 'w').write('def needle_in_ignored_file(): pass\n')
    hits = sorted(os.path.relpath(str(n.module_path), d) for n in jedi.Project(d).search('needle_in_ignored_file'))
    print('hits:', hits)
    leaked = [h for h in hits if h != 'kept.py']
    print('reported from ignored places:', leaked or 'none')
    sys.exit(1 if leaked else 0)
finally:
    shutil.rmtree(d)
