"""C01 witness: goto on the keyword of a named argument inside a call that is not closed yet.
Run: PYTHONPATH=/repo /venv/bin/python witness/c01j_named_argument_in_unclosed_call.py  (exit 1 = defect present)"""
import sys
import jedi

bad = 0
for code, pos in [("def foo(bar): pass\nfoo(bar=1, ", (2, 5)), ("import os\nx = 3\nos.path.join(a=1, ", (3, 13)),
                  ("def foo(bar): pass\n@foo(bar=1, \ndef g(): pass", (2, 6))]:
    for meth in ('goto', 'infer', 'help', 'get_references'):
        try:
            getattr(jedi.Script(code), meth)(*pos)
        except Exception as e:
            print('DEFECT: %s%r on %r raised %s: %s' % (meth, pos, code, type(e).__name__, e))
            bad = 1
sys.exit(bad)
