import os, sys, traceback
if os.environ.get('JEDI_ROOT'):
    sys.path.insert(0, os.environ['JEDI_ROOT'])
try:
    import jedi
except ImportError:
    print('cannot import jedi; run with PYTHONPATH=<jedi checkout>')
    sys.exit(2)


def check(func):
    """exit 1 and print the exception when func raises, exit 0 otherwise"""
    try:
        func()
    except Exception:
        traceback.print_exc()
        print('DEFECT PRESENT')
        sys.exit(1)
    print('ok')
    sys.exit(0)


# An except clause whose colon is still missing: the try statement becomes an
# error node, parso's Name.get_definition() returns the parent of the
# except_clause for `e`, i.e. the error node, and tree_name_to_values does not
# know that type: ValueError: Should not happen. type: error_node
def run():
    source = 'try:\n    pass\nexcept E as e\ne'
    jedi.Script(source).infer(4, 1)
    for name in jedi.Script(source).get_names(all_scopes=True):
        name.infer()
    # Valid Python 3.11, but parso's 3.12 grammar has no `except*`: error node.
    source = 'try:\n    pass\nexcept* ValueError as e:\n    e'
    jedi.Script(source).infer(4, 5)
    source = 'def f():\n    try:\n        pass\n    except E as e\n    return e.'
    jedi.Script(source).complete(5, 13)


check(run)
