"""Witness: Project._search_func compares a str with a pathlib.Path.

    sys_path = [p for p in self._get_sys_path(inference_state)
                # Exclude the current folder which is handled by recursing the folders.
                if p != self._path]

`p` is a str, `self._path` a pathlib.Path, so the condition is always true and the
project folder is searched twice: by the folder recursion (step 1) and as a sys path
entry (step 3).  Duplicates of file modules are removed by _try_to_skip_duplicates
(same module_path), a namespace package (folder without __init__.py) has no module_path
and is reported twice by Project.search(): as "namespace nsp" and as "module nsp".

The second half of the witness guards against the naive correction
(`p != str(self._path)` only): step 1 finds exact names only, so completing a module
name that lives in the project folder (complete_search('ns') -> nsp) works only
because the project folder is part of step 3; a fix must keep that.
exit 1 = defect present.
"""
import os
import sys
import tempfile

import jedi

d = tempfile.mkdtemp(prefix='jedi-w3-')
os.mkdir(os.path.join(d, 'nsp'))
with open(os.path.join(d, 'nsp', 'inner.py'), 'w') as f:
    f.write('x = 1\n')
os.mkdir(os.path.join(d, 'pkg'))
with open(os.path.join(d, 'pkg', '__init__.py'), 'w') as f:
    f.write('y = 1\n')

project = jedi.Project(d)
failures = []

result = list(project.search('nsp'))
if len(result) != 1:
    failures.append("Project.search('nsp') returns the namespace package %d times: %r"
                    % (len(result), [(n.description, n.module_path) for n in result]))
result = list(project.search('pkg'))
if len(result) != 1:
    failures.append("Project.search('pkg') -> %r" % result)
result = list(project.search('nsp.inner'))
if [n.full_name for n in result] != ['nsp.inner']:
    failures.append("Project.search('nsp.inner') -> %r" % result)

# Functionality that must not get lost.
for string, expected in [('ns', 'nsp'), ('pk', 'pkg')]:
    names = [c.name for c in project.complete_search(string)]
    if expected not in names:
        failures.append('REGRESSION: complete_search(%r) does not offer %r anymore: %r'
                        % (string, expected, names))

if failures:
    print('DEFECT PRESENT')
    for f in failures:
        print(f)
    sys.exit(1)
print('ok')
sys.exit(0)
