"""Witness: settings.fast_parser = False breaks every Script that has a path.

With fast_parser disabled the Script's own module is parsed with cache=False and
diff_cache=False, so parso never puts it into parso.cache.parser_cache.
jedi.inference.filters._AbstractUsedNamesFilter nevertheless looks every module that has
a path up in parser_cache:
  (a) path not cached  -> KeyError from jedi.parser_utils.get_parso_cache_node
  (b) path cached from an earlier import of the file on disk -> the foreign cache item is
      used as the key of the definition-name cache and names of the OLD tree are returned
      (wrong/empty inference results).
Run with PYTHONPATH pointing to the jedi checkout.  exit 1 = defect present.
"""
import os
import sys
import tempfile
import traceback

import jedi

failures = []
d = tempfile.mkdtemp(prefix='jedi-w1-')
with open(os.path.join(d, 'm.py'), 'w') as f:
    f.write('disk_name = 1\n')

project = jedi.Project(d)
# Put m.py into parso's cache via an import while the default setting is active.
r = jedi.Script('import m\nm.disk_name', path=os.path.join(d, 'main.py'),
                project=project).infer(2, 3)
if [n.name for n in r] != ['int']:
    print('unexpected precondition result: %r' % r)

jedi.settings.fast_parser = False
try:
    # (a) a path parso has never seen
    try:
        r = jedi.Script('x = 1\nx', path=os.path.join(d, 'new.py'), project=project).infer(2, 0)
        if [n.name for n in r] != ['int']:
            failures.append('(a) wrong result %r' % r)
    except Exception:
        failures.append('(a) fast_parser=False, Script with a path raises:\n'
                        + ''.join(traceback.format_exc().splitlines(True)[-6:]))
    # (b) a path parso has cached with the content on disk; the editor content differs
    try:
        r = jedi.Script("\n\ndisk_name = ''\ndisk_name", path=os.path.join(d, 'm.py'),
                        project=project).infer(4, 0)
        if [n.name for n in r] != ['str']:
            failures.append('(b) fast_parser=False, stale parso cache entry used: '
                            'expected [str], got %r' % r)
    except Exception:
        failures.append('(b) raises:\n' + ''.join(traceback.format_exc().splitlines(True)[-6:]))
finally:
    jedi.settings.fast_parser = True

if failures:
    print('DEFECT PRESENT')
    for f in failures:
        print(f)
    sys.exit(1)
print('ok')
sys.exit(0)
