import os, sys, traceback
if os.environ.get('JEDI_ROOT'):
    sys.path.insert(0, os.environ['JEDI_ROOT'])
try:
    import jedi
except ImportError:
    print('cannot import jedi; run with PYTHONPATH=<jedi checkout>')
    sys.exit(2)


def check(func):
    """exit 1 and print the exception when func raises, exit 0 otherwise"""
    try:
        func()
    except Exception:
        traceback.print_exc()
        print('DEFECT PRESENT')
        sys.exit(1)
    print('ok')
    sys.exit(0)


# A return annotation with a bare `:` slice in the subscript (e.g. the numba
# style `float64[:]`): slices are skipped by their node type `subscript` when
# looking for type vars, but a bare `:` is an operator leaf.
# AssertionError: unhandled operator ':' in PythonNode(trailer, [[, :, ]])
def run():
    jedi.Script('def f(a) -> float64[:]:\n    return a\nx = f(1)\nx').infer(4, 1)
    jedi.Script('def f(a) -> "Array[int, :]":\n    return a\nx = f(1)\nx').infer(4, 1)


check(run)
