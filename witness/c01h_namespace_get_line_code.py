"""Witness for C01.h (PYTHONPATH=/repo /venv/bin/python witness/c01h_namespace_get_line_code.py).
BaseName.get_line_code() reads .code_lines of the name's root context; NamespaceContext (implicit namespace packages)
does not define it, so the documented method raises AttributeError."""
import os, shutil, sys, tempfile
import jedi
d = tempfile.mkdtemp(prefix='jedi-ns-')
bad = []
try:
    os.makedirs(os.path.join(d, 'nspkg', 'sub'))
    open(os.path.join(d, 'nspkg', 'sub', 'mod.py'), 'w').write('x = 1\n')
    s = jedi.Script('import nspkg\nnspkg\n', path=os.path.join(d, 'main.py'), project=jedi.Project(d))
    for q, pos in (('infer', (2, 3)), ('goto', (2, 3)), ('infer', (1, 9))):
        for n in getattr(s, q)(*pos):
            try:
                print(q, pos, n, repr(n.get_line_code()))
            except Exception as e:
                print(q, pos, n, 'get_line_code raised', type(e).__name__, e)
                bad.append(q)
finally:
    shutil.rmtree(d)
sys.exit(1 if bad else 0)
