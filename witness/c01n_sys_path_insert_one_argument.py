import os, sys, traceback
if os.environ.get('JEDI_ROOT'):
    sys.path.insert(0, os.environ['JEDI_ROOT'])
try:
    import jedi
except ImportError:
    print('cannot import jedi; run with PYTHONPATH=<jedi checkout>')
    sys.exit(2)


def check(func):
    """exit 1 and print the exception when func raises, exit 0 otherwise"""
    try:
        func()
    except Exception:
        traceback.print_exc()
        print('DEFECT PRESENT')
        sys.exit(1)
    print('ok')
    sys.exit(0)


# Every import looks for sys.path modifications of the module.  For
# `sys.path.insert(...)` the only argument is taken for an arglist and its third
# child for the path, whatever node it is.
def run():
    # AttributeError: 'Number' object has no attribute 'children'
    jedi.Script('import sys\nsys.path.insert(0)\nimport os\nos').infer(4, 2)
    # the third child of the atom_expr a.b.c is the trailer `.c`:
    # AssertionError: unhandled operator '.' in PythonNode(trailer, ...)
    jedi.Script('import sys\nsys.path.insert(a.b.c)\nimport os\nos').infer(4, 2)


check(run)
