import os, sys, traceback
if os.environ.get('JEDI_ROOT'):
    sys.path.insert(0, os.environ['JEDI_ROOT'])
try:
    import jedi
except ImportError:
    print('cannot import jedi; run with PYTHONPATH=<jedi checkout>')
    sys.exit(2)


def check(func):
    """exit 1 and print the exception when func raises, exit 0 otherwise"""
    try:
        func()
    except Exception:
        traceback.print_exc()
        print('DEFECT PRESENT')
        sys.exit(1)
    print('ok')
    sys.exit(0)


# Completion after `a. ` with the cursor in front of a token that cannot
# follow the dot: the leaf at the cursor is that token and not the dot, the
# leaf before it (the dot itself) is inferred as if it were an expression.
def run():
    jedi.Script('print(a. )').complete(1, 9)
    jedi.Script('if a. and b: pass').complete(1, 6)
    jedi.Script('a. )').complete(1, 3)


check(run)
