"""C01 (also C03/C18): every query inside an async comprehension raised ValueError ('in' is not in list): create_context looked for the
`in` keyword among the children of comp_for = [async, sync_comp_for].  Exit 1 = defect present."""
import sys
import jedi
src = "async def f(x):\n    return [j async for j in x if j]\n"
s = jedi.Script(src)
bad = 0
for line, col in [(2, 12), (2, 25), (2, 30), (2, 35)]:
    for fn in ('get_context', 'infer', 'goto', 'complete'):
        try:
            getattr(s, fn)(line, col)
        except ValueError as e:
            print(fn, (line, col), 'ValueError', e)
            bad = 1
try:
    s.get_names(all_scopes=True, references=True)
except ValueError as e:
    print('get_names ValueError', e)
    bad = 1
sys.exit(bad)
