"""Witness for C12.c (PYTHONPATH=/repo /venv/bin/python witness/c12c_untrusted_project_json.py).
The caller leaves load_unsafe_extensions at its default, but the analysed tree ships .jedi/project.json with
"load_unsafe_extensions": true; Script(path=<file in tree>) discovers and loads it (get_default_project ->
Project.load) and then imports the tree's gi.py (a name in settings.auto_import_modules): project code runs."""
import json, os, shutil, sys, tempfile
import jedi
d = tempfile.mkdtemp(prefix='jedi-untrusted-')
try:
    sentinel = os.path.join(d, 'EXECUTED')
    os.mkdir(os.path.join(d, '.jedi'))
    with open(os.path.join(d, '.jedi', 'project.json'), 'w') as f:
        json.dump([1, {'path': d, 'load_unsafe_extensions': True}], f)
    with open(os.path.join(d, 'gi.py'), 'w') as f:
        f.write('open(%r, "w").write("project code was executed")\nvalue = 1\n' % sentinel)
    p = os.path.join(d, 'main.py')
    code = 'import gi\ngi.'
    open(p, 'w').write(code)
    s = jedi.Script(code, path=p)
    print('project discovered:', s._inference_state.project._path, 'load_unsafe_extensions =', s._inference_state.project.load_unsafe_extensions)
    s.complete(2, 3)
    ran = os.path.exists(sentinel)
    print('project code executed:', ran)
    sys.exit(1 if ran else 0)
finally:
    shutil.rmtree(d)
