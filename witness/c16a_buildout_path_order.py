"""Witness for C16.a/C20.c (PYTHONPATH=/repo /venv/bin/python witness/c16a_buildout_path_order.py).
discover_buildout_paths() collects the sys.path additions of buildout scripts in a set(); the composed module search
path of a Script therefore lists them in an order that depends on PYTHONHASHSEED."""
import os, subprocess, sys, tempfile, shutil, json
d = tempfile.mkdtemp(prefix='jedi-buildout-')
try:
    open(os.path.join(d, 'buildout.cfg'), 'w').close()
    os.mkdir(os.path.join(d, 'bin'))
    eggs = [os.path.join(d, 'eggs', 'egg%d' % i) for i in range(6)]
    for e in eggs:
        os.makedirs(e)
    with open(os.path.join(d, 'bin', 'run'), 'w') as f:
        f.write('#!/usr/bin/python\nimport sys\nsys.path[0:0] = [\n%s]\n' % ''.join('  %r,\n' % e for e in eggs))
    open(os.path.join(d, 'mod.py'), 'w').write('x = 1\n')
    child = ("import jedi, json, sys; s = jedi.Script('x', path=%r); "
             "print(json.dumps([p for p in s._inference_state.get_sys_path() if 'egg' in p]))" % os.path.join(d, 'mod.py'))
    seen = {}
    for seed in range(8):
        out = subprocess.run([sys.executable, '-c', child], capture_output=True, text=True, env=dict(os.environ, PYTHONHASHSEED=str(seed)))
        if out.returncode:
            print('child failed', out.stderr[-400:]); sys.exit(2)
        order = tuple(os.path.basename(p) for p in json.loads(out.stdout))
        seen.setdefault(order, []).append(seed)
    for k, v in seen.items():
        print('PYTHONHASHSEED %s -> %s' % (v, list(k)))
    sys.exit(1 if len(seen) > 1 else 0)
finally:
    shutil.rmtree(d)
