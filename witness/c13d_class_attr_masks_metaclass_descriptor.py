"""Witness: Interpreter safe mode (settings.allow_unsafe_interpreter_executions = False)
executes a property / data descriptor of a METACLASS when the class (or a base) has an
attribute of the same name.

Python: type.__getattribute__(C, 'x') looks into type(C).__mro__ first; a data descriptor
found there wins over C.__dict__['x'].  jedi.inference.compiled.getattr_static.getattr_static
looks at the class first and only afterwards at the metaclass, returns
('class attribute', False) = "not a descriptor", so CompiledValueFilter creates a normal
CompiledName and DirectObjectAccess.getattr_paths() does a real getattr(C, 'x'), which
runs the metaclass property.
exit 1 = defect present.
"""
import sys

import jedi
from jedi.inference.compiled.getattr_static import getattr_static

calls = []


class Desc:
    def __get__(self, inst, owner=None):
        calls.append('Meta.d.__get__')
        return 1

    def __set__(self, inst, value):
        pass


class Meta(type):
    @property
    def x(cls):
        calls.append('Meta.x fget')
        return 1

    d = Desc()


class Base(metaclass=Meta):
    d = 'attribute of a base class'


class C(Base):
    x = 'class attribute'


failures = []
attr, is_descriptor = getattr_static(C, 'x')
if not (isinstance(attr, property) and is_descriptor):
    failures.append("getattr_static(C, 'x') -> %r, expected (Meta.__dict__['x'], True), "
                    "real getattr runs the metaclass property" % ((attr, is_descriptor),))

old = jedi.settings.allow_unsafe_interpreter_executions
jedi.settings.allow_unsafe_interpreter_executions = False
try:
    for code in ['C.x', 'C.d', 'x = C.x\nx', 'C.x.', 'C.d.']:
        lines = code.split('\n')
        pos = len(lines), len(lines[-1])
        for method in ['infer', 'goto', 'help', 'complete']:
            del calls[:]
            result = getattr(jedi.Interpreter(code, [{'C': C}]), method)(*pos)
            for r in result[:3]:
                r.docstring(), r.type, r.full_name, r.description, r.get_type_hint()
            if calls:
                failures.append('safe mode: Interpreter(%r).%s%r executed %s'
                                % (code, method, pos, sorted(set(calls))))
finally:
    jedi.settings.allow_unsafe_interpreter_executions = old

if failures:
    print('DEFECT PRESENT')
    for f in failures:
        print(f)
    sys.exit(1)
print('ok')
sys.exit(0)
