"""C01 witness: an int literal too large for a float, added to a float literal.
Run: PYTHONPATH=/repo /venv/bin/python witness/c01f_literal_arithmetic_overflow.py  (exit 1 = defect present)"""
import sys
import jedi

bad = 0
for code in ("x = 1%s + 1.0\nx" % ('0' * 400), "x = 1.5 - 1%s\nx" % ('0' * 400), "x = 1%s < 1.0\nx" % ('0' * 400)):
    try:
        print(jedi.Script(code).infer(2, 1))
    except Exception as e:
        print('DEFECT: infer raised %s' % type(e).__name__)
        bad = 1
sys.exit(bad)
