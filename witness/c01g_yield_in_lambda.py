import os, sys, traceback
if os.environ.get('JEDI_ROOT'):
    sys.path.insert(0, os.environ['JEDI_ROOT'])
try:
    import jedi
except ImportError:
    print('cannot import jedi; run with PYTHONPATH=<jedi checkout>')
    sys.exit(2)


def check(func):
    """exit 1 and print the exception when func raises, exit 0 otherwise"""
    try:
        func()
    except Exception:
        traceback.print_exc()
        print('DEFECT PRESENT')
        sys.exit(1)
    print('ok')
    sys.exit(0)


# A lambda that is a generator: the search for the loop/function around the
# yield does not stop at the lambda and finds nothing (or something outside).
# AttributeError: 'NoneType' object has no attribute 'parent'
def run():
    jedi.Script('x = lambda: (yield 1)\nfor a in x(): a').infer(2, 15)
    jedi.Script('x = lambda: [(yield 1) for a in b]\nlist(x())[0]').infer(2, 9)


check(run)
