import os, sys, traceback
if os.environ.get('JEDI_ROOT'):
    sys.path.insert(0, os.environ['JEDI_ROOT'])
try:
    import jedi
except ImportError:
    print('cannot import jedi; run with PYTHONPATH=<jedi checkout>')
    sys.exit(2)


def check(func):
    """exit 1 and print the exception when func raises, exit 0 otherwise"""
    try:
        func()
    except Exception:
        traceback.print_exc()
        print('DEFECT PRESENT')
        sys.exit(1)
    print('ok')
    sys.exit(0)


# The string "abc" starts a new error node, the bracket of os.path.join( is in
# the error node before it.
def run():
    source = 'import os\nos.path.join(x "abc" +'
    jedi.Script(source).complete(2, 19)   # inside "abc"


check(run)
