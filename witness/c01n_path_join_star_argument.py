import os, sys, traceback
if os.environ.get('JEDI_ROOT'):
    sys.path.insert(0, os.environ['JEDI_ROOT'])
try:
    import jedi
except ImportError:
    print('cannot import jedi; run with PYTHONPATH=<jedi checkout>')
    sys.exit(2)


def check(func):
    """exit 1 and print the exception when func raises, exit 0 otherwise"""
    try:
        func()
    except Exception:
        traceback.print_exc()
        print('DEFECT PRESENT')
        sys.exit(1)
    print('ok')
    sys.exit(0)


# Path completion in os.path.join(...): the arguments in front of the string
# are inferred one by one, but `*b` (an `argument` node) is not an expression.
def run():
    source = 'import os\nb = ["a"]\nos.path.join(*b, "c")'
    jedi.Script(source).complete(3, 19)   # inside "c", after the c
    # Same defect, other exception (RuntimeError: generator raised
    # StopIteration), a generator as argument:
    source = 'import os\nb = ["a"]\nos.path.join(x for x in b, "c'
    jedi.Script(source).complete(3, 29)


check(run)
