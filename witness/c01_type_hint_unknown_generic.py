import os, sys, traceback
if os.environ.get('JEDI_ROOT'):
    sys.path.insert(0, os.environ['JEDI_ROOT'])
try:
    import jedi
except ImportError:
    print('cannot import jedi; run with PYTHONPATH=<jedi checkout>')
    sys.exit(2)


def check(func):
    """exit 1 and print the exception when func raises, exit 0 otherwise"""
    try:
        func()
    except Exception:
        traceback.print_exc()
        print('DEFECT PRESENT')
        sys.exit(1)
    print('ok')
    sys.exit(0)


# Name.get_type_hint() of a list/dict/tuple/set whose element type is unknown:
# the type hint of the (empty) value set of the element is None and is joined
# as if it were a string.
# TypeError: sequence item 0: expected str instance, NoneType found
def run():
    name, = jedi.Script('x = []').get_names()
    print(name.get_type_hint())
    name, = jedi.Script('x = {a: 1}\nx').infer(2, 1)
    print(name.get_type_hint())
    for name in jedi.Script('def f(*args, **kwargs): pass').get_names(all_scopes=True):
        print(name.get_type_hint())


check(run)
