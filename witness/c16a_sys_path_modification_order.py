"""Witness (PYTHONPATH=/repo /venv/bin/python witness/c16a_sys_path_modification_order.py): detected sys.path
modifications of the analysed module are appended to the search path in ValueSet iteration order, which depends
on object addresses when an appended expression has more than one possible value."""
import os, subprocess, sys, json
code = "import sys\np = '/x/aaa' if c else ('/x/bbb' if d else '/x/ccc')\nsys.path.append(p)\nimport foo\nfoo"
CHILD = r'''
import sys, json
pad = [object() for _ in range(int(sys.argv[1]))]
import jedi
from jedi.inference.sys_path import check_sys_path_modifications
s = jedi.Script(sys.argv[2], path='/tmp/zz_nonexistent_mod.py')
print(json.dumps([str(p) for p in check_sys_path_modifications(s._get_module_context())]))
'''
seen = {}
for pad in (0, 1, 3, 10, 33, 100, 257, 1000, 1999, 4096, 9973, 20011):
    out = subprocess.run([sys.executable, '-c', CHILD, str(pad), code], capture_output=True, text=True, env=dict(os.environ, PYTHONHASHSEED='0'))
    if out.returncode:
        print('child failed', out.stderr[-300:]); sys.exit(2)
    seen.setdefault(out.stdout.strip(), []).append(pad)
for k, v in seen.items():
    print('pads %s -> %s' % (v, k))
sys.exit(1 if len(seen) > 1 else 0)
