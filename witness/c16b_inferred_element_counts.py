"""Witness for C16.b (PYTHONPATH=/repo /venv/bin/python witness/c16b_inferred_element_counts.py).
The per-context inference cap (_limit_value_infers, 300 per context) counts in InferenceState.inferred_element_counts,
which reset_recursion_limitations() does not reset: the budget is spent over the whole life of a Script, so the same
query answers differently after enough earlier queries on the same Script."""
import sys
import jedi
lines = ['class K%d:\n    def m(self): return %d\n' % (i, i) for i in range(3)]
code = ''.join(lines) + ''.join('v%d = K%d().m()\n' % (i, i % 3) for i in range(120))
n_lines = code.count('\n')
first = 3 * 2 + 1
fresh = {}
for ln in range(first, first + 120):
    fresh[ln] = [d.name for d in jedi.Script(code).infer(ln, 1)]
s = jedi.Script(code)
diff = []
for rep in range(4):
    for ln in range(first, first + 120):
        got = [d.name for d in s.infer(ln, 1)]
        if got != fresh[ln]:
            diff.append((rep, ln, got, fresh[ln]))
print('queries on one Script: %d, answers differing from a fresh Script: %d' % (4 * 120, len(diff)))
for d in diff[:3]:
    print('  repetition %d line %d: long-lived Script %s, fresh Script %s' % d)
sys.exit(1 if diff else 0)
