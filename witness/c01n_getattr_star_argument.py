import os, sys, traceback
if os.environ.get('JEDI_ROOT'):
    sys.path.insert(0, os.environ['JEDI_ROOT'])
try:
    import jedi
except ImportError:
    print('cannot import jedi; run with PYTHONPATH=<jedi checkout>')
    sys.exit(2)


def check(func):
    """exit 1 and print the exception when func raises, exit 0 otherwise"""
    try:
        func()
    except Exception:
        traceback.print_exc()
        print('DEFECT PRESENT')
        sys.exit(1)
    print('ok')
    sys.exit(0)


# Completion of instance attributes looks for `return getattr(<obj>, name)` in
# __getattr__ and infers <obj>.  The first child of the arglist is here an
# `argument` node (`*self.x`), not an expression.
# AssertionError: unhandled operator '*' in PythonNode(argument, ...)
def run():
    source = ('class A:\n'
              '    def __getattr__(self, name):\n'
              '        return getattr(*self.x, name)\n'
              'A().')
    jedi.Script(source).complete(4, 4)
    # RuntimeError: generator raised StopIteration
    jedi.Script(source.replace('*self.x', 'x for x in y')).complete(4, 4)


check(run)
