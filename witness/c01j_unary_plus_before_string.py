"""C01 witness: completing inside a string that follows a unary plus in a broken statement.
Run: PYTHONPATH=/repo /venv/bin/python witness/c01j_unary_plus_before_string.py  (exit 1 = defect present)"""
import sys
import jedi

bad = 0
for code, pos in [("x = +'ab", (1, 7)), ("return +'ab", (1, 10)), ("foo(1, +'a", (1, 10)), ("x = 'a' + 'b", (1, 12)), ("f(x, 'a' + 'b", (1, 13))]:
    try:
        jedi.Script(code).complete(*pos)
    except Exception as e:
        print('DEFECT: complete%r on %r raised %s: %s' % (pos, code, type(e).__name__, e))
        bad = 1
sys.exit(bad)
