"""extract_variable / extract_function with a (forward) range whose edge is on an operator
or in the whitespace next to one:
 - leak UnboundLocalError / IndexError (promise: only RefactoringError / ValueError), or
 - return code that is not valid Python (the operator is cut from its operand).
All in jedi/api/refactoring/extract.py::_remove_unwanted_expression_nodes."""
import ast
import sys
import jedi

CASES = [
    # code, column, until_column (all on line 1), selected text
    ('x = 1 + 2 * 3\n', 4, 7),             # `1 +`   UnboundLocalError end_index
    ('x = 2 * 3 + 4\n', 10, 13),           # `+ 4`   UnboundLocalError start_index
    ('while not a or b: break\n', 5, 6),   # ` `     UnboundLocalError end_index
    ('while not a or b: break\n', 11, 12),  # ` `    IndexError
    ('x = 1 + 2 + 3 + 4\n', 4, 7),         # `1 +`   -> `nn = 1 + 2 +`
    ('x = 1 + 2 + 3 + 4\n', 8, 11),        # `2 +`   -> `nn = 2 + 3 +`
    ('x = a and b and c\n', 6, 9),         # `and`   -> `nn = and b`
    ('x = a or b or c\n', 6, 10),          # `or b`  -> `nn = or b`
    ('x = a not in b\n', 4, 9),            # `a not` -> `nn = a not in`
]
bad = []
for code, column, until_column in CASES:
    ast.parse(code)
    for fn in ('extract_variable', 'extract_function'):
        what = '%s %r selecting %r' % (fn, code, code[column:until_column])
        try:
            refactoring = getattr(jedi.Script(code), fn)(
                1, column, until_line=1, until_column=until_column, new_name='nn')
            new_code = refactoring.get_changed_files()[None].get_new_code()
        except (jedi.RefactoringError, ValueError):
            continue
        except Exception as e:
            bad.append('%s: %s: %s' % (what, type(e).__name__, e))
            continue
        try:
            ast.parse(new_code)
        except SyntaxError:
            bad.append('%s: result is not valid Python: %r' % (what, new_code))
if bad:
    print('DEFECT: range with an operator at its edge:')
    print('\n'.join('  ' + b for b in bad))
    sys.exit(1)
print('ok')
